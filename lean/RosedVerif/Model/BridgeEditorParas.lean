/-
The A→B bridge at EDITOR level in PARAGRAPH mode (`preservePara = true`): `Editor.applyParasM`
(rosed.go, applyGParagraphsOpts) with corresponding per-paragraph callbacks, and from it
IndentOpts, WrapOpts, JustifyOpts and AlignOpts in paragraph mode.

Condition on the separators (`GoodPara V L P`, `L` the line separator, `P` the paragraph
separator, both lists of cluster tokens): both are `BridgeOps.GoodSep`, both are over `V`, and the
PREFIX test for `L` agrees on the two levels (the paragraph loop looks for a line separator at
the start of the next paragraph when `P ++ L = L ++ P`, which is the case for the defaults
"\n" / "\n\n").  Lists of marker tokens (`goodPara_markers`) satisfy it.
-/
import RosedVerif.Model.BridgeEditorOps
import RosedVerif.Model.ParaLemmas
set_option linter.unusedSectionVars false
namespace RosedVerif
namespace BridgeEditorParas
open BridgeWrap BridgeOps BridgeAlign BridgeComposite OpsStructure BridgeEditorOps

/-! ## 0. the separators -/

structure GoodPara (V : List (List Int)) (L P : List (List Int)) : Prop where
  line : GoodSep V L
  para : GoodSep V P
  lineV : ∀ t ∈ L, t ∈ V
  paraV : ∀ t ∈ P, t ∈ V
  pre : ∀ toks : List (List Int), (∀ t ∈ toks, t ∈ V) →
    @List.isPrefixOf Int instBEqOfDecidableEq L.flatten toks.flatten =
      @List.isPrefixOf (List Int) instBEqOfDecidableEq L toks

section vocab
variable {V : List (List Int)}

/-- non-empty lists of marker tokens of the vocabulary are good separators for paragraph mode -/
theorem goodPara_markers (hV : VocabStable V = true) (L P : List (List Int)) (hL : L ≠ [])
    (hP : P ≠ []) (hLm : ∀ s ∈ L, Marker V s) (hPm : ∀ s ∈ P, Marker V s)
    (hLV : ∀ t ∈ L, t ∈ V) (hPV : ∀ t ∈ P, t ∈ V) : GoodPara V L P where
  line := goodSep_markers hV L hL hLm
  para := goodSep_markers hV P hP hPm
  lineV := hLV
  paraV := hPV
  pre := fun toks ht => by
    rw [Bool.eq_iff_iff, isPrefixOf_dec_iff, isPrefixOf_dec_iff]
    exact ⟨prefix_aligned L toks hLm ht (over_ne_nil hV ht), flatten_prefix⟩

/-- two token lists over `V` with the same code points are equal -/
theorem flatten_inj_over (hV : VocabStable V = true) {a b : List (List Int)}
    (ha : ∀ t ∈ a, t ∈ V) (hb : ∀ t ∈ b, t ∈ V) (h : a.flatten = b.flatten) : a = b := by
  rw [← clusters_flatten_stable a (stableRunes_of_vocab V hV a ha),
    ← clusters_flatten_stable b (stableRunes_of_vocab V hV b hb), h]

end vocab

/-! ## 1. the calls of the paragraph loop -/

theorem ambig_iff {α : Type} [DecidableEq α] (o : Options α) :
    o.ambig = true ↔ o.paraSep ++ o.lineSep = o.lineSep ++ o.paraSep := by
  unfold Options.ambig
  exact beq_iff_eq

/-- flatten every component of a call `(index, paragraph, prefix, suffix)` -/
def flatCall (c : Nat × List (List Int) × List (List Int) × List (List Int)) :
    Nat × List Int × List Int × List Int :=
  (c.1, c.2.1.flatten, c.2.2.1.flatten, c.2.2.2.flatten)

section vocab
variable {V : List (List Int)}

theorem drop_flatten_prefix {β : Type} (L nxt : List (List β)) (h : L <+: nxt) :
    nxt.flatten.drop L.flatten.length = (nxt.drop L.length).flatten := by
  obtain ⟨r, rfl⟩ := h
  rw [List.flatten_append, List.drop_left, List.drop_left]

theorem paraCalls_bridge {L P : List (List Int)} (hG : GoodPara V L P)
    (suf pre : List (List Int)) (ambig : Bool) :
    ∀ (rest : List (List (List Int))) (idx : Nat) (cur : List (List Int)),
      (∀ r ∈ rest, ∀ t ∈ r, t ∈ V) →
      paraCalls L.flatten suf.flatten pre.flatten ambig idx cur.flatten
          (rest.map List.flatten) =
        (paraCalls L suf pre ambig idx cur rest).map flatCall
  | [], idx, cur, _ => by
    simp only [List.map_nil, paraCalls, List.map_cons, flatCall]
    split <;> rfl
  | nxt :: rest, idx, cur, hr => by
    have hn : ∀ t ∈ nxt, t ∈ V := hr nxt List.mem_cons_self
    have hrest : ∀ r ∈ rest, ∀ t ∈ r, t ∈ V := fun r h => hr r (List.mem_cons_of_mem _ h)
    simp only [List.map_cons, paraCalls, hG.pre nxt hn]
    cases hs : (ambig && @List.isPrefixOf (List Int) instBEqOfDecidableEq L nxt) with
    | false =>
      simp only [Bool.false_eq_true, if_false]
      rw [paraCalls_bridge hG suf pre ambig rest (idx + 1) nxt hrest]
      congr 1
      simp only [flatCall]
      split <;> rfl
    | true =>
      have hp : L <+: nxt := by
        rw [Bool.and_eq_true] at hs
        exact (isPrefixOf_dec_iff L nxt).1 hs.2
      simp only [if_true]
      rw [drop_flatten_prefix L nxt hp,
        paraCalls_bridge hG suf pre ambig rest (idx + 1) (nxt.drop L.length) hrest]
      congr 1
      simp only [flatCall, List.flatten_append]
      split <;> rfl

/-- the paragraphs handed to the callback are over `V` -/
theorem paraCalls_over {L : List (List Int)} (hLV : ∀ t ∈ L, t ∈ V) (suf pre : List (List Int))
    (hsuf : ∀ t ∈ suf, t ∈ V) (hpre : ∀ t ∈ pre, t ∈ V) (ambig : Bool) :
    ∀ (rest : List (List (List Int))) (idx : Nat) (cur : List (List Int)),
      (∀ t ∈ cur, t ∈ V) → (∀ r ∈ rest, ∀ t ∈ r, t ∈ V) →
      ∀ c ∈ paraCalls L suf pre ambig idx cur rest,
        (∀ t ∈ c.2.1, t ∈ V) ∧ (∀ t ∈ c.2.2.1, t ∈ V) ∧ (∀ t ∈ c.2.2.2, t ∈ V)
  | [], idx, cur, hc, _, c, h => by
    simp only [paraCalls, List.mem_singleton] at h
    subst h
    refine ⟨hc, ?_, fun t h => by cases h⟩
    dsimp only
    split
    · exact hpre
    · intro t h; cases h
  | nxt :: rest, idx, cur, hc, hr, c, h => by
    have hn : ∀ t ∈ nxt, t ∈ V := hr nxt List.mem_cons_self
    have hrest : ∀ r ∈ rest, ∀ t ∈ r, t ∈ V := fun r h => hr r (List.mem_cons_of_mem _ h)
    simp only [paraCalls, List.mem_cons] at h
    rcases h with h | h
    · subst h
      refine ⟨?_, ?_, hsuf⟩
      · dsimp only
        split
        · exact over_append hc hLV
        · exact hc
      · dsimp only
        split
        · exact hpre
        · intro t h; cases h
    · refine paraCalls_over hLV suf pre hsuf hpre ambig rest (idx + 1) _ ?_ hrest c h
      split
      · exact fun t h => hn t (List.mem_of_mem_drop h)
      · exact hn

theorem headD_map_flatten {β : Type} (ls : List (List (List β))) :
    (ls.map List.flatten).headD [] = (ls.headD []).flatten := by
  cases ls <;> rfl

/-- the calls made by `applyParasM` on the two levels correspond -/
theorem paraCallsOf_bridge (hV : VocabStable V = true) (toks : List (List Int))
    (ht : ∀ t ∈ toks, t ∈ V) (o : Options (List Int))
    (hG : GoodPara V (o.withDefaults cxB).lineSep (o.withDefaults cxB).paraSep) :
    paraCallsOf toks.flatten (o.flat.withDefaults cxA) =
      (paraCallsOf toks (o.withDefaults cxB)).map flatCall := by
  have hamb : (o.flat.withDefaults cxA).ambig = (o.withDefaults cxB).ambig := by
    rw [Bool.eq_iff_iff, ambig_iff, ambig_iff, lineSep_flat_gen o hG.line.tok_ne,
      paraSep_flat_gen o hG.para.tok_ne, ← List.flatten_append, ← List.flatten_append]
    exact ⟨flatten_inj_over hV (over_append hG.paraV hG.lineV) (over_append hG.lineV hG.paraV),
      fun h => by rw [h]⟩
  have hsuf : (o.flat.withDefaults cxA).prevSuffix = ((o.withDefaults cxB).prevSuffix).flatten := by
    unfold Options.prevSuffix
    rw [lineSep_flat_gen o hG.line.tok_ne, paraSep_flat_gen o hG.para.tok_ne,
      hG.line.split _ hG.paraV, headD_map_flatten]
  have hpre : (o.flat.withDefaults cxA).nextPrefix = ((o.withDefaults cxB).nextPrefix).flatten := by
    unfold Options.nextPrefix
    rw [lineSep_flat_gen o hG.line.tok_ne, paraSep_flat_gen o hG.para.tok_ne,
      hG.line.split _ hG.paraV, List.length_map, getLastD_map_flatten]
    split <;> rfl
  unfold paraCallsOf
  rw [hamb, hsuf, hpre, lineSep_flat_gen o hG.line.tok_ne, paraSep_flat_gen o hG.para.tok_ne,
    hG.para.split toks ht]
  cases hsp : splitOn toks (o.withDefaults cxB).paraSep with
  | nil => rfl
  | cons p ps =>
    simp only [List.map_cons]
    exact paraCalls_bridge hG _ _ _ ps 0 p
      (fun r h => splitOn_over ht _ r (by rw [hsp]; exact List.mem_cons_of_mem _ h))

theorem paraCallsOf_over (toks : List (List Int)) (ht : ∀ t ∈ toks, t ∈ V)
    (o : Options (List Int))
    (hLV : ∀ t ∈ (o.withDefaults cxB).lineSep, t ∈ V)
    (hPV : ∀ t ∈ (o.withDefaults cxB).paraSep, t ∈ V) :
    ∀ c ∈ paraCallsOf toks (o.withDefaults cxB),
      (∀ t ∈ c.2.1, t ∈ V) ∧ (∀ t ∈ c.2.2.1, t ∈ V) ∧ (∀ t ∈ c.2.2.2, t ∈ V) := by
  have hparts := splitOn_over hPV (o.withDefaults cxB).lineSep
  have hsuf : ∀ t ∈ (o.withDefaults cxB).prevSuffix, t ∈ V := by
    unfold Options.prevSuffix
    cases h : splitOn (o.withDefaults cxB).paraSep (o.withDefaults cxB).lineSep with
    | nil => intro t h; cases h
    | cons x xs => exact hparts x (by rw [h]; exact List.mem_cons_self)
  have hpre : ∀ t ∈ (o.withDefaults cxB).nextPrefix, t ∈ V := by
    unfold Options.nextPrefix
    split
    · exact getLastD_over _ hparts
    · intro t h; cases h
  unfold paraCallsOf
  cases hsp : splitOn toks (o.withDefaults cxB).paraSep with
  | nil => intro c h; cases h
  | cons p ps =>
    exact paraCalls_over hLV _ _ hsuf hpre _ ps 0 p
      (splitOn_over ht _ p (by rw [hsp]; exact List.mem_cons_self))
      (fun r h => splitOn_over ht _ r (by rw [hsp]; exact List.mem_cons_of_mem _ h))

/-! ## 2. `applyParasM` with corresponding callbacks -/

theorem mapM_map_bridge' {β β' γ δ : Type} (φ : β → β') (f : β' → R γ) (g : β → R δ) (h : δ → γ) :
    ∀ (l : List β), (∀ x ∈ l, f (φ x) = (g x).map h) →
      (l.map φ).mapM f = (l.mapM g).map (List.map h)
  | [], _ => by simp only [List.map_nil, List.mapM_nil]; rfl
  | x :: l, hx => by
    have h1 := hx x List.mem_cons_self
    have h2 := mapM_map_bridge' φ f g h l (fun y hy => hx y (List.mem_cons_of_mem _ hy))
    simp only [List.map_cons, List.mapM_cons, h1, h2]
    cases g x with
    | error e => rfl
    | ok a =>
      cases l.mapM g with
      | error e => rfl
      | ok as => rfl

/-- **7 (generic).** `Editor.applyParasM`: if the per-paragraph callbacks correspond on paragraphs,
prefixes and suffixes over `V`, the results correspond -/
theorem applyParasM_bridge (hV : VocabStable V = true) (ed : Editor (List Int))
    (ht : ∀ t ∈ ed.text, t ∈ V) (o : Options (List Int))
    (hG : GoodPara V (o.withDefaults cxB).lineSep (o.withDefaults cxB).paraSep)
    (opA : Nat → List Int → List Int → List Int → R (List (List Int)))
    (opB : Nat → List (List Int) → List (List Int) → List (List Int) →
      R (List (List (List Int))))
    (hop : ∀ (i : Nat) (para pre suf : List (List Int)), (∀ t ∈ para, t ∈ V) →
      (∀ t ∈ pre, t ∈ V) → (∀ t ∈ suf, t ∈ V) →
      opA i para.flatten pre.flatten suf.flatten =
        (opB i para pre suf).map (List.map List.flatten)) :
    Editor.applyParasM cxA ed.flat opA o.flat =
      (Editor.applyParasM cxB ed opB o).map Editor.flat := by
  rw [applyParasM_eq_mapM, applyParasM_eq_mapM, flat_text, paraCallsOf_bridge hV ed.text ht o hG,
    mapM_map_bridge' flatCall (fun c => opA c.1 c.2.1 c.2.2.1 c.2.2.2)
      (fun c => opB c.1 c.2.1 c.2.2.1 c.2.2.2) (List.map List.flatten) _
      (fun c hc => by
        obtain ⟨h1, h2, h3⟩ := paraCallsOf_over ed.text ht o hG.lineV hG.paraV c hc
        exact hop c.1 c.2.1 c.2.2.1 c.2.2.2 h1 h2 h3)]
  cases (paraCallsOf ed.text (o.withDefaults cxB)).mapM
      (fun c => opB c.1 c.2.1 c.2.2.1 c.2.2.2) with
  | error e => rfl
  | ok outs =>
    show Except.ok _ = Except.ok _
    rw [flat_withText, paraSep_flat_gen o hG.para.tok_ne, flatten_map_map_flatten,
      joinWith_flatten]

/-! ## 3. IndentOpts, paragraph mode -/

/-- text form of `mapped_bridge` -/
theorem mapped_bridge_text (hV : VocabStable V = true) (ed : Editor (List Int))
    (ht : ∀ t ∈ ed.text, t ∈ V) (o : Options (List Int))
    (hS : GoodSep V (o.withDefaults cxB).lineSep)
    (gA : List Int → List Int) (gB : List (List Int) → List (List Int))
    (hg : ∀ l ∈ inLines cxB ed o, gA l.flatten = (gB l).flatten) :
    joinWith (o.flat.withDefaults cxA).lineSep
        ((inLines cxA ed.flat o.flat).map gA ++ trailing cxA ed.flat o.flat) =
      (joinWith (o.withDefaults cxB).lineSep
        ((inLines cxB ed o).map gB ++ trailing cxB ed o)).flatten := by
  have h := congrArg Editor.text (mapped_bridge hV ed ht o hS gA gB hg)
  rw [Editor.withText_text, flat_text, Editor.withText_text] at h
  exact h

theorem string_root {α : Type} [DecidableEq α] (cx : Ctx α) (t : List α) (o : Options α) :
    (Editor.root t o).string cx = .ok t := rfl

/-- **7a.** `Editor.IndentOpts`, paragraph mode -/
theorem indentOpts_bridge_para (hV : VocabStable V = true) (ed : Editor (List Int))
    (ht : ∀ t ∈ ed.text, t ∈ V) (level : Int) (o : Options (List Int))
    (hpp : o.preservePara = true)
    (hG : GoodPara V (o.withDefaults cxB).lineSep (o.withDefaults cxB).paraSep)
    (hi : ∀ t ∈ o.indentStr, t ≠ []) :
    Editor.indentOpts cxA ed.flat level o.flat =
      (Editor.indentOpts cxB ed level o).map Editor.flat := by
  have hppB : (o.withDefaults cxB).preservePara = true := by
    rw [withDefaults_preservePara]; exact hpp
  have hppA : (o.flat.withDefaults cxA).preservePara = true := by
    rw [withDefaults_preservePara]; exact hpp
  unfold Editor.indentOpts
  split
  · rfl
  · dsimp only
    rw [hppA, hppB, indentStr_flat_gen o (indentStr_ne_of_ne o hi), repeatStr_bridge]
    cases repeatStr (o.withDefaults cxB).indentStr level with
    | error e => rfl
    | ok ind =>
      simp only [if_true]
      refine applyParasM_bridge hV ed ht o hG _ _ ?_
      intro i para pre suf hpara _ _
      show (Editor.applyOpts cxA (Editor.root para o).flat (fun _ line => [ind.flatten ++ line])
          o.flat >>= fun e => do pure [← e.string cxA]) =
        (Editor.applyOpts cxB (Editor.root para o) (fun _ line => [ind ++ line]) o >>=
          fun e => do pure [← e.string cxB]).map (List.map List.flatten)
      rw [applyOpts_map cxA (Editor.root para o).flat (fun line => ind.flatten ++ line) o.flat,
        applyOpts_map cxB (Editor.root para o) (fun line => ind ++ line) o,
        mapped_bridge_text hV (.root para o) hpara o hG.line _ (fun line => ind ++ line)
          (fun l _ => (List.flatten_append).symm)]
      rfl

end vocab

/-! ## 4. the paragraph callbacks of Wrap / Justify / Align as named functions -/

section generic
variable {α : Type} [DecidableEq α] (cx : Ctx α)

theorem withDefaults_paraSep_idem (o : Options α) :
    ((o.withDefaults cx).withDefaults cx).paraSep = (o.withDefaults cx).paraSep := by
  rw [(withDefaults_fields cx (o.withDefaults cx)).2.2.1, (withDefaults_fields cx o).2.2.1]
  by_cases h : o.paraSep.isEmpty
  · simp only [h, if_true, ite_self]
  · simp only [h, if_false, Bool.false_eq_true]

/-- `applyParasM` reads only the two separators of its options, and these are stable under a
second `withDefaults` -/
theorem applyParasM_withDefaults (ed : Editor α)
    (op : Nat → List α → List α → List α → R (List (List α))) (o : Options α) :
    ed.applyParasM cx op (o.withDefaults cx) = ed.applyParasM cx op o := by
  unfold Editor.applyParasM
  simp only [withDefaults_lineSep_idem, withDefaults_paraSep_idem]

/-- the paragraph callback of `WrapOpts` (a paragraph that ends with the line separator keeps it:
the suffix test agrees on the two levels by `GoodSep.suffix`) -/
def wrapParaCb (width : Int) (lineSep : List α) (_ : Nat) (para pre suf : List α) :
    R (List (List α)) := do
  let sepStart := gRepeat [cx.phA] (gLen cx pre)
  let sepEnd := gRepeat [cx.phA] (gLen cx suf)
  let ls ← wrapLines cx (sepStart ++ para ++ sepEnd) width lineSep
  let text := (Block.mk ls lineSep false).join
  let ss : Int := gLen cx sepStart
  let se : Int := gLen cx sepEnd
  let text := if se > 0 then gSub cx text ss (-se) else gSub cx text ss (gLen cx text)
  pure [if lineSep.isSuffixOf para then text ++ lineSep else text]

theorem wrapOpts_para (ed : Editor α) (width : Int) (o : Options α)
    (hpp : o.preservePara = true) (hph : cx.phA ∉ (o.withDefaults cx).lineSep) :
    ed.wrapOpts cx width o =
      ed.applyParasM cx (wrapParaCb cx (if width < 2 then 2 else width)
        (o.withDefaults cx).lineSep) o := by
  have hppd : (o.withDefaults cx).preservePara = true := by
    rw [withDefaults_preservePara]; exact hpp
  rw [← applyParasM_withDefaults]
  unfold Editor.wrapOpts
  simp only [hppd, if_true, Ctx.placeholder_eq_phA cx hph]
  rfl

/-- the paragraph callback of `JustifyOpts` -/
def justifyParaCb (width : Int) (lineSep : List α) (jl : Bool) (_ : Nat) (para pre suf : List α) :
    R (List (List α)) := do
  let sepStart := gRepeat [cx.phA] (gLen cx pre)
  let sepEnd := gRepeat [cx.phA] (gLen cx suf)
  let bl := Block.new (sepStart ++ para ++ sepEnd) lineSep
  let n := bl.lines.length
  let bl ← bl.mapLinesM fun idx line =>
    if !jl ∧ (idx : Int) == (n : Int) - 1 then pure line else justifyLine cx line width
  let text := bl.join
  let ss : Int := gLen cx sepStart
  let se : Int := gLen cx sepEnd
  pure [if se > 0 then gSub cx text ss (-se) else gSub cx text ss (gLen cx text)]

theorem justifyOpts_para (ed : Editor α) (width : Int) (o : Options α)
    (hpp : o.preservePara = true) (hph : cx.phA ∉ (o.withDefaults cx).lineSep) :
    ed.justifyOpts cx width o =
      ed.applyParasM cx (justifyParaCb cx width (o.withDefaults cx).lineSep
        (o.withDefaults cx).justifyLast) o := by
  have hppd : (o.withDefaults cx).preservePara = true := by
    rw [withDefaults_preservePara]; exact hpp
  rw [← applyParasM_withDefaults]
  unfold Editor.justifyOpts
  simp only [hppd, if_true, Ctx.placeholder_eq_phA cx hph]
  rfl

/-- the paragraph callback of `AlignOpts` -/
def alignParaCb (align width : Int) (lineSep : List α) (_ : Nat) (para pre suf : List α) :
    R (List (List α)) := do
  let p ←
    if align == Gen.alignLeft then alignParaLeft cx width lineSep para pre suf
    else if align == Gen.alignRight then alignParaRight cx width lineSep para pre suf
    else alignParaCenter cx width lineSep para pre suf
  pure [p]

theorem alignOpts_para (ed : Editor α) (align width : Int) (o : Options α)
    (hal : align = Gen.alignLeft ∨ align = Gen.alignRight ∨ align = Gen.alignCenter)
    (hpp : o.preservePara = true) :
    ed.alignOpts cx align width o =
      ed.applyParasM cx (alignParaCb cx align width (o.withDefaults cx).lineSep) o := by
  have hppd : (o.withDefaults cx).preservePara = true := by
    rw [withDefaults_preservePara]; exact hpp
  rw [← applyParasM_withDefaults]
  unfold Editor.alignOpts
  rw [if_neg]
  · simp only [hppd, if_true]
    rfl
  · simp only [beq_iff_eq, bne_iff_ne, ne_eq]
    rcases hal with h | h | h <;> subst h <;> decide

end generic

/-! ## 5. WrapOpts, paragraph mode -/

section vocab
variable {V : List (List Int)}

theorem rel_of_over (hV : VocabStable V = true) {y : List (List Int)} (hy : ∀ t ∈ y, t ∈ V) :
    Rel y.flatten y := Rel.mk' (stableRunes_of_vocab V hV y hy)

theorem gLen_over (hV : VocabStable V = true) {y : List (List Int)} (hy : ∀ t ∈ y, t ∈ V) :
    gLen cxA y.flatten = gLen cxB y := rel_gLen (rel_of_over hV hy)

theorem gSub_over (hV : VocabStable V = true) {y : List (List Int)} (hy : ∀ t ∈ y, t ∈ V)
    (a b : Int) : gSub cxA y.flatten a b = (gSub cxB y a b).flatten :=
  (rel_gSub (rel_of_over hV hy) a b).2

theorem gSub_B_over {y : List (List Int)} (hy : ∀ t ∈ y, t ∈ V) (a b : Int) :
    ∀ t ∈ gSub cxB y a b, t ∈ V := fun t h => hy t (gSub_B_mem y a b t h)

/-- the placeholder runs `strings.Repeat("A", n)` -/
theorem phA_flatten (n : Nat) : (gRepeat [cxB.phA] n).flatten = gRepeat [cxA.phA] n := by
  rw [gRepeat_flatten]; rfl

theorem phA_over (hA : [0x41] ∈ V) (n : Int) : ∀ t ∈ gRepeat [cxB.phA] n, t ∈ V := by
  intro t h
  have := gRepeat_mem _ _ t h
  rw [List.mem_singleton] at this
  rw [this]; exact hA

theorem joinWith_over {S : List (List Int)} (hSV : ∀ t ∈ S, t ∈ V)
    {ls : List (List (List Int))} (hls : ∀ l ∈ ls, ∀ t ∈ l, t ∈ V) :
    ∀ t ∈ joinWith S ls, t ∈ V := by
  intro t h
  rcases joinWith_mem _ _ t h with h | ⟨l, hl, h⟩
  · exact hSV t h
  · exact hls l hl t h

theorem join_over {S : List (List Int)} (hSV : ∀ t ∈ S, t ∈ V)
    {ls : List (List (List Int))} (hls : ∀ l ∈ ls, ∀ t ∈ l, t ∈ V) (b : Bool) :
    ∀ t ∈ (Block.mk ls S b).join, t ∈ V := by
  unfold Block.join
  dsimp only
  have htr : ∀ t ∈ (if b = true then S else []), t ∈ V := by
    split
    · exact hSV
    · intro t h; cases h
  split
  · exact htr
  · exact over_append (joinWith_over hSV hls) htr

/-- the cut that removes the placeholders again -/
theorem cut_bridge (hV : VocabStable V = true) {text : List (List Int)}
    (htext : ∀ t ∈ text, t ∈ V) (ss se : Int) :
    (if se > 0 then gSub cxA text.flatten ss (-se)
      else gSub cxA text.flatten ss (gLen cxA text.flatten)) =
    (if se > 0 then gSub cxB text ss (-se) else gSub cxB text ss (gLen cxB text)).flatten := by
  split
  · exact gSub_over hV htext _ _
  · rw [gLen_over hV htext]; exact gSub_over hV htext _ _

theorem wrapParaCb_bridge (hV : VocabStable V = true) (hsp : [0x20] ∈ V) (hhy : [0x2D] ∈ V)
    (hA : [0x41] ∈ V) (hspTail : ∀ t ∈ V, (0x20 : Int) ∉ t.tail) {S : List (List Int)}
    (hS : GoodSep V S) (hSV : ∀ t ∈ S, t ∈ V) (width : Int) (i : Nat)
    (para pre suf : List (List Int)) (hpara : ∀ t ∈ para, t ∈ V) (hpre : ∀ t ∈ pre, t ∈ V)
    (hsuf : ∀ t ∈ suf, t ∈ V) :
    wrapParaCb cxA width S.flatten i para.flatten pre.flatten suf.flatten =
      (wrapParaCb cxB width S i para pre suf).map (List.map List.flatten) := by
  unfold wrapParaCb
  dsimp only
  rw [gLen_over hV hpre, gLen_over hV hsuf, ← phA_flatten, ← phA_flatten,
    ← List.flatten_append, ← List.flatten_append]
  have htoks : ∀ t ∈ gRepeat [cxB.phA] (gLen cxB pre) ++ para ++ gRepeat [cxB.phA] (gLen cxB suf),
      t ∈ V := over_append (over_append (phA_over hA _) hpara) (phA_over hA _)
  rw [wrapLines_bridge_good hV hsp hspTail hS _ htoks width,
    gLen_over hV (phA_over hA _), gLen_over hV (phA_over hA _)]
  cases hw : wrapLines cxB
      (gRepeat [cxB.phA] (gLen cxB pre) ++ para ++ gRepeat [cxB.phA] (gLen cxB suf)) width S with
  | error e => rfl
  | ok ls =>
    have hls := wrapLines_B_over hsp hhy _ htoks width S ls hw
    show Except.ok _ = Except.ok _
    rw [join_flatten_gen, cut_bridge hV (join_over hSV hls false), hS.suffix para hpara]
    split
    · simp only [List.map_cons, List.map_nil, List.flatten_append]
    · rfl

/-- the letter `A` is not a rune of the line separator: then WrapOpts pads with `A` on both levels
(`Ctx.placeholder_eq_phA`) -/
theorem phA_not_mem_B {L : List (List Int)} (hAL : (0x41 : Int) ∉ L.flatten) : cxB.phA ∉ L :=
  fun h => hAL (List.mem_flatten.2 ⟨[0x41], h, List.mem_singleton.2 rfl⟩)

theorem phA_not_mem_A (o : Options (List Int)) (hne : ∀ t ∈ (o.withDefaults cxB).lineSep, t ≠ [])
    (hAL : (0x41 : Int) ∉ ((o.withDefaults cxB).lineSep).flatten) :
    cxA.phA ∉ (o.flat.withDefaults cxA).lineSep := by
  rw [lineSep_flat_gen o hne]; exact hAL

/-- **7b.** `Editor.WrapOpts`, paragraph mode (`[0x41]`, the placeholder "A", must be a token of
the vocabulary and must not be a rune of the line separator: a separator that contains it is padded
with another letter — the repair of defect D18 — which need not be a cluster of `V`) -/
theorem wrapOpts_bridge_para (hV : VocabStable V = true) (hsp : [0x20] ∈ V) (hhy : [0x2D] ∈ V)
    (hA : [0x41] ∈ V) (hspTail : ∀ t ∈ V, (0x20 : Int) ∉ t.tail) (ed : Editor (List Int))
    (ht : ∀ t ∈ ed.text, t ∈ V) (width : Int) (o : Options (List Int))
    (hpp : o.preservePara = true)
    (hG : GoodPara V (o.withDefaults cxB).lineSep (o.withDefaults cxB).paraSep)
    (hAL : (0x41 : Int) ∉ ((o.withDefaults cxB).lineSep).flatten) :
    Editor.wrapOpts cxA ed.flat width o.flat = (Editor.wrapOpts cxB ed width o).map Editor.flat := by
  rw [wrapOpts_para cxA ed.flat width o.flat hpp (phA_not_mem_A o hG.line.tok_ne hAL),
    wrapOpts_para cxB ed width o hpp (phA_not_mem_B hAL), lineSep_flat_gen o hG.line.tok_ne]
  exact applyParasM_bridge hV ed ht o hG _ _
    (wrapParaCb_bridge hV hsp hhy hA hspTail hG.line hG.lineV _)

/-! ## 6. text blocks -/

/-- flatten a block of cluster tokens -/
def flatB (b : Block (List Int)) : Block Int :=
  ⟨b.lines.map List.flatten, b.sep.flatten, b.trailing⟩

/-- a block whose lines and separator are over `V` -/
@[reducible] def BOver (V : List (List Int)) (b : Block (List Int)) : Prop :=
  (∀ l ∈ b.lines, ∀ t ∈ l, t ∈ V) ∧ ∀ t ∈ b.sep, t ∈ V

/-- the test of `tb.New` for a trailing separator (spelled out in the generic setting so that the
`BEq` instance is the one the model uses) -/
def NewCond {α : Type} [DecidableEq α] (ls : List (List α)) : Prop :=
  ls.length > 1 ∧ (ls.getLast? == some []) = true

theorem newCond_iff {α : Type} [DecidableEq α] (ls : List (List α)) :
    NewCond ls ↔ ls.length > 1 ∧ ls.getLast? = some [] := by
  unfold NewCond
  rw [beq_iff_eq]

theorem mapM_ok_mem {β γ : Type} (f : β → R γ) : ∀ (l : List β) (rs : List γ),
    l.mapM f = .ok rs → ∀ r ∈ rs, ∃ x ∈ l, f x = .ok r
  | [], rs, h, r, hr => by
    simp only [List.mapM_nil] at h
    cases h
    cases hr
  | x :: l, rs, h, r, hr => by
    simp only [List.mapM_cons] at h
    cases hx : f x with
    | error e => rw [hx] at h; cases h
    | ok a =>
      cases hl : l.mapM f with
      | error e => rw [hx, hl] at h; cases h
      | ok as =>
        rw [hx, hl] at h
        cases h
        rcases List.mem_cons.1 hr with rfl | hr
        · exact ⟨x, List.mem_cons_self, hx⟩
        · obtain ⟨y, hy, hfy⟩ := mapM_ok_mem f l as hl r hr
          exact ⟨y, List.mem_cons_of_mem _ hy, hfy⟩

theorem getLast_map_flatten_iff {β : Type} (ls : List (List (List β)))
    (hne : ∀ l ∈ ls, ∀ t ∈ l, t ≠ []) :
    (ls.map List.flatten).getLast? = some [] ↔ ls.getLast? = some [] := by
  rw [List.getLast?_map]
  cases h : ls.getLast? with
  | none => simp
  | some l =>
    have hl : l ∈ ls := List.mem_of_getLast? h
    simp only [Option.map_some, Option.some.injEq]
    exact flatten_eq_nil l (hne l hl)

/-- `tb.New` -/
theorem blockNew_bridge (hV : VocabStable V = true) {S : List (List Int)} (hS : GoodSep V S)
    (toks : List (List Int)) (ht : ∀ t ∈ toks, t ∈ V) :
    Block.new toks.flatten S.flatten = flatB (Block.new toks S) := by
  unfold Block.new
  rw [flatten_isEmpty toks (over_ne_nil hV ht), hS.split toks ht]
  split
  · rfl
  · have hc : NewCond ((splitOn toks S).map List.flatten) ↔ NewCond (splitOn toks S) := by
      rw [newCond_iff, newCond_iff, List.length_map,
        getLast_map_flatten_iff _ (fun l hl t h => vocab_ne_nil hV (splitOn_over ht S l hl t h))]
    dsimp only
    by_cases h : NewCond (splitOn toks S)
    all_goals unfold NewCond at h hc
    · rw [if_pos h, if_pos (hc.2 h)]
      unfold flatB
      simp only [List.map_dropLast]
    · rw [if_neg h, if_neg (fun h' => h (hc.1 h'))]
      rfl

theorem blockNew_over {S : List (List Int)} (hSV : ∀ t ∈ S, t ∈ V)
    (toks : List (List Int)) (ht : ∀ t ∈ toks, t ∈ V) : BOver V (Block.new toks S) := by
  unfold Block.new
  split
  · exact ⟨fun l h => (by cases h), hSV⟩
  · dsimp only
    split
    · exact ⟨fun l h => splitOn_over ht S l (List.dropLast_subset _ h), hSV⟩
    · exact ⟨splitOn_over ht S, hSV⟩

theorem getD_over' {ls : List (List (List Int))} (h : ∀ l ∈ ls, ∀ t ∈ l, t ∈ V) (i : Nat) :
    ∀ t ∈ ls.getD i [], t ∈ V := by
  rcases getD_mem_or_nil ls i with h' | h'
  · exact h _ h'
  · rw [h']; intro t ht; cases ht

/-- `tb.Block.Apply` with a 1:1 callback that may fail -/
theorem mapLinesM_bridge (b : Block (List Int)) (hb : BOver V b)
    (fA : Nat → List Int → R (List Int)) (fB : Nat → List (List Int) → R (List (List Int)))
    (hf : ∀ (i : Nat) (l : List (List Int)), (∀ t ∈ l, t ∈ V) →
      fA i l.flatten = (fB i l).map List.flatten ∧ ∀ r, fB i l = .ok r → ∀ t ∈ r, t ∈ V) :
    (flatB b).mapLinesM fA = (b.mapLinesM fB).map flatB ∧
      ∀ b', b.mapLinesM fB = .ok b' → BOver V b' ∧ b'.lines.length = b.lines.length := by
  unfold Block.mapLinesM
  have e1 : (flatB b).lines = b.lines.map List.flatten := rfl
  rw [e1, List.length_map,
    mapM_map_bridge (fun i => fA i ((b.lines.map List.flatten).getD i []))
      (fun i => fB i (b.lines.getD i [])) List.flatten _
      (fun i _ => by rw [getD_map_flatten]; exact (hf i _ (getD_over' hb.1 i)).1)]
  cases hm : (List.range b.lines.length).mapM (fun i => fB i (b.lines.getD i [])) with
  | error e => exact ⟨rfl, fun b' h => by cases h⟩
  | ok ls =>
    refine ⟨rfl, fun b' h => ?_⟩
    have hb' : b' = { b with lines := ls } := (Except.ok.inj h).symm
    subst hb'
    refine ⟨⟨?_, hb.2⟩, ?_⟩
    · intro l hl
      obtain ⟨i, _, hi⟩ := mapM_ok_mem _ _ _ hm l hl
      exact (hf i _ (getD_over' hb.1 i)).2 l hi
    · rw [mapM_ok_length _ _ _ hm, List.length_range]

theorem join_flatB (b : Block (List Int)) : (flatB b).join = b.join.flatten :=
  join_flatten_b b.sep b.lines b.trailing

theorem join_over_B {b : Block (List Int)} (hb : BOver V b) : ∀ t ∈ b.join, t ∈ V :=
  join_over hb.2 hb.1 b.trailing

/-! ## 7. JustifyOpts, paragraph mode -/

theorem flatB_lines_length (b : Block (List Int)) : (flatB b).lines.length = b.lines.length :=
  List.length_map _

theorem justifyParaCb_bridge (hV : VocabStable V = true) (hsp : [0x20] ∈ V)
    (hA : [0x41] ∈ V) (hspTail : ∀ t ∈ V, (0x20 : Int) ∉ t.tail) {S : List (List Int)}
    (hS : GoodSep V S) (hSV : ∀ t ∈ S, t ∈ V) (width : Int) (jl : Bool) (i : Nat)
    (para pre suf : List (List Int)) (hpara : ∀ t ∈ para, t ∈ V) (hpre : ∀ t ∈ pre, t ∈ V)
    (hsuf : ∀ t ∈ suf, t ∈ V) :
    justifyParaCb cxA width S.flatten jl i para.flatten pre.flatten suf.flatten =
      (justifyParaCb cxB width S jl i para pre suf).map (List.map List.flatten) := by
  unfold justifyParaCb
  dsimp only
  rw [gLen_over hV hpre, gLen_over hV hsuf, ← phA_flatten, ← phA_flatten,
    ← List.flatten_append, ← List.flatten_append]
  have htoks : ∀ t ∈ gRepeat [cxB.phA] (gLen cxB pre) ++ para ++ gRepeat [cxB.phA] (gLen cxB suf),
      t ∈ V := over_append (over_append (phA_over hA _) hpara) (phA_over hA _)
  rw [blockNew_bridge hV hS _ htoks, gLen_over hV (phA_over hA _), gLen_over hV (phA_over hA _),
    flatB_lines_length]
  have hbl := blockNew_over hSV _ htoks
  generalize Block.new
    (gRepeat [cxB.phA] (gLen cxB pre) ++ para ++ gRepeat [cxB.phA] (gLen cxB suf)) S = bl at hbl ⊢
  obtain ⟨h1, h2⟩ := mapLinesM_bridge bl hbl
    (fun idx line => if (!jl) = true ∧ ((idx : Int) == (bl.lines.length : Int) - 1) = true
      then pure line else justifyLine cxA line width)
    (fun idx line => if (!jl) = true ∧ ((idx : Int) == (bl.lines.length : Int) - 1) = true
      then pure line else justifyLine cxB line width)
    (fun idx l hl => by
      split
      · exact ⟨rfl, fun r hr => by cases hr; exact hl⟩
      · obtain ⟨r, hr1, hr2, hr3⟩ := justifyLine_bridge_general hV hsp hspTail l hl width
        rw [hr1, hr2]
        exact ⟨rfl, fun r' hr' => by cases hr'; exact hr3⟩)
  rw [h1]
  cases hm : bl.mapLinesM (fun idx line =>
      if (!jl) = true ∧ ((idx : Int) == (bl.lines.length : Int) - 1) = true
      then pure line else justifyLine cxB line width) with
  | error e => rfl
  | ok bl' =>
    show Except.ok _ = Except.ok _
    rw [join_flatB, cut_bridge hV (join_over_B (h2 bl' hm).1)]
    rfl

/-- **7c.** `Editor.JustifyOpts`, paragraph mode (both values of `JustifyLastLine`) -/
theorem justifyOpts_bridge_para (hV : VocabStable V = true) (hsp : [0x20] ∈ V)
    (hA : [0x41] ∈ V) (hspTail : ∀ t ∈ V, (0x20 : Int) ∉ t.tail) (ed : Editor (List Int))
    (ht : ∀ t ∈ ed.text, t ∈ V) (width : Int) (o : Options (List Int))
    (hpp : o.preservePara = true)
    (hG : GoodPara V (o.withDefaults cxB).lineSep (o.withDefaults cxB).paraSep)
    (hAL : (0x41 : Int) ∉ ((o.withDefaults cxB).lineSep).flatten) :
    Editor.justifyOpts cxA ed.flat width o.flat =
      (Editor.justifyOpts cxB ed width o).map Editor.flat := by
  rw [justifyOpts_para cxA ed.flat width o.flat hpp (phA_not_mem_A o hG.line.tok_ne hAL),
    justifyOpts_para cxB ed width o hpp (phA_not_mem_B hAL),
    lineSep_flat_gen o hG.line.tok_ne, (withDefaults_fields cxA o.flat).2.2.2.2.2.1,
    (withDefaults_fields cxB o).2.2.2.2.2.1]
  exact applyParasM_bridge hV ed ht o hG _ _
    (justifyParaCb_bridge hV hsp hA hspTail hG.line hG.lineV _ _)

end vocab

/-! ## 8. AlignOpts, paragraph mode -/

/-- two computations fail alike or give related results -/
def RRel {A B : Type} (r : A → B → Prop) (x : R A) (y : R B) : Prop :=
  match x, y with
  | .ok a, .ok b => r a b
  | .error e, .error e' => e = e'
  | _, _ => False

theorem RRel.bind {A B C D : Type} {r : A → B → Prop} {q : C → D → Prop} {x : R A} {y : R B}
    {f : A → R C} {g : B → R D} (h : RRel r x y) (hf : ∀ a b, r a b → RRel q (f a) (g b)) :
    RRel q (x >>= f) (y >>= g) := by
  cases x with
  | error e =>
    cases y with
    | error e' => exact h
    | ok b => exact h.elim
  | ok a =>
    cases y with
    | error e' => exact h.elim
    | ok b => exact hf a b h

theorem RRel.pure {A B : Type} {r : A → B → Prop} {a : A} {b : B} (h : r a b) :
    RRel r (Pure.pure a : R A) (Pure.pure b : R B) := h

theorem RRel.ite {A B : Type} {r : A → B → Prop} (c : Prop) [Decidable c] {x x' : R A}
    {y y' : R B} (h : RRel r x y) (h' : RRel r x' y') :
    RRel r (if c then x else x') (if c then y else y') := by
  split
  · exact h
  · exact h'

theorem RRel.eq_map {A B : Type} {φ : B → A} {x : R A} {y : R B}
    (h : RRel (fun a b => a = φ b) x y) : x = y.map φ := by
  cases x with
  | error e =>
    cases y with
    | error e' => exact congrArg Except.error h
    | ok b => exact h.elim
  | ok a =>
    cases y with
    | error e' => exact h.elim
    | ok b => exact congrArg Except.ok h

section vocab
variable {V : List (List Int)}

/-- related texts -/
def TR (V : List (List Int)) (a : List Int) (b : List (List Int)) : Prop :=
  a = b.flatten ∧ ∀ t ∈ b, t ∈ V

/-- related blocks -/
def BR (V : List (List Int)) (a : Block Int) (b : Block (List Int)) : Prop :=
  a = flatB b ∧ BOver V b

theorem TR.mk' {b : List (List Int)} (h : ∀ t ∈ b, t ∈ V) : TR V b.flatten b := ⟨rfl, h⟩

theorem TR.append {a c : List Int} {b d : List (List Int)} (h1 : TR V a b) (h2 : TR V c d) :
    TR V (a ++ c) (b ++ d) :=
  ⟨by rw [h1.1, h2.1, List.flatten_append], over_append h1.2 h2.2⟩

theorem TR.gLen (hV : VocabStable V = true) {a : List Int} {b : List (List Int)} (h : TR V a b) :
    gLen cxA a = gLen cxB b := by rw [h.1]; exact gLen_over hV h.2

theorem TR.gSub (hV : VocabStable V = true) {a : List Int} {b : List (List Int)} (h : TR V a b)
    (x y : Int) : TR V (gSub cxA a x y) (gSub cxB b x y) :=
  ⟨by rw [h.1]; exact gSub_over hV h.2 x y, gSub_B_over h.2 x y⟩

theorem TR.rel (hV : VocabStable V = true) {a : List Int} {b : List (List Int)} (h : TR V a b) :
    Rel a b := by rw [h.1]; exact rel_of_over hV h.2

theorem BR.lines_length {a : Block Int} {b : Block (List Int)} (h : BR V a b) :
    a.lines.length = b.lines.length := by rw [h.1]; exact flatB_lines_length b

theorem BR.lines_isEmpty {a : Block Int} {b : Block (List Int)} (h : BR V a b) :
    a.lines.isEmpty = b.lines.isEmpty := by
  rw [h.1]; unfold flatB; cases b.lines <;> rfl

theorem BR.join {a : Block Int} {b : Block (List Int)} (h : BR V a b) : TR V a.join b.join :=
  ⟨by rw [h.1]; exact join_flatB b, join_over_B h.2⟩

theorem BR.line {a : Block Int} {b : Block (List Int)} (h : BR V a b) (pos : Int) :
    RRel (TR V) (a.line pos) (b.line pos) := by
  unfold Block.line
  rw [h.lines_length]
  split
  · exact rfl
  · refine RRel.pure ⟨?_, getD_over' h.2.1 _⟩
    rw [h.1]
    exact getD_map_flatten _ _

theorem BR.set {a : Block Int} {b : Block (List Int)} (h : BR V a b) (pos : Int)
    {c : List Int} {d : List (List Int)} (hc : TR V c d) :
    RRel (fun a' b' => BR V a' b' ∧ b'.lines.length = b.lines.length)
      (a.set pos c) (b.set pos d) := by
  unfold Block.set
  rw [h.lines_length]
  split
  · exact rfl
  · refine RRel.pure ⟨⟨?_, ?_, h.2.2⟩, by simp only [List.length_set]⟩
    · rw [h.1, hc.1]
      unfold flatB
      simp only [List.map_set]
    · intro l hl
      rcases List.mem_or_eq_of_mem_set hl with hl | hl
      · exact h.2.1 l hl
      · rw [hl]; exact hc.2

theorem BR.mapLines {a : Block Int} {b : Block (List Int)} (h : BR V a b)
    (gA : List Int → List Int) (gB : List (List Int) → List (List Int))
    (hg : ∀ l, (∀ t ∈ l, t ∈ V) → TR V (gA l.flatten) (gB l)) :
    RRel (fun a' b' => BR V a' b' ∧ b'.lines.length = b.lines.length)
      (a.mapLinesM fun _ l => Pure.pure (gA l)) (b.mapLinesM fun _ l => Pure.pure (gB l)) := by
  obtain ⟨h1, h2⟩ := mapLinesM_bridge b h.2 (fun _ l => Pure.pure (gA l))
    (fun _ l => Pure.pure (gB l))
    (fun _ l hl => ⟨congrArg Except.ok (hg l hl).1, fun r hr => by cases hr; exact (hg l hl).2⟩)
  rw [h.1, h1]
  cases hm : b.mapLinesM (fun _ l => Pure.pure (gB l)) with
  | error e => exact rfl
  | ok b' => exact ⟨⟨rfl, (h2 b' hm).1⟩, (h2 b' hm).2⟩

theorem sp_over (hsp : [0x20] ∈ V) (n : Int) : ∀ t ∈ gRepeat [cxB.sp] n, t ∈ V := by
  intro t h
  have := gRepeat_mem _ _ t h
  rw [List.mem_singleton] at this
  rw [this]; exact hsp

theorem sp_TR (hsp : [0x20] ∈ V) (n : Int) : TR V (gRepeat [cxA.sp] n) (gRepeat [cxB.sp] n) :=
  ⟨(gRepeat_sp_flatten n).symm, sp_over hsp n⟩

/-- the recurring step "if `c`, replace line `pos` by a function of itself" followed by a
continuation (the `do` notation copies the continuation into both branches) -/
theorem RRel.modLine {C D : Type} {q : C → D → Prop} {bA : Block Int} {bB : Block (List Int)}
    (h : BR V bA bB) (c : Prop) [Decidable c] (pos : Int)
    {FA : List Int → List Int} {FB : List (List Int) → List (List Int)}
    (hF : ∀ a b, TR V a b → TR V (FA a) (FB b))
    {kA : Block Int → R C} {kB : Block (List Int) → R D}
    (hk : ∀ a b, BR V a b → b.lines.length = bB.lines.length → RRel q (kA a) (kB b)) :
    RRel q
      (if c then (bA.line pos >>= fun l => bA.set pos (FA l) >>= kA) else (Pure.pure bA >>= kA))
      (if c then (bB.line pos >>= fun l => bB.set pos (FB l) >>= kB) else (Pure.pure bB >>= kB)) := by
  refine RRel.ite _ ?_ (hk _ _ h rfl)
  refine RRel.bind (h.line pos) (fun a b hab => ?_)
  exact RRel.bind (h.set pos (hF a b hab)) (fun a' b' h' => hk a' b' h'.1 h'.2)

theorem alignParaLeft_bridge (hV : VocabStable V = true) (hsp : [0x20] ∈ V)
    {S : List (List Int)} (hS : GoodSep V S) (hSV : ∀ t ∈ S, t ∈ V) (width : Int)
    (para pre suf : List (List Int)) (hpara : ∀ t ∈ para, t ∈ V) (hpre : ∀ t ∈ pre, t ∈ V)
    (hsuf : ∀ t ∈ suf, t ∈ V) :
    RRel (TR V) (alignParaLeft cxA width S.flatten para.flatten pre.flatten suf.flatten)
      (alignParaLeft cxB width S para pre suf) := by
  unfold alignParaLeft
  dsimp only
  rw [gLen_over hV hpre, gLen_over hV hsuf]
  have hss := sp_TR hsp (gLen cxB pre)
  have hse := sp_TR hsp (gLen cxB suf)
  rw [hss.gLen hV, hse.gLen hV]
  have hbr : BR V (Block.new (para.flatten ++ gRepeat [cxA.sp] (gLen cxB suf)) S.flatten)
      (Block.new (para ++ gRepeat [cxB.sp] (gLen cxB suf)) S) := by
    have h := (TR.mk' hpara).append hse
    rw [h.1]
    exact ⟨blockNew_bridge hV hS _ h.2, blockNew_over hSV _ h.2⟩
  generalize Block.new (para.flatten ++ gRepeat [cxA.sp] (gLen cxB suf)) S.flatten = blA at hbr ⊢
  generalize Block.new (para ++ gRepeat [cxB.sp] (gLen cxB suf)) S = blB at hbr ⊢
  generalize gRepeat [cxA.sp] (gLen cxB pre) = ssA at hss ⊢
  generalize gRepeat [cxB.sp] (gLen cxB pre) = ssB at hss ⊢
  generalize gRepeat [cxB.sp] (gLen cxB suf) = seB at hse ⊢
  rw [hbr.lines_isEmpty, hbr.lines_length]
  refine RRel.ite _ (RRel.pure hbr.join) ?_
  refine RRel.bind (hbr.line 0) (fun a b hab => ?_)
  refine RRel.bind (hbr.set 0 (hab.append hss)) (fun bA1 bB1 h1 => ?_)
  refine RRel.bind (h1.1.mapLines _ _ (fun l hl =>
    ⟨alignLeft_bridge hV l hl width, alignLeft_B_over hsp l hl width⟩)) (fun bA2 bB2 h2 => ?_)
  refine RRel.modLine h2.1 _ 0 (fun a b hab => hab.gSub hV _ _) (fun bA3 bB3 h3 _ => ?_)
  refine RRel.modLine h3 _ _ (fun a b hab => hab.gSub hV _ _) (fun bA4 bB4 h4 _ => ?_)
  exact RRel.pure h4.join

theorem alignRight_B_over (hsp : [0x20] ∈ V) (toks : List (List Int)) (ht : ∀ t ∈ toks, t ∈ V)
    (w : Int) : ∀ t ∈ alignRight cxB toks w, t ∈ V := by
  rw [alignRight_triv cxB cxB_triv]
  exact over_of_mem_or_sp hsp ht (alignRight_mem_tokens _ w toks)

theorem alignParaRight_bridge (hV : VocabStable V = true) (hsp : [0x20] ∈ V)
    {S : List (List Int)} (hS : GoodSep V S) (hSV : ∀ t ∈ S, t ∈ V) (width : Int)
    (para pre suf : List (List Int)) (hpara : ∀ t ∈ para, t ∈ V) (hpre : ∀ t ∈ pre, t ∈ V)
    (hsuf : ∀ t ∈ suf, t ∈ V) :
    RRel (TR V) (alignParaRight cxA width S.flatten para.flatten pre.flatten suf.flatten)
      (alignParaRight cxB width S para pre suf) := by
  unfold alignParaRight
  dsimp only
  rw [gLen_over hV hpre, gLen_over hV hsuf]
  have hss := sp_TR hsp (gLen cxB pre)
  have hse := sp_TR hsp (gLen cxB suf)
  rw [hss.gLen hV, hse.gLen hV]
  have hbr : BR V (Block.new (gRepeat [cxA.sp] (gLen cxB pre) ++ para.flatten) S.flatten)
      (Block.new (gRepeat [cxB.sp] (gLen cxB pre) ++ para) S) := by
    have h := hss.append (TR.mk' hpara)
    rw [h.1]
    exact ⟨blockNew_bridge hV hS _ h.2, blockNew_over hSV _ h.2⟩
  generalize Block.new (gRepeat [cxA.sp] (gLen cxB pre) ++ para.flatten) S.flatten = blA at hbr ⊢
  generalize Block.new (gRepeat [cxB.sp] (gLen cxB pre) ++ para) S = blB at hbr ⊢
  generalize gRepeat [cxA.sp] (gLen cxB suf) = seA at hse ⊢
  generalize gRepeat [cxB.sp] (gLen cxB suf) = seB at hse ⊢
  generalize gRepeat [cxB.sp] (gLen cxB pre) = ssB at hss ⊢
  rw [hbr.lines_isEmpty, hbr.lines_length]
  refine RRel.ite _ (RRel.pure hbr.join) ?_
  refine RRel.bind (hbr.line _) (fun a b hab => ?_)
  refine RRel.bind (hbr.set _ (hse.append hab)) (fun bA1 bB1 h1 => ?_)
  refine RRel.bind (h1.1.mapLines _ _ (fun l hl =>
    ⟨alignRight_bridge hV l hl width, alignRight_B_over hsp l hl width⟩)) (fun bA2 bB2 h2 => ?_)
  have hF : ∀ (n : Int) (a : List Int) (b : List (List Int)), TR V a b →
      TR V (gSub cxA a n (gLen cxA a)) (gSub cxB b n (gLen cxB b)) := by
    intro n a b hab
    rw [hab.gLen hV]
    exact hab.gSub hV _ _
  refine RRel.modLine h2.1 _ 0 (hF _) (fun bA3 bB3 h3 _ => ?_)
  refine RRel.modLine h3 _ _ (hF _) (fun bA4 bB4 h4 _ => ?_)
  exact RRel.pure h4.join

theorem alignParaCenter_bridge (hV : VocabStable V = true) (hsp : [0x20] ∈ V)
    {S : List (List Int)} (hS : GoodSep V S) (hSV : ∀ t ∈ S, t ∈ V) (width : Int)
    (para pre suf : List (List Int)) (hpara : ∀ t ∈ para, t ∈ V) (hpre : ∀ t ∈ pre, t ∈ V)
    (hsuf : ∀ t ∈ suf, t ∈ V) :
    RRel (TR V) (alignParaCenter cxA width S.flatten para.flatten pre.flatten suf.flatten)
      (alignParaCenter cxB width S para pre suf) := by
  unfold alignParaCenter
  dsimp only
  rw [gLen_over hV hpre, gLen_over hV hsuf]
  have hss := sp_TR hsp (gLen cxB pre)
  have hse := sp_TR hsp (gLen cxB suf)
  rw [hss.gLen hV, hse.gLen hV]
  have hbr : BR V (Block.new para.flatten S.flatten) (Block.new para S) :=
    ⟨blockNew_bridge hV hS _ hpara, blockNew_over hSV _ hpara⟩
  generalize Block.new para.flatten S.flatten = blA at hbr ⊢
  generalize Block.new para S = blB at hbr ⊢
  generalize gRepeat [cxB.sp] (gLen cxB suf) = seB at hse ⊢
  generalize gRepeat [cxB.sp] (gLen cxB pre) = ssB at hss ⊢
  rw [hbr.lines_isEmpty]
  refine RRel.ite _ (RRel.pure hbr.join) ?_
  refine RRel.bind (hbr.mapLines _ _ (fun l hl =>
    ⟨alignCenter_bridge hV l hl width, alignCenter_B_over hsp l hl width⟩)) (fun bA2 bB2 h2 => ?_)
  refine RRel.modLine h2.1 _ 0 (FA := fun first =>
      if countLeadingWs cxA first ≥ (gLen cxB ssB : Int) then
        gSub cxA first (gLen cxB ssB) (gLen cxA first)
      else gSub cxA first (countLeadingWs cxA first) ((gLen cxA first : Int) -
        (if (gLen cxB ssB : Int) - countLeadingWs cxA first > countTrailingWs cxA first
          then countTrailingWs cxA first else (gLen cxB ssB : Int) - countLeadingWs cxA first)))
    (FB := fun first =>
      if countLeadingWs cxB first ≥ (gLen cxB ssB : Int) then
        gSub cxB first (gLen cxB ssB) (gLen cxB first)
      else gSub cxB first (countLeadingWs cxB first) ((gLen cxB first : Int) -
        (if (gLen cxB ssB : Int) - countLeadingWs cxB first > countTrailingWs cxB first
          then countTrailingWs cxB first else (gLen cxB ssB : Int) - countLeadingWs cxB first)))
    (fun a b hab => by
      rw [rel_countLeadingWs (hab.rel hV), rel_countTrailingWs (hab.rel hV), hab.gLen hV]
      split
      · exact hab.gSub hV _ _
      · exact hab.gSub hV _ _) (fun bA3 bB3 h3 _ => ?_)
  rw [h3.lines_length]
  refine RRel.modLine h3 _ _ (FA := fun last =>
      if countTrailingWs cxA last ≥ (gLen cxB seB : Int) then
        gSub cxA last 0 (-(gLen cxB seB : Int))
      else gSub cxA last
        (if (gLen cxB seB : Int) - countTrailingWs cxA last > countLeadingWs cxA last
          then countLeadingWs cxA last else (gLen cxB seB : Int) - countTrailingWs cxA last)
        ((gLen cxA last : Int) - countTrailingWs cxA last))
    (FB := fun last =>
      if countTrailingWs cxB last ≥ (gLen cxB seB : Int) then
        gSub cxB last 0 (-(gLen cxB seB : Int))
      else gSub cxB last
        (if (gLen cxB seB : Int) - countTrailingWs cxB last > countLeadingWs cxB last
          then countLeadingWs cxB last else (gLen cxB seB : Int) - countTrailingWs cxB last)
        ((gLen cxB last : Int) - countTrailingWs cxB last))
    (fun a b hab => by
      rw [rel_countLeadingWs (hab.rel hV), rel_countTrailingWs (hab.rel hV), hab.gLen hV]
      split
      · exact hab.gSub hV _ _
      · exact hab.gSub hV _ _) (fun bA4 bB4 h4 _ => ?_)
  exact RRel.pure h4.join

/-- the three paragraph callbacks of `AlignOpts` -/
theorem alignParaCb_bridge (hV : VocabStable V = true) (hsp : [0x20] ∈ V)
    {S : List (List Int)} (hS : GoodSep V S) (hSV : ∀ t ∈ S, t ∈ V) (align width : Int) (i : Nat)
    (para pre suf : List (List Int)) (hpara : ∀ t ∈ para, t ∈ V) (hpre : ∀ t ∈ pre, t ∈ V)
    (hsuf : ∀ t ∈ suf, t ∈ V) :
    alignParaCb cxA align width S.flatten i para.flatten pre.flatten suf.flatten =
      (alignParaCb cxB align width S i para pre suf).map (List.map List.flatten) := by
  refine RRel.eq_map ?_
  unfold alignParaCb
  dsimp only
  have hk : ∀ {x : R (List Int)} {y : R (List (List Int))}, RRel (TR V) x y →
      RRel (fun a b => a = List.map List.flatten b) (x >>= fun p => pure [p])
        (y >>= fun p => pure [p]) := fun h =>
    RRel.bind h (fun a b hab => RRel.pure (by rw [hab.1]; rfl))
  split
  · exact hk (alignParaLeft_bridge hV hsp hS hSV width para pre suf hpara hpre hsuf)
  · split
    · exact hk (alignParaRight_bridge hV hsp hS hSV width para pre suf hpara hpre hsuf)
    · exact hk (alignParaCenter_bridge hV hsp hS hSV width para pre suf hpara hpre hsuf)

/-- **7d.** `Editor.AlignOpts`, paragraph mode, every value of `align` -/
theorem alignOpts_bridge_para (hV : VocabStable V = true) (hsp : [0x20] ∈ V)
    (ed : Editor (List Int)) (ht : ∀ t ∈ ed.text, t ∈ V) (align width : Int)
    (o : Options (List Int)) (hpp : o.preservePara = true)
    (hG : GoodPara V (o.withDefaults cxB).lineSep (o.withDefaults cxB).paraSep) :
    Editor.alignOpts cxA ed.flat align width o.flat =
      (Editor.alignOpts cxB ed align width o).map Editor.flat := by
  by_cases hal : align = Gen.alignLeft ∨ align = Gen.alignRight ∨ align = Gen.alignCenter
  · rw [alignOpts_para cxA ed.flat align width o.flat hal hpp,
      alignOpts_para cxB ed align width o hal hpp, lineSep_flat_gen o hG.line.tok_ne]
    exact applyParasM_bridge hV ed ht o hG _ _
      (alignParaCb_bridge hV hsp hG.line hG.lineV align width)
  · have hal' : align = Gen.alignNone ∨
        (align ≠ Gen.alignLeft ∧ align ≠ Gen.alignRight ∧ align ≠ Gen.alignCenter) :=
      Or.inr ⟨fun h => hal (.inl h), fun h => hal (.inr (.inl h)), fun h => hal (.inr (.inr h))⟩
    rw [alignOpts_none cxA ed.flat align width o.flat hal', alignOpts_none cxB ed align width o hal']
    rfl

end vocab

/-! ## 9. a concrete instance -/

/-- `BridgeOps.demoVocab3` plus the placeholder letter "A" -/
def demoVocabA : List (List Int) := BridgeOps.demoVocab3 ++ [[0x41]]

theorem demoVocabA_stable : VocabStable demoVocabA = true := by decide +kernel

theorem demoVocabA_marker_nl : Marker demoVocabA [0x0A] :=
  ⟨0x0A, [], rfl, List.not_mem_nil, by decide⟩

/-- the default separators `"\n"` / `"\n\n"` -/
theorem demoVocabA_goodPara : GoodPara demoVocabA [[0x0A]] [[0x0A], [0x0A]] :=
  goodPara_markers demoVocabA_stable _ _ (by simp) (by simp)
    (by intro s hs; rw [List.mem_singleton] at hs; rw [hs]; exact demoVocabA_marker_nl)
    (by
      intro s hs
      simp only [List.mem_cons, List.not_mem_nil, or_false, or_self] at hs
      rw [hs]; exact demoVocabA_marker_nl)
    (by decide) (by decide)

theorem default_seps (o : Options (List Int)) (hl : o.lineSep = []) (hp : o.paraSep = []) :
    (o.withDefaults cxB).lineSep = [[0x0A]] ∧ (o.withDefaults cxB).paraSep = [[0x0A], [0x0A]] := by
  rw [(withDefaults_fields cxB o).1, (withDefaults_fields cxB o).2.2.1, hl, hp]
  exact ⟨dLineSep_B, dParaSep_B⟩

/-- paragraph mode with the default separators (for which the paragraph loop's look-ahead for a
line separator at the start of the next paragraph is active: `"\n\n" ++ "\n" = "\n" ++ "\n\n"`):
for every text over the vocabulary, every alignment value, width and indent level, all four
operations on code points are the flattening of the same operations on cluster tokens -/
example (toks : List (List Int)) (ht : ∀ t ∈ toks, t ∈ demoVocabA) (align width level : Int)
    (o0 o : Options (List Int)) (hpp : o.preservePara = true) (hl : o.lineSep = [])
    (hp : o.paraSep = []) (hi : ∀ t ∈ o.indentStr, t ≠ []) :
    Editor.alignOpts cxA (.root toks.flatten o0.flat) align width o.flat =
        (Editor.alignOpts cxB (.root toks o0) align width o).map Editor.flat ∧
    Editor.indentOpts cxA (.root toks.flatten o0.flat) level o.flat =
        (Editor.indentOpts cxB (.root toks o0) level o).map Editor.flat ∧
    Editor.justifyOpts cxA (.root toks.flatten o0.flat) width o.flat =
        (Editor.justifyOpts cxB (.root toks o0) width o).map Editor.flat ∧
    Editor.wrapOpts cxA (.root toks.flatten o0.flat) width o.flat =
        (Editor.wrapOpts cxB (.root toks o0) width o).map Editor.flat := by
  have hG : GoodPara demoVocabA (o.withDefaults cxB).lineSep (o.withDefaults cxB).paraSep := by
    rw [(default_seps o hl hp).1, (default_seps o hl hp).2]; exact demoVocabA_goodPara
  have hspT : ∀ t ∈ demoVocabA, (0x20 : Int) ∉ t.tail := spTail_of_spOnly (by decide)
  exact ⟨alignOpts_bridge_para demoVocabA_stable (by decide) (.root toks o0) ht align width o hpp hG,
    indentOpts_bridge_para demoVocabA_stable (.root toks o0) ht level o hpp hG hi,
    justifyOpts_bridge_para demoVocabA_stable (by decide) (by decide) hspT (.root toks o0) ht width o
      hpp hG (by rw [(default_seps o hl hp).1]; decide),
    wrapOpts_bridge_para demoVocabA_stable (by decide) (by decide) (by decide) hspT (.root toks o0)
      ht width o hpp hG (by rw [(default_seps o hl hp).1]; decide)⟩

/-- the look-ahead is really exercised: "a\n\n\nb" has the paragraphs "a\n" and "b" on both
levels -/
example : (paraCallsOf ([[0x61], [0x0A], [0x0A], [0x0A], [0x62]] : List (List Int))
      (({} : Options (List Int)).withDefaults cxB)).map (·.2.1) = [[[0x61], [0x0A]], [[0x62]]] ∧
    (paraCallsOf ([0x61, 0x0A, 0x0A, 0x0A, 0x62] : List Int)
      (({} : Options Int).withDefaults cxA)).map (·.2.1) = [[0x61, 0x0A], [0x62]] := by
  decide +kernel

end BridgeEditorParas
end RosedVerif
