/-
The A→B bridge for the composite operations: CombineColumnBlocks, Editor.Insert, two-column layout,
definitions table, table.  On a stable vocabulary `V` running the model on CODE POINTS (instance
`cxA`, real UAX #29 segmentation) gives exactly the flattening of running it on CLUSTER TOKENS
(instance `cxB`, one atom per cluster).
-/
import RosedVerif.Model.BridgeOps
import RosedVerif.Model.BridgeAlign
import RosedVerif.Model.CompositeLemmas
namespace RosedVerif
set_option linter.unusedSectionVars false
namespace BridgeComposite
open BridgeWrap BridgeOps

/-! ## 0. generic helpers -/

theorem mapM_map_bridge {β γ δ : Type} (f : β → R γ) (g : β → R δ) (h : δ → γ) :
    ∀ (l : List β), (∀ x ∈ l, f x = (g x).map h) → l.mapM f = (l.mapM g).map (List.map h)
  | [], _ => by simp only [List.mapM_nil]; rfl
  | x :: l, hx => by
    have h1 := hx x List.mem_cons_self
    have h2 := mapM_map_bridge f g h l (fun y hy => hx y (List.mem_cons_of_mem _ hy))
    simp only [List.mapM_cons, h1, h2]
    cases g x with
    | error e => rfl
    | ok a =>
      cases l.mapM g with
      | error e => rfl
      | ok as => rfl

theorem getD_map_flatten {β : Type} (ls : List (List (List β))) (i : Nat) :
    (ls.map List.flatten).getD i [] = (ls.getD i []).flatten := by
  rw [List.getD_eq_getElem?_getD, List.getD_eq_getElem?_getD, List.getElem?_map]
  cases ls[i]? <;> rfl

theorem repeatStr_sp_bridge (n : Int) :
    repeatStr [cxA.sp] n = (repeatStr [cxB.sp] n).map List.flatten := by
  unfold repeatStr
  split
  · rfl
  · show Except.ok _ = Except.ok _
    congr 1
    rw [List.flatten_replicate_singleton, List.flatten_replicate_singleton]
    exact (replicate_singleton_flatten (0x20 : Int) n.toNat).symm

theorem gLen_A_flatten {l : List (List Int)} (h : StableRunes l) :
    gLen cxA l.flatten = gLen cxB l := by
  rw [gLen_flatten_stable l h, gLen_triv cxB cxB_triv]

theorem foldl_maxLen_bridge : ∀ (ls : List (List (List Int))), (∀ l ∈ ls, StableRunes l) →
    ∀ (m0 : Int),
    (ls.map List.flatten).foldl
        (fun (m : Int) l => if (gLen cxA l : Int) > m then (gLen cxA l : Int) else m) m0 =
      ls.foldl (fun (m : Int) l => if (gLen cxB l : Int) > m then (gLen cxB l : Int) else m) m0
  | [], _, _ => rfl
  | l :: ls, h, m0 => by
    simp only [List.map_cons, List.foldl_cons, gLen_A_flatten (h l List.mem_cons_self)]
    exact foldl_maxLen_bridge ls (fun x hx => h x (List.mem_cons_of_mem _ hx)) _

/-! ## 1. CombineColumnBlocks -/

/-- only the LEFT lines have to segment into their tokens (their cluster counts are used); the
right lines are arbitrary token lists -/
theorem combineColumns_bridge_stable (left right : List (List (List Int)))
    (hl : ∀ l ∈ left, StableRunes l) (gap : Int) :
    combineColumns cxA (left.map List.flatten) (right.map List.flatten) gap =
      (combineColumns cxB left right gap).map (List.map List.flatten) := by
  unfold combineColumns
  simp only [List.isEmpty_map, List.length_map, foldl_maxLen_bridge left hl]
  split
  · rfl
  · apply mapM_map_bridge
    intro i _
    simp only [getD_map_flatten]
    have e : (if i < left.length then (gLen cxA (left.getD i []).flatten : Int) else 0) =
        (if i < left.length then (gLen cxB (left.getD i []) : Int) else 0) := by
      split
      · rename_i hi
        rw [gLen_A_flatten]
        rw [List.getD_eq_getElem?_getD, List.getElem?_eq_getElem hi, Option.getD_some]
        exact hl _ (List.getElem_mem hi)
      · rfl
    rw [e, repeatStr_sp_bridge]
    cases repeatStr [cxB.sp] _ with
    | error e => rfl
    | ok s =>
      show Except.ok _ = Except.ok _
      simp only [List.flatten_append]

/-! ## 2. Editor.Insert

`Editor.Insert` goes through `Chars`, i.e. through BYTE offsets.  In a well-formed context (every
atom has a positive byte length) it is `Spec.insert` (C09, `Editor.insert_eq_spec`).  `cxA` is
well-formed; `cxB` is not (the ill-formed empty token has byte length 0), but on a text without
empty tokens it behaves like the well-formed context `cxB1` below. -/

section congr
variable {α : Type} [DecidableEq α] (c1 c2 : Ctx α)

theorem byteLen_congr : ∀ (s : List α), (∀ a ∈ s, c1.blen a = c2.blen a) →
    byteLen c1 s = byteLen c2 s
  | [], _ => rfl
  | a :: t, h => by
    rw [byteLen_cons, byteLen_cons, h a List.mem_cons_self,
      byteLen_congr t (fun x hx => h x (List.mem_cons_of_mem _ hx))]

theorem atomsForBytes_congr : ∀ (s : List α) (n : Nat), (∀ a ∈ s, c1.blen a = c2.blen a) →
    atomsForBytes c1 s n = atomsForBytes c2 s n
  | s, 0, _ => by rw [atomsForBytes_zero, atomsForBytes_zero]
  | [], _ + 1, _ => rfl
  | c :: t, n + 1, h => by
    rw [atomsForBytes, atomsForBytes, h c List.mem_cons_self,
      atomsForBytes_congr t _ (fun x hx => h x (List.mem_cons_of_mem _ hx))]

theorem byteSlice_congr (s : List α) (h : ∀ a ∈ s, c1.blen a = c2.blen a) (a b : Int) :
    byteSlice c1 s a b = byteSlice c2 s a b := by
  unfold byteSlice
  rw [byteLen_congr c1 c2 s h, atomsForBytes_congr c1 c2 s _ h, atomsForBytes_congr c1 c2 s _ h]

theorem byteOff_congr (s : List α) (h : ∀ a ∈ s, c1.blen a = c2.blen a) (k : Nat) :
    byteOff c1 s k = byteOff c2 s k :=
  byteLen_congr c1 c2 _ (fun a ha => h a (List.mem_of_mem_take ha))

theorem subEd_congr (ed : Editor α) (h : ∀ a ∈ ed.text, c1.blen a = c2.blen a) (a b : Int) :
    ed.subEd c1 a b = ed.subEd c2 a b := by
  unfold Editor.subEd
  rw [byteSlice_congr c1 c2 _ h]

/-- `Chars` only depends on the segmentation of the text and on the byte lengths of its atoms -/
theorem chars_congr (ed : Editor α) (he : c1.ends ed.text = c2.ends ed.text)
    (h : ∀ a ∈ ed.text, c1.blen a = c2.blen a) (s e : Int) :
    ed.chars c1 s e = ed.chars c2 s e := by
  unfold Editor.chars
  simp only [he, byteLen_congr c1 c2 _ h, byteOff_congr c1 c2 _ h, subEd_congr c1 c2 ed h]

theorem insert_congr (ed : Editor α) (he : c1.ends ed.text = c2.ends ed.text)
    (h : ∀ a ∈ ed.text, c1.blen a = c2.blen a) (p : Int) (x : List α) :
    ed.insert c1 p x = ed.insert c2 p x := by
  unfold Editor.insert Editor.charsTo Editor.charsFrom
  rw [chars_congr c1 c2 ed he h, chars_congr c1 c2 ed he h, byteLen_congr c1 c2 _ h]

end congr

/-- `cxB` with the byte length of the (ill-formed) empty token set to 1 -/
def cxB1 : Ctx (List Int) := { cxB with blen := fun c => if c = [] then 1 else cxB.blen c }

theorem cxB_blen_eq (c : List Int) : cxB.blen c = byteLen cxA c := rfl

theorem cxB1_WF : cxB1.WF := by
  refine ⟨fun s => part_range' s.length, fun c => ?_⟩
  show 0 < (if c = [] then 1 else cxB.blen c)
  split
  · exact Nat.one_pos
  · rename_i hc
    rw [cxB_blen_eq]
    have := length_le_byteLen (cx := cxA) utf8Len_pos c
    have := List.length_pos_iff.2 hc
    omega

theorem cxB1_triv : ∀ s : List (List Int), cxB1.ends s = List.range' 1 s.length := fun _ => rfl

theorem insert_B_eq_B1 (ed : Editor (List Int)) (hne : ∀ t ∈ ed.text, t ≠ []) (p : Int)
    (x : List (List Int)) : ed.insert cxB p x = ed.insert cxB1 p x := by
  refine insert_congr cxB cxB1 ed rfl ?_ p x
  intro a ha
  show cxB.blen a = (if a = [] then 1 else cxB.blen a)
  rw [if_neg (hne a ha)]

theorem flatten_map_single {β : Type} (l : List β) : (l.map fun c => [c]).flatten = l := by
  induction l with
  | nil => rfl
  | cons a t ih => simp only [List.map_cons, List.flatten_cons, ih, List.singleton_append]

/-- `Editor.Insert` on cluster tokens in closed form (text without empty tokens) -/
theorem insert_B_closed (ed : Editor (List Int)) (hne : ∀ t ∈ ed.text, t ≠ []) (p : Int)
    (x : List (List Int)) :
    ed.insert cxB p x =
      .ok (ed.withText (ed.text.take (Spec.normPos ed.text.length p).toNat ++ x ++
        ed.text.drop (Spec.normPos ed.text.length p).toNat)) := by
  rw [insert_B_eq_B1 ed hne, Editor.insert_eq_spec cxB1_WF, Spec.insert_eq]
  unfold Spec.posNat
  rw [WrapRefine.clusters_triv cxB1 cxB1_triv, List.length_map, ← List.map_take, ← List.map_drop,
    flatten_map_single, flatten_map_single]

/-- `Editor.Insert` on code points in closed form, for a text that is the flattening of a stable
token list -/
theorem insert_A_closed (ed : Editor (List Int)) (hst : StableRunes ed.text) (p : Int)
    (x : List Int) :
    ed.flat.insert cxA p x =
      .ok (ed.flat.withText ((ed.text.take (Spec.normPos ed.text.length p).toNat).flatten ++ x ++
        (ed.text.drop (Spec.normPos ed.text.length p).toNat).flatten)) := by
  rw [Editor.insert_eq_spec cxA_WF, Spec.insert_eq]
  unfold Spec.posNat
  rw [flat_text, clusters_flatten_stable _ hst]

/-- **2 (any editor).** `Editor.Insert` on code points = flattening of `Editor.Insert` on cluster
tokens; the inserted text is an ARBITRARY token list (it need not be over the vocabulary). -/
theorem insert_bridge_stable (ed : Editor (List Int)) (hst : StableRunes ed.text) (p : Int)
    (ins : List (List Int)) :
    ed.flat.insert cxA p ins.flatten = (ed.insert cxB p ins).map Editor.flat := by
  rw [insert_A_closed ed hst, insert_B_closed ed hst.ne_nil]
  show _ = Except.ok _
  rw [flat_withText]
  simp only [List.flatten_append]

/-! ## 3. InsertTwoColumnsOpts -/

/-- the defaulted paragraph separator on the rune side is the flattening of the one on the token
side -/
theorem paraSep_flat_gen (o' : Options (List Int))
    (hne : ∀ t ∈ (o'.withDefaults cxB).paraSep, t ≠ []) :
    (o'.flat.withDefaults cxA).paraSep = (o'.withDefaults cxB).paraSep.flatten := by
  rw [(withDefaults_fields cxB o').2.2.1] at hne ⊢
  rw [(withDefaults_fields cxA o'.flat).2.2.1]
  show (if o'.paraSep.flatten.isEmpty then cxA.dParaSep else o'.paraSep.flatten) = _
  by_cases he : o'.paraSep.isEmpty = true
  · have h0 : o'.paraSep = [] := List.isEmpty_iff.1 he
    rw [h0, ← dParaSep_flat]
    rfl
  · rw [if_neg he] at hne ⊢
    rw [BridgeWrap.flatten_isEmpty _ hne, if_neg he]

theorem noTrailing_flat (o : Options (List Int)) :
    (o.flat.withDefaults cxA).noTrailing = (o.withDefaults cxB).noTrailing := by
  rw [(withDefaults_fields cxA _).2.2.2.1, (withDefaults_fields cxB _).2.2.2.1]; rfl

/-- `tb.Block.Join` commutes with flattening (any trailing mode) -/
theorem join_flatten_b (S : List (List Int)) (ls : List (List (List Int))) (b : Bool) :
    (Block.mk (ls.map List.flatten) S.flatten b).join = (Block.mk ls S b).join.flatten := by
  unfold Block.join
  cases ls with
  | nil => cases b <;> rfl
  | cons l ls =>
    simp only [List.map_cons, List.isEmpty_cons, Bool.false_eq_true, ↓reduceIte,
      List.flatten_append]
    rw [← List.map_cons, joinWith_flatten S (l :: ls)]
    cases b <;> rfl

/-- the lines produced by Wrap on cluster tokens stay inside the vocabulary -/
theorem wrapLines_B_over {V : List (List Int)} (hsp : [0x20] ∈ V) (hhy : [0x2D] ∈ V)
    (toks : List (List Int)) (ht : ∀ t ∈ toks, t ∈ V) (w : Int) (S : List (List Int))
    (r : List (List (List Int))) (h : wrapLines cxB toks w S = .ok r) :
    ∀ line ∈ r, ∀ c ∈ line, c ∈ V := by
  rw [wrapLines_triv cxB cxB_triv cxB_sp_space] at h
  cases h
  exact wrapLines_spec_over hsp hhy _ _ (replaceAll'_over hsp toks ht S)

/-- the column widths of InsertTwoColumnsOpts (pure integer / float arithmetic) -/
def twoColW (msb width : Int) (pct : Pct) : Int × Int :=
  let (num, exp) :=
    if pct.neg ∨ pct.num == 0 then (0, 0)
    else if pct.num > 2 ^ pct.exp then (1, 0) else (pct.num, pct.exp)
  let msb := if msb < 0 then 0 else msb
  let minWidth := msb + 2 + 2
  let width := if width < minWidth then minWidth else width
  let avail := width - msb
  let leftW : Int := mulRoundTrunc avail.toNat num exp
  let leftW := if leftW < 2 then 2 else leftW
  let leftW := if leftW > avail - 2 then avail - 2 else leftW
  (leftW, avail - leftW)

theorem insertTwoColumnsOpts_unfold {α : Type} [DecidableEq α] (cx : Ctx α) (ed : Editor α)
    (pos : Int) (l r : List α) (msb width : Int) (pct : Pct) (o : Options α) :
    ed.insertTwoColumnsOpts cx pos l r msb width pct o =
      if l.isEmpty ∧ r.isEmpty then pure ed
      else if (twoColW msb width pct).2 < 2 then throw .explicit
      else twoColBody cx ed pos l r (if msb < 0 then 0 else msb) (twoColW msb width pct).1
        (twoColW msb width pct).2 o :=
  rfl

section vocab
variable {V : List (List Int)}

theorem twoColBody_bridge (hV : VocabStable V = true) (hsp : [0x20] ∈ V) (hhy : [0x2D] ∈ V)
    (hspTail : ∀ t ∈ V, (0x20 : Int) ∉ t.tail)
    (ed : Editor (List Int)) (ht : ∀ t ∈ ed.text, t ∈ V) (pos : Int)
    (l r : List (List Int)) (hl : ∀ t ∈ l, t ∈ V) (hr : ∀ t ∈ r, t ∈ V) (msb lw rw : Int)
    (o : Options (List Int)) (hS : GoodSep V (o.withDefaults cxB).lineSep) :
    twoColBody cxA ed.flat pos l.flatten r.flatten msb lw rw o.flat =
      (twoColBody cxB ed pos l r msb lw rw o).map Editor.flat := by
  unfold twoColBody
  simp only [lineSep_flat_gen o hS.tok_ne, noTrailing_flat,
    wrapLines_bridge_good hV hsp hspTail hS l hl, wrapLines_bridge_good hV hsp hspTail hS r hr]
  cases hlb : wrapLines cxB l lw (o.withDefaults cxB).lineSep with
  | error e => rfl
  | ok lb =>
    cases hrb : wrapLines cxB r rw (o.withDefaults cxB).lineSep with
    | error e => rfl
    | ok rb =>
      have hst : ∀ line ∈ lb, StableRunes line := fun line hline =>
        stableRunes_of_vocab V hV line (wrapLines_B_over hsp hhy l hl lw _ lb hlb line hline)
      simp only [Except.map, bind, Except.bind, foldl_maxLen_bridge lb hst,
        combineColumns_bridge_stable lb rb hst]
      cases combineColumns cxB lb rb _ with
      | error e => rfl
      | ok comb =>
        simp only [join_flatten_b]
        exact insert_bridge_stable ed (stableRunes_of_vocab V hV _ ht) pos _

/-- **3 (any editor whose text is over `V`).** -/
theorem insertTwoColumnsOpts_bridge_gen (hV : VocabStable V = true) (hsp : [0x20] ∈ V)
    (hhy : [0x2D] ∈ V) (hspTail : ∀ t ∈ V, (0x20 : Int) ∉ t.tail)
    (ed : Editor (List Int)) (ht : ∀ t ∈ ed.text, t ∈ V) (pos : Int)
    (l r : List (List Int)) (hl : ∀ t ∈ l, t ∈ V) (hr : ∀ t ∈ r, t ∈ V) (gap width : Int)
    (pct : Pct) (o : Options (List Int)) (hS : GoodSep V (o.withDefaults cxB).lineSep) :
    Editor.insertTwoColumnsOpts cxA ed.flat pos l.flatten r.flatten gap width pct o.flat =
      (Editor.insertTwoColumnsOpts cxB ed pos l r gap width pct o).map Editor.flat := by
  rw [insertTwoColumnsOpts_unfold, insertTwoColumnsOpts_unfold,
    flatten_isEmpty l (over_ne_nil hV hl), flatten_isEmpty r (over_ne_nil hV hr)]
  split
  · rfl
  · split
    · rfl
    · exact twoColBody_bridge hV hsp hhy hspTail ed ht pos l r hl hr _ _ _ o hS

end vocab

/-! ## 4. InsertDefinitionsTableOpts -/

section defs
variable {α : Type} [DecidableEq α] (cx : Ctx α)

/-- the longest term, as the model computes it -/
def defLongest (defs : List (List α × List α)) : Int :=
  defs.foldl (fun m d => if (gLen cx d.1 : Int) > m then (gLen cx d.1 : Int) else m) (-1)

/-- one iteration of the loop of InsertDefinitionsTableOpts, after the padding of the term has
been computed -/
def defStepK (rightWidth : Int) (lineSep paraSep : List α)
    (full : List (List α)) (item : List α × List α) (pad : List α) : R (List (List α)) := do
  let leftCol := [[cx.sp, cx.sp] ++ item.1 ++ pad]
  let rc ← wrapLines cx item.2 (rightWidth - 2) lineSep
  let rc := if rc.isEmpty then [[]] else rc
  let rightCol := (List.range rc.length).map fun i =>
    (if i == 0 then [cx.hy, cx.sp] else [cx.sp, cx.sp]) ++ rc.getD i []
  let combined ← combineColumns cx leftCol rightCol 2
  match full.isEmpty, combined with
  | false, c0 :: crest =>
    let lastIdx := full.length - 1
    let lastLine := full.getD lastIdx [] ++ paraSep ++ c0
    pure (full.set lastIdx lastLine ++ crest)
  | _, _ => pure (full ++ combined)

/-- one iteration of the loop of InsertDefinitionsTableOpts -/
def defStep (longest rightWidth : Int) (lineSep paraSep : List α)
    (full : List (List α)) (item : List α × List α) : R (List (List α)) :=
  if (gLen cx item.1 : Int) < longest then
    repeatStr [cx.sp] (longest - (gLen cx item.1 : Int)) >>=
      defStepK cx rightWidth lineSep paraSep full item
  else defStepK cx rightWidth lineSep paraSep full item []

theorem insertDefTableOpts_unfold (ed : Editor α) (pos : Int) (defs : List (List α × List α))
    (width : Int) (o : Options α) :
    ed.insertDefTableOpts cx pos defs width o =
      (defs.foldlM (defStep cx (defLongest cx defs) (width - (defLongest cx defs + 2) - 2)
          (o.withDefaults cx).lineSep (o.withDefaults cx).paraSep) [] >>= fun full =>
        if !full.isEmpty then
          ed.insert cx pos
            (Block.mk full (o.withDefaults cx).lineSep (!(o.withDefaults cx).noTrailing)).join
        else pure ed) := by
  rw [Editor.insertDefTableOpts_eq_core]; rfl

end defs

theorem foldlM_bridge {β γ σ τ : Type} (φ : τ → σ) (ψ : γ → β) (f : σ → β → R σ)
    (g : τ → γ → R τ) :
    ∀ (l : List γ), (∀ t, ∀ x ∈ l, f (φ t) (ψ x) = (g t x).map φ) →
      ∀ t, (l.map ψ).foldlM f (φ t) = (l.foldlM g t).map φ
  | [], _, _ => rfl
  | x :: l, h, t => by
    rw [List.map_cons, List.foldlM_cons, List.foldlM_cons, h t x List.mem_cons_self]
    cases g t x with
    | error e => rfl
    | ok t' => exact foldlM_bridge φ ψ f g l (fun t y hy => h t y (List.mem_cons_of_mem _ hy)) t'

theorem repeatStr_sp_B_mem (n : Int) (pad : List (List Int))
    (h : repeatStr [cxB.sp] n = .ok pad) : ∀ t ∈ pad, t = [0x20] := by
  by_cases hn : 0 ≤ n
  · rw [repeatStr_single _ _ hn] at h
    cases h
    intro t ht
    exact List.eq_of_mem_replicate ht
  · unfold repeatStr at h
    rw [if_pos (by omega)] at h
    cases h

theorem map_set_flatten {β : Type} (l : List (List (List β))) (i : Nat) (a : List (List β)) :
    (l.set i a).map List.flatten = (l.map List.flatten).set i a.flatten := List.map_set

section vocab
variable {V : List (List Int)}

theorem defLongest_bridge (hV : VocabStable V = true) (defs : List (List (List Int) × List (List Int)))
    (hd : ∀ d ∈ defs, ∀ t ∈ d.1, t ∈ V) :
    defLongest cxA (defs.map fun d => (d.1.flatten, d.2.flatten)) = defLongest cxB defs := by
  unfold defLongest
  generalize (-1 : Int) = m0
  induction defs generalizing m0 with
  | nil => rfl
  | cons d rest ih =>
    simp only [List.map_cons, List.foldl_cons,
      gLen_A_flatten (stableRunes_of_vocab V hV d.1 (hd d List.mem_cons_self))]
    exact ih (fun x hx => hd x (List.mem_cons_of_mem _ hx)) _

theorem defStepK_bridge (hV : VocabStable V = true) (hsp : [0x20] ∈ V)
    (hspTail : ∀ t ∈ V, (0x20 : Int) ∉ t.tail) (RW : Int) (S P : List (List Int))
    (hS : GoodSep V S) (full : List (List (List Int))) (item : List (List Int) × List (List Int))
    (h1 : ∀ t ∈ item.1, t ∈ V) (h2 : ∀ t ∈ item.2, t ∈ V) (pad : List (List Int))
    (hpadV : ∀ t ∈ pad, t ∈ V) :
    defStepK cxA RW S.flatten P.flatten (full.map List.flatten) (item.1.flatten, item.2.flatten)
        pad.flatten =
      (defStepK cxB RW S P full item pad).map (List.map List.flatten) := by
  unfold defStepK
  simp only [wrapLines_bridge_good hV hsp hspTail hS item.2 h2]
  cases wrapLines cxB item.2 (RW - 2) S with
  | error e => rfl
  | ok rc =>
    simp only [Except.map, bind, Except.bind]
    have hrc : (if (rc.map List.flatten).isEmpty then ([[]] : List (List Int))
        else rc.map List.flatten) = (if rc.isEmpty then [[]] else rc).map List.flatten := by
      rw [List.isEmpty_map]
      split <;> rfl
    rw [hrc]
    generalize (if rc.isEmpty then ([[]] : List (List (List Int))) else rc) = rc'
    have hright : ((List.range (rc'.map List.flatten).length).map fun i =>
          (if i == 0 then [cxA.hy, cxA.sp] else [cxA.sp, cxA.sp]) ++
            (rc'.map List.flatten).getD i []) =
        ((List.range rc'.length).map fun i =>
          (if i == 0 then [cxB.hy, cxB.sp] else [cxB.sp, cxB.sp]) ++ rc'.getD i []).map
            List.flatten := by
      rw [List.length_map, List.map_map]
      apply List.map_congr_left
      intro i _
      simp only [Function.comp, getD_map_flatten, List.flatten_append]
      split <;> rfl
    have hleft : [[cxA.sp, cxA.sp] ++ item.1.flatten ++ pad.flatten] =
        [[cxB.sp, cxB.sp] ++ item.1 ++ pad].map List.flatten := by
      simp only [List.map_cons, List.map_nil, List.flatten_append]
      rfl
    have hst : ∀ l ∈ [[cxB.sp, cxB.sp] ++ item.1 ++ pad], StableRunes l := by
      intro l hl
      rw [List.mem_singleton] at hl
      subst hl
      refine stableRunes_of_vocab V hV _ ?_
      refine over_append (over_append ?_ h1) hpadV
      intro t ht
      simp only [List.mem_cons, List.not_mem_nil, or_false, or_self] at ht
      rw [ht]; exact hsp
    rw [hright, hleft, combineColumns_bridge_stable _ _ hst]
    cases combineColumns cxB [[cxB.sp, cxB.sp] ++ item.1 ++ pad] _ 2 with
    | error e => rfl
    | ok comb =>
      cases full with
      | nil => cases comb <;> rfl
      | cons f fs =>
        cases comb with
        | nil =>
          show Except.ok _ = Except.ok _
          simp only [List.append_nil, List.map_nil]
        | cons c0 crest =>
          show Except.ok _ = Except.ok _
          simp only [List.length_cons, List.length_map, getD_map_flatten, List.map_append,
            map_set_flatten, List.flatten_append]

theorem defStep_bridge (hV : VocabStable V = true) (hsp : [0x20] ∈ V)
    (hspTail : ∀ t ∈ V, (0x20 : Int) ∉ t.tail) (L RW : Int) (S P : List (List Int))
    (hS : GoodSep V S) (full : List (List (List Int))) (item : List (List Int) × List (List Int))
    (h1 : ∀ t ∈ item.1, t ∈ V) (h2 : ∀ t ∈ item.2, t ∈ V) :
    defStep cxA L RW S.flatten P.flatten (full.map List.flatten) (item.1.flatten, item.2.flatten) =
      (defStep cxB L RW S P full item).map (List.map List.flatten) := by
  unfold defStep
  simp only [gLen_A_flatten (stableRunes_of_vocab V hV item.1 h1)]
  split
  · rw [repeatStr_sp_bridge]
    cases hp : repeatStr [cxB.sp] (L - (gLen cxB item.1 : Int)) with
    | error e => rfl
    | ok pad =>
      refine defStepK_bridge hV hsp hspTail RW S P hS full item h1 h2 pad ?_
      intro t ht
      rw [repeatStr_sp_B_mem _ pad hp t ht]; exact hsp
  · exact defStepK_bridge hV hsp hspTail RW S P hS full item h1 h2 [] over_nil

/-- **4 (any editor whose text is over `V`).** -/
theorem insertDefTableOpts_bridge_gen (hV : VocabStable V = true) (hsp : [0x20] ∈ V)
    (hspTail : ∀ t ∈ V, (0x20 : Int) ∉ t.tail)
    (ed : Editor (List Int)) (ht : ∀ t ∈ ed.text, t ∈ V) (pos : Int)
    (defs : List (List (List Int) × List (List Int)))
    (hd1 : ∀ d ∈ defs, ∀ t ∈ d.1, t ∈ V) (hd2 : ∀ d ∈ defs, ∀ t ∈ d.2, t ∈ V) (width : Int)
    (o : Options (List Int)) (hS : GoodSep V (o.withDefaults cxB).lineSep)
    (hP : ∀ t ∈ (o.withDefaults cxB).paraSep, t ≠ []) :
    Editor.insertDefTableOpts cxA ed.flat pos (defs.map fun d => (d.1.flatten, d.2.flatten)) width
        o.flat =
      (Editor.insertDefTableOpts cxB ed pos defs width o).map Editor.flat := by
  rw [insertDefTableOpts_unfold, insertDefTableOpts_unfold, defLongest_bridge hV defs hd1,
    lineSep_flat_gen o hS.tok_ne, paraSep_flat_gen o hP, noTrailing_flat]
  have hfold := foldlM_bridge (List.map List.flatten)
    (fun d : List (List Int) × List (List Int) => (d.1.flatten, d.2.flatten))
    (defStep cxA (defLongest cxB defs) (width - (defLongest cxB defs + 2) - 2)
      (o.withDefaults cxB).lineSep.flatten (o.withDefaults cxB).paraSep.flatten)
    (defStep cxB (defLongest cxB defs) (width - (defLongest cxB defs + 2) - 2)
      (o.withDefaults cxB).lineSep (o.withDefaults cxB).paraSep) defs
    (fun t x hx => defStep_bridge hV hsp hspTail _ _ _ _ hS t x (hd1 x hx) (hd2 x hx)) []
  rw [List.map_nil] at hfold
  rw [hfold]
  cases defs.foldlM (defStep cxB (defLongest cxB defs) (width - (defLongest cxB defs + 2) - 2)
      (o.withDefaults cxB).lineSep (o.withDefaults cxB).paraSep) [] with
  | error e => rfl
  | ok full =>
    simp only [Except.map, bind, Except.bind, List.isEmpty_map, join_flatten_b]
    split
    · exact insert_bridge_stable ed (stableRunes_of_vocab V hV _ ht) pos _
    · rfl

end vocab

/-! ## 5. InsertTableOpts -/

open BridgeAlign in
/-- the three table characters on the two levels: same text, segmented the same way -/
structure RelChars (a : TableChars Int) (b : TableChars (List Int)) : Prop where
  corner : BridgeAlign.Rel a.corner b.corner
  vert : BridgeAlign.Rel a.vert b.vert
  horz : BridgeAlign.Rel a.horz b.horz

theorem stableRunes_nil : StableRunes [] := by
  unfold StableRunes
  rw [List.map_nil, stableSeq_iff_R]
  trivial

theorem getD_stable {ls : List (List (List Int))} (h : ∀ l ∈ ls, StableRunes l) (i : Nat) :
    StableRunes (ls.getD i []) := by
  by_cases hi : i < ls.length
  · rw [List.getD_eq_getElem?_getD, List.getElem?_eq_getElem hi, Option.getD_some]
    exact h _ (List.getElem_mem hi)
  · rw [List.getD_eq_getElem?_getD, List.getElem?_eq_none (by omega), Option.getD_none]
    exact stableRunes_nil

theorem getD_mem_or_nil {β : Type} (ls : List (List β)) (i : Nat) :
    ls.getD i [] ∈ ls ∨ ls.getD i [] = [] := by
  by_cases hi : i < ls.length
  · rw [List.getD_eq_getElem?_getD, List.getElem?_eq_getElem hi, Option.getD_some]
    exact Or.inl (List.getElem_mem hi)
  · rw [List.getD_eq_getElem?_getD, List.getElem?_eq_none (by omega), Option.getD_none]
    exact Or.inr rfl

theorem foldl_append_flatten {ι β : Type} (fA : ι → List β) (fB : ι → List (List β)) :
    ∀ (l : List ι), (∀ i ∈ l, fA i = (fB i).flatten) → ∀ (sA : List β) (sB : List (List β)),
      sA = sB.flatten →
      l.foldl (fun line i => line ++ fA i) sA = (l.foldl (fun line i => line ++ fB i) sB).flatten
  | [], _, _, _, hs => hs
  | i :: l, h, sA, sB, hs => by
    rw [List.foldl_cons, List.foldl_cons]
    refine foldl_append_flatten fA fB l (fun j hj => h j (List.mem_cons_of_mem _ hj)) _ _ ?_
    rw [List.flatten_append, hs, h i List.mem_cons_self]

theorem foldl_congr_mem {β σ : Type} (f g : σ → β → σ) :
    ∀ (l : List β), (∀ s, ∀ x ∈ l, f s x = g s x) → ∀ s0, l.foldl f s0 = l.foldl g s0
  | [], _, _ => rfl
  | x :: l, h, s0 => by
    rw [List.foldl_cons, List.foldl_cons, h s0 x List.mem_cons_self]
    exact foldl_congr_mem f g l (fun s y hy => h s y (List.mem_cons_of_mem _ hy)) _

/-- `gem.RepeatStr` commutes with flattening -/
theorem gRepeat_flatten {β : Type} (s : List (List β)) (n : Int) :
    (gRepeat s n).flatten = gRepeat s.flatten n := by
  unfold gRepeat
  generalize n.toNat = k
  induction k with
  | zero => rfl
  | succ k ih =>
    rw [List.replicate_succ, List.replicate_succ, List.flatten_cons, List.flatten_cons,
      List.flatten_append, ih]

theorem map_upper_flatten (c : List (List Int)) :
    c.flatten.map cxA.upper = (c.map cxB.upper).flatten := by
  rw [List.map_flatten]
  rfl

theorem parseTableCharSet_of_ge {α : Type} [DecidableEq α] (cx : Ctx α) (cs : List α)
    (h : 3 ≤ gLen cx cs) :
    parseTableCharSet cx cs =
      ⟨gSub cx (if (gLen cx cs : Int) > 3 then gSub cx cs 0 3 else cs) 0 1,
       gSub cx (if (gLen cx cs : Int) > 3 then gSub cx cs 0 3 else cs) 1 2,
       gSub cx (if (gLen cx cs : Int) > 3 then gSub cx cs 0 3 else cs) 2 3⟩ := by
  unfold parseTableCharSet
  simp only []
  rw [if_neg (by omega)]

/-- `manip.parseTableCharSet` for a character set of at least three clusters -/
theorem parseTableCharSet_bridge (cs : List (List Int)) (hst : StableRunes cs)
    (h3 : 3 ≤ cs.length) :
    RelChars (parseTableCharSet cxA cs.flatten) (parseTableCharSet cxB cs) := by
  have hrel : BridgeAlign.Rel cs.flatten cs := ⟨hst, rfl⟩
  have hlenB : gLen cxB cs = cs.length := gLen_triv cxB cxB_triv cs
  have hlenA : gLen cxA cs.flatten = cs.length := gLen_flatten_stable cs hst
  rw [parseTableCharSet_of_ge cxA _ (by omega), parseTableCharSet_of_ge cxB _ (by omega),
    hlenA, hlenB]
  have hcs : BridgeAlign.Rel
      (if (cs.length : Int) > 3 then gSub cxA cs.flatten 0 3 else cs.flatten)
      (if (cs.length : Int) > 3 then gSub cxB cs 0 3 else cs) := by
    split
    · exact BridgeAlign.rel_gSub hrel 0 3
    · exact hrel
  exact ⟨BridgeAlign.rel_gSub hcs 0 1, BridgeAlign.rel_gSub hcs 1 2, BridgeAlign.rel_gSub hcs 2 3⟩

theorem tableRow_bridge (row : List (List (List Int))) (hrow : ∀ cell ∈ row, StableRunes cell)
    (cws : List Int) (isHeader border : Bool)
    (hup : isHeader = true → ∀ cell ∈ row, StableRunes (cell.map cxB.upper))
    (cA : TableChars Int) (cB : TableChars (List Int)) (hc : RelChars cA cB) :
    tableRow cxA (row.map List.flatten) cws isHeader border cA =
      (tableRow cxB row cws isHeader border cB).flatten := by
  unfold tableRow
  simp only []
  apply foldl_append_flatten
  · intro col _
    simp only [getD_map_flatten]
    have hrel : BridgeAlign.Rel (row.getD col []).flatten (row.getD col []) :=
      ⟨getD_stable hrow col, rfl⟩
    cases isHeader with
    | false =>
      cases border with
      | false => exact BridgeAlign.rel_alignLeft hrel _
      | true =>
        simp only [↓reduceIte, Bool.false_eq_true, List.flatten_append]
        rw [BridgeAlign.rel_alignLeft hrel, hc.vert.2]
        rfl
    | true =>
      have hrelU : BridgeAlign.Rel ((row.getD col []).flatten.map cxA.upper)
          ((row.getD col []).map cxB.upper) := by
        refine ⟨?_, map_upper_flatten _⟩
        rcases getD_mem_or_nil row col with h | h
        · exact hup rfl _ h
        · rw [h]; exact stableRunes_nil
      cases border with
      | false => exact BridgeAlign.rel_alignLeft hrelU _
      | true =>
        simp only [↓reduceIte, List.flatten_append]
        rw [BridgeAlign.rel_alignCenter hrelU, hc.vert.2]
  · cases border with
    | false => rfl
    | true => exact hc.vert.2

theorem tableHorzBar_bridge (cws : List Int) (cA : TableChars Int) (cB : TableChars (List Int))
    (hc : RelChars cA cB) : tableHorzBar cws cA = (tableHorzBar cws cB).flatten := by
  unfold tableHorzBar
  simp only [List.append_assoc]
  apply foldl_append_flatten
  · intro w _
    rw [List.flatten_append, gRepeat_flatten, hc.horz.2, hc.corner.2]
  · exact hc.corner.2

theorem tableRowLines_bridge (data : List (List (List (List Int))))
    (hdata : ∀ row ∈ data, ∀ cell ∈ row, StableRunes cell) (cws : List Int) (width : Int)
    (header border : Bool)
    (hup : header = true → ∀ row ∈ data, ∀ cell ∈ row, StableRunes (cell.map cxB.upper))
    (cA : TableChars Int) (cB : TableChars (List Int)) (hc : RelChars cA cB) (i : Nat) :
    tableRowLines cxA (data.map (List.map List.flatten)) cws width header border cA i =
      (tableRowLines cxB data cws width header border cB i).map List.flatten := by
  have hgetD : (data.map (List.map List.flatten)).getD i [] = (data.getD i []).map List.flatten := by
    rw [List.getD_eq_getElem?_getD, List.getD_eq_getElem?_getD, List.getElem?_map]
    cases data[i]? <;> rfl
  have hrowmem : ∀ cell ∈ data.getD i [], ∃ row ∈ data, cell ∈ row := by
    intro cell hcell
    rcases getD_mem_or_nil data i with h | h
    · exact ⟨_, h, hcell⟩
    · rw [h] at hcell; cases hcell
  unfold tableRowLines
  rw [hgetD, List.length_map, tableRow_bridge (data.getD i []) (fun cell hcell => by
      obtain ⟨row, hr, hcr⟩ := hrowmem cell hcell
      exact hdata row hr cell hcr) cws _ border (fun hh cell hcell => by
      obtain ⟨row, hr, hcr⟩ := hrowmem cell hcell
      refine hup ?_ row hr cell hcr
      cases header
      · simp at hh
      · rfl) cA cB hc, List.map_append, tableHorzBar_bridge cws cA cB hc, hc.horz.2,
    ← gRepeat_flatten]
  congr 1
  split
  · split
    · split <;> rfl
    · rfl
  · rfl

theorem buildTable_bridge (data : List (List (List (List Int))))
    (hdata : ∀ row ∈ data, ∀ cell ∈ row, StableRunes cell) (cws : List Int) (width : Int)
    (header border : Bool)
    (hup : header = true → ∀ row ∈ data, ∀ cell ∈ row, StableRunes (cell.map cxB.upper))
    (cA : TableChars Int) (cB : TableChars (List Int)) (hc : RelChars cA cB) :
    buildTable cxA (data.map (List.map List.flatten)) cws width header border cA =
      (buildTable cxB data cws width header border cB).map List.flatten := by
  rw [buildTable_eq, buildTable_eq, List.length_map, List.map_append, List.map_append,
    List.map_flatten, List.map_map, tableHorzBar_bridge cws cA cB hc]
  congr 1
  · congr 1
    · split <;> rfl
    · congr 1
      apply List.map_congr_left
      intro i _
      exact tableRowLines_bridge data hdata cws width header border hup cA cB hc i
  · split <;> rfl

theorem ite_map_eq {β γ : Type} (f : β → γ) (c : Prop) [Decidable c] (a b : γ) (a' b' : β)
    (h1 : a = f a') (h2 : b = f b') : (if c then a else b) = f (if c then a' else b') := by
  split <;> assumption

theorem makeTable_bridge_stable (data : List (List (List (List Int))))
    (hdata : ∀ row ∈ data, ∀ cell ∈ row, StableRunes cell) (width : Int) (header border : Bool)
    (hup : header = true → ∀ row ∈ data, ∀ cell ∈ row, StableRunes (cell.map cxB.upper))
    (cs : List (List Int)) (hcs : StableRunes cs) (h3 : 3 ≤ cs.length) :
    makeTable cxA (data.map (List.map List.flatten)) width header border cs.flatten =
      (makeTable cxB data width header border cs).map List.flatten := by
  have hc := parseTableCharSet_bridge cs hcs h3
  have hcw : ∀ col : Nat,
      data.foldl (fun (m : Int) row =>
        if (gLen cxA ((row.map List.flatten).getD col []) : Int) ≥ m then
          (gLen cxA ((row.map List.flatten).getD col []) : Int) else m) 0 =
      data.foldl (fun (m : Int) row =>
        if (gLen cxB (row.getD col []) : Int) ≥ m then (gLen cxB (row.getD col []) : Int) else m) 0 := by
    intro col
    apply foldl_congr_mem
    intro m row hrow
    rw [getD_map_flatten, gLen_A_flatten (getD_stable (hdata row hrow) col)]
  simp only [makeTable_eq_core]
  unfold makeTableCore
  simp only [List.isEmpty_map, List.foldl_map, List.length_map, hcw, BridgeAlign.rel_gLen hc.horz]
  refine ite_map_eq _ _ _ _ _ _ rfl (ite_map_eq _ _ _ _ _ _ rfl (ite_map_eq _ _ _ _ _ _ ?_ ?_))
  · exact buildTable_bridge data hdata _ _ header border hup _ _ hc
  · exact buildTable_bridge data hdata _ _ header border hup _ _ hc

/-! ### the table on cluster tokens stays inside the vocabulary -/

theorem gSub_B_mem (s : List (List Int)) (a b : Int) : ∀ t ∈ gSub cxB s a b, t ∈ s := by
  have hb := rangeToIndexes_bounds (s.length : Int) a b (Int.natCast_nonneg _)
  generalize hr : rangeToIndexes (s.length : Int) a b = p at hb
  obtain ⟨st, en⟩ := p
  simp only at hb
  rw [gSub_triv_of_rti cxB cxB_triv s a b st en hr hb.1 hb.2.1 hb.2.2]
  intro t ht
  exact List.mem_of_mem_drop (List.mem_of_mem_take ht)

theorem gRepeat_mem {β : Type} (s : List β) (n : Int) : ∀ t ∈ gRepeat s n, t ∈ s := by
  intro t ht
  unfold gRepeat at ht
  obtain ⟨l, hl, htl⟩ := List.mem_flatten.1 ht
  rw [List.eq_of_mem_replicate hl] at htl
  exact htl

theorem foldl_append_over {ι β : Type} (P : β → Prop) (f : ι → List β) :
    ∀ (l : List ι) (s : List β), (∀ t ∈ s, P t) → (∀ i ∈ l, ∀ t ∈ f i, P t) →
      ∀ t ∈ l.foldl (fun line i => line ++ f i) s, P t
  | [], _, hs, _ => hs
  | i :: l, s, hs, hf => by
    rw [List.foldl_cons]
    refine foldl_append_over P f l _ ?_ (fun j hj => hf j (List.mem_cons_of_mem _ hj))
    intro t ht
    rcases List.mem_append.1 ht with h | h
    · exact hs t h
    · exact hf i List.mem_cons_self t h

theorem mem_ite {β : Type} {c : Prop} [Decidable c] {a b : List β} {x : β}
    (h : x ∈ (if c then a else b)) : x ∈ a ∨ x ∈ b := by
  split at h
  · exact Or.inl h
  · exact Or.inr h

/-- every line of `MakeTable` is a line of `buildTable` for some column widths -/
theorem mem_makeTable {α : Type} [DecidableEq α] (cx : Ctx α) (data : List (List (List α)))
    (width : Int) (header border : Bool) (cs : List α) (line : List α)
    (h : line ∈ makeTable cx data width header border cs) :
    ∃ cws w, line ∈ buildTable cx data cws w header border (parseTableCharSet cx cs) := by
  simp only [makeTable_eq_core] at h
  unfold makeTableCore at h
  rcases mem_ite h with h | h
  · cases h
  · simp only [] at h
    rcases mem_ite h with h | h
    · cases h
    · rcases mem_ite h with h | h
      · exact ⟨_, _, h⟩
      · exact ⟨_, _, h⟩

section vocab
variable {V : List (List Int)}

theorem alignLeft_B_over (hsp : [0x20] ∈ V) (toks : List (List Int)) (ht : ∀ t ∈ toks, t ∈ V)
    (w : Int) : ∀ t ∈ alignLeft cxB toks w, t ∈ V := by
  rw [alignLeft_triv cxB cxB_triv]
  exact BridgeAlign.over_of_mem_or_sp hsp ht (BridgeAlign.alignLeft_mem_tokens _ w toks)

theorem alignCenter_B_over (hsp : [0x20] ∈ V) (toks : List (List Int)) (ht : ∀ t ∈ toks, t ∈ V)
    (w : Int) : ∀ t ∈ alignCenter cxB toks w, t ∈ V := by
  rw [alignCenter_triv cxB cxB_triv]
  exact BridgeAlign.over_of_mem_or_sp hsp ht (BridgeAlign.alignCenter_mem_tokens _ w toks)

theorem parseTableCharSet_B_over (cs : List (List Int)) (hcs : ∀ t ∈ cs, t ∈ V)
    (h3 : 3 ≤ cs.length) :
    (∀ t ∈ (parseTableCharSet cxB cs).corner, t ∈ V) ∧
    (∀ t ∈ (parseTableCharSet cxB cs).vert, t ∈ V) ∧
    (∀ t ∈ (parseTableCharSet cxB cs).horz, t ∈ V) := by
  have hlenB : gLen cxB cs = cs.length := gLen_triv cxB cxB_triv cs
  rw [parseTableCharSet_of_ge cxB _ (by omega)]
  have hcs' : ∀ t ∈ (if (gLen cxB cs : Int) > 3 then gSub cxB cs 0 3 else cs), t ∈ V := by
    intro t ht
    split at ht
    · exact hcs t (gSub_B_mem cs 0 3 t ht)
    · exact hcs t ht
  exact ⟨fun t ht => hcs' t (gSub_B_mem _ 0 1 t ht), fun t ht => hcs' t (gSub_B_mem _ 1 2 t ht),
    fun t ht => hcs' t (gSub_B_mem _ 2 3 t ht)⟩

theorem tableRow_B_over (hsp : [0x20] ∈ V) (row : List (List (List Int)))
    (hrow : ∀ cell ∈ row, ∀ t ∈ cell, t ∈ V) (cws : List Int) (isHeader border : Bool)
    (hup : isHeader = true → ∀ t ∈ V, t.map upperRune ∈ V) (cB : TableChars (List Int))
    (hvert : ∀ t ∈ cB.vert, t ∈ V) :
    ∀ t ∈ tableRow cxB row cws isHeader border cB, t ∈ V := by
  unfold tableRow
  simp only []
  apply foldl_append_over
  · cases border with
    | false => exact over_nil
    | true => exact hvert
  · intro col _
    have hcell : ∀ t ∈ row.getD col [], t ∈ V := by
      rcases getD_mem_or_nil row col with h | h
      · exact hrow _ h
      · rw [h]; exact over_nil
    cases isHeader with
    | false =>
      cases border with
      | false => exact alignLeft_B_over hsp _ hcell _
      | true =>
        exact over_append (over_append (over_single hsp) (alignLeft_B_over hsp _ hcell _)) hvert
    | true =>
      have hcellU : ∀ t ∈ (row.getD col []).map cxB.upper, t ∈ V := by
        intro t ht
        obtain ⟨u, hu, rfl⟩ := List.mem_map.1 ht
        exact hup rfl u (hcell u hu)
      cases border with
      | false => exact alignLeft_B_over hsp _ hcellU _
      | true => exact over_append (alignCenter_B_over hsp _ hcellU _) hvert

theorem tableHorzBar_B_over (cws : List Int) (cB : TableChars (List Int))
    (hcorner : ∀ t ∈ cB.corner, t ∈ V) (hhorz : ∀ t ∈ cB.horz, t ∈ V) :
    ∀ t ∈ tableHorzBar cws cB, t ∈ V := by
  unfold tableHorzBar
  simp only [List.append_assoc]
  apply foldl_append_over
  · exact hcorner
  · intro w _
    exact over_append (fun t ht => hhorz t (gRepeat_mem _ _ t ht)) hcorner

/-- every line of the table built on cluster tokens is over the vocabulary -/
theorem makeTable_B_over (hsp : [0x20] ∈ V) (data : List (List (List (List Int))))
    (hdata : ∀ row ∈ data, ∀ cell ∈ row, ∀ t ∈ cell, t ∈ V) (width : Int) (header border : Bool)
    (hup : header = true → ∀ t ∈ V, t.map upperRune ∈ V)
    (cs : List (List Int)) (hcs : ∀ t ∈ cs, t ∈ V) (h3 : 3 ≤ cs.length) :
    ∀ line ∈ makeTable cxB data width header border cs, ∀ t ∈ line, t ∈ V := by
  intro line hline
  obtain ⟨hco, hve, hho⟩ := parseTableCharSet_B_over cs hcs h3
  obtain ⟨cws, w, hmem⟩ := mem_makeTable cxB data width header border cs line hline
  rcases mem_buildTable cxB data cws w header border _ line hmem with ⟨_, rfl⟩ | ⟨_, _, rfl⟩ |
    ⟨i, _, rfl⟩
  · exact tableHorzBar_B_over cws _ hco hho
  · exact fun t ht => hho t (gRepeat_mem _ _ t ht)
  · refine tableRow_B_over hsp _ ?_ cws _ border ?_ _ hve
    · intro cell hcell
      rcases getD_mem_or_nil data i with h | h
      · exact hdata _ h cell hcell
      · rw [h] at hcell; cases hcell
    · intro hh
      refine hup ?_
      cases header
      · simp at hh
      · rfl

end vocab

/-! ### the operation -/

theorem withDefaults_charset_congr {α : Type} [DecidableEq α] (cx : Ctx α) (o o' : Options α)
    (h : o.charset = o'.charset) :
    (o.withDefaults cx).charset = (o'.withDefaults cx).charset := by
  rw [withDefaults_eq, withDefaults_eq, h]
  split
  · split <;> rfl
  · simp only [Options.sepDefaults, h]

section vocab
variable {V : List (List Int)}

/-- the defaulted table character set on the rune side is the flattening of the one on the token
side (only the character set itself has to be over `V`) -/
theorem charset_flat_gen (hV : VocabStable V = true) (o : Options (List Int))
    (hc : ∀ t ∈ o.charset, t ∈ V) :
    (o.flat.withDefaults cxA).charset = (o.withDefaults cxB).charset.flatten := by
  have h := withDefaults_flat hV
    ({ o with lineSep := [], indentStr := [], paraSep := [] } : Options (List Int))
    (fun t ht => by cases ht) (fun t ht => by cases ht) (fun t ht => by cases ht) hc
  have h' := congrArg Options.charset h
  rw [withDefaults_charset_congr cxA o.flat
      ({ o with lineSep := [], indentStr := [], paraSep := [] } : Options (List Int)).flat rfl,
    ← h', withDefaults_charset_congr cxB o
      ({ o with lineSep := [], indentStr := [], paraSep := [] } : Options (List Int)) rfl]
  rfl

theorem headers_flat (o : Options (List Int)) :
    (o.flat.withDefaults cxA).headers = (o.withDefaults cxB).headers := by
  rw [(withDefaults_fields cxA _).2.2.2.2.2.2.2, (withDefaults_fields cxB _).2.2.2.2.2.2.2]; rfl

theorem borders_flat (o : Options (List Int)) :
    (o.flat.withDefaults cxA).borders = (o.withDefaults cxB).borders := by
  rw [(withDefaults_fields cxA _).2.2.2.2.2.2.1, (withDefaults_fields cxB _).2.2.2.2.2.2.1]; rfl

theorem charset_B_length (o : Options (List Int)) : (o.withDefaults cxB).charset.length = 3 :=
  withDefaults_charset_length_triv cxB cxB_triv (by rw [dCharset_B]; rfl) o

/-- **5 (any editor whose text is over `V`).** -/
theorem insertTableOpts_bridge_gen (hV : VocabStable V = true) (hsp : [0x20] ∈ V)
    (ed : Editor (List Int)) (ht : ∀ t ∈ ed.text, t ∈ V) (pos : Int)
    (data : List (List (List (List Int))))
    (hdata : ∀ row ∈ data, ∀ cell ∈ row, ∀ t ∈ cell, t ∈ V) (width : Int)
    (o : Options (List Int)) (hL : ∀ t ∈ (o.withDefaults cxB).lineSep, t ≠ [])
    (hc : ∀ t ∈ o.charset, t ∈ V) (hcd : ∀ t ∈ (o.withDefaults cxB).charset, t ∈ V)
    (hup : o.headers = true → ∀ t ∈ V, t.map upperRune ∈ V) :
    Editor.insertTableOpts cxA ed.flat pos (data.map (List.map List.flatten)) width o.flat =
      (Editor.insertTableOpts cxB ed pos data width o).map Editor.flat := by
  have hupB : (o.withDefaults cxB).headers = true → ∀ t ∈ V, t.map upperRune ∈ V := by
    rw [(withDefaults_fields cxB o).2.2.2.2.2.2.2]; exact hup
  have hdataS : ∀ row ∈ data, ∀ cell ∈ row, StableRunes cell :=
    fun row hr cell hcl => stableRunes_of_vocab V hV cell (hdata row hr cell hcl)
  have hupS : (o.withDefaults cxB).headers = true →
      ∀ row ∈ data, ∀ cell ∈ row, StableRunes (cell.map cxB.upper) := by
    intro hh row hr cell hcl
    refine stableRunes_of_vocab V hV _ ?_
    intro t ht
    obtain ⟨u, hu, rfl⟩ := List.mem_map.1 ht
    exact hupB hh u (hdata row hr cell hcl u hu)
  have hover := makeTable_B_over hsp data hdata width (o.withDefaults cxB).headers
    (o.withDefaults cxB).borders hupB (o.withDefaults cxB).charset hcd
    (Nat.le_of_eq (charset_B_length o).symm)
  unfold Editor.insertTableOpts
  simp only [lineSep_flat_gen o hL, charset_flat_gen hV o hc, headers_flat, borders_flat,
    noTrailing_flat,
    makeTable_bridge_stable data hdataS width _ _ hupS _ (stableRunes_of_vocab V hV _ hcd)
      (Nat.le_of_eq (charset_B_length o).symm), join_flatten_b]
  generalize makeTable cxB data width (o.withDefaults cxB).headers (o.withDefaults cxB).borders
    (o.withDefaults cxB).charset = ls at hover
  have hne : ∀ t ∈ (Block.mk ls (o.withDefaults cxB).lineSep false).join, t ≠ [] := by
    intro t htm
    rw [join_mk_false] at htm
    rcases joinWith_mem _ _ t htm with h | ⟨l, hl, h⟩
    · exact hL t h
    · exact vocab_ne_nil hV (hover l hl t h)
  rw [flatten_isEmpty _ hne]
  have e : (if (!(o.withDefaults cxB).noTrailing) = true ∧
        (!(Block.mk ls (o.withDefaults cxB).lineSep false).join.isEmpty) = true then
      (Block.mk ls (o.withDefaults cxB).lineSep false).join.flatten ++
        (o.withDefaults cxB).lineSep.flatten
      else (Block.mk ls (o.withDefaults cxB).lineSep false).join.flatten) =
      (if (!(o.withDefaults cxB).noTrailing) = true ∧
        (!(Block.mk ls (o.withDefaults cxB).lineSep false).join.isEmpty) = true then
      (Block.mk ls (o.withDefaults cxB).lineSep false).join ++ (o.withDefaults cxB).lineSep
      else (Block.mk ls (o.withDefaults cxB).lineSep false).join).flatten := by
    split
    · rw [List.flatten_append]
    · rfl
  rw [e]
  exact insert_bridge_stable ed (stableRunes_of_vocab V hV _ ht) pos _

end vocab

/-! ## 6. corollaries: the cluster-level theorems C14 / C15 / C16 on code-point text -/

section vocab
variable {V : List (List Int)}

/-- the result of an insertion into a root editor, seen from the code-point side -/
theorem insert_root_flat (hV : VocabStable V = true) (toks : List (List Int))
    (ht : ∀ t ∈ toks, t ∈ V) (o0 : Options (List Int)) (pos : Int) (X : List (List Int)) :
    (Editor.insert cxB (.root toks o0) pos X).map Editor.flat =
      .ok (.root (toks.take (Spec.normPos toks.length pos).toNat ++ X ++
        toks.drop (Spec.normPos toks.length pos).toNat).flatten o0.flat) := by
  rw [insert_B_closed (.root toks o0) (over_ne_nil hV ht)]
  rfl

theorem colLines_B_over (hsp : [0x20] ∈ V) (hhy : [0x2D] ∈ V) (text : List (List Int))
    (ht : ∀ t ∈ text, t ∈ V) (w : Int) (S : List (List Int)) :
    ∀ line ∈ colLines cxB text w S, ∀ t ∈ line, t ∈ V :=
  wrapLines_spec_over hsp hhy _ _ (replaceAll'_over hsp text ht S)

theorem getD_over {ls : List (List (List Int))} (h : ∀ l ∈ ls, ∀ t ∈ l, t ∈ V) (i : Nat) :
    ∀ t ∈ ls.getD i [], t ∈ V := by
  rcases getD_mem_or_nil ls i with h' | h'
  · exact h _ h'
  · rw [h']; exact over_nil

theorem replicate_sp_over (hsp : [0x20] ∈ V) (n : Nat) :
    ∀ t ∈ List.replicate n cxB.sp, t ∈ V := by
  intro t ht
  rw [List.eq_of_mem_replicate ht]; exact hsp

theorem resegment (hV : VocabStable V = true) {line : List (List Int)} (h : ∀ t ∈ line, t ∈ V) :
    clusters cxA line.flatten = line ∧ gLen cxA line.flatten = line.length :=
  ⟨clusters_flatten_stable _ (stableRunes_of_vocab V hV _ h),
    gLen_flatten_stable _ (stableRunes_of_vocab V hV _ h)⟩

end vocab

end BridgeComposite

/-- **1.** CombineColumnBlocks on code points = line-wise flattening of CombineColumnBlocks on
cluster tokens, for lines over a stable vocabulary. -/
theorem combineColumns_bridge {V : List (List Int)} (hV : VocabStable V = true)
    (left right : List (List (List Int))) (hl : ∀ l ∈ left, ∀ t ∈ l, t ∈ V) (gap : Int) :
    combineColumns cxA (left.map List.flatten) (right.map List.flatten) gap =
      (combineColumns cxB left right gap).map (List.map List.flatten) :=
  BridgeComposite.combineColumns_bridge_stable left right
    (fun l h => stableRunes_of_vocab V hV l (hl l h)) gap

/-- **2 (any editor whose text is over `V`).** -/
theorem insert_bridge_gen {V : List (List Int)} (hV : VocabStable V = true)
    (ed : Editor (List Int)) (ht : ∀ t ∈ ed.text, t ∈ V) (pos : Int) (ins : List (List Int)) :
    Editor.insert cxA ed.flat pos ins.flatten = (Editor.insert cxB ed pos ins).map Editor.flat :=
  BridgeComposite.insert_bridge_stable ed (stableRunes_of_vocab V hV _ ht) pos ins

/-- **2.** `Editor.Insert` on a root editor, every integer position. -/
theorem insert_bridge {V : List (List Int)} (hV : VocabStable V = true)
    (toks : List (List Int)) (ht : ∀ t ∈ toks, t ∈ V) (o0 : Options (List Int)) (pos : Int)
    (ins : List (List Int)) :
    Editor.insert cxA (.root toks.flatten o0.flat) pos ins.flatten =
      (Editor.insert cxB (.root toks o0) pos ins).map Editor.flat :=
  insert_bridge_gen hV (.root toks o0) ht pos ins

/-- **3.** `Editor.InsertTwoColumnsOpts` on a root editor: every position, gap, width,
percentage; both texts over the vocabulary; the (defaulted) line separator good for `V`. -/
theorem insertTwoColumnsOpts_bridge {V : List (List Int)} (hV : VocabStable V = true)
    (hsp : [0x20] ∈ V) (hhy : [0x2D] ∈ V) (hspTail : ∀ t ∈ V, (0x20 : Int) ∉ t.tail)
    (toks : List (List Int)) (ht : ∀ t ∈ toks, t ∈ V) (o0 : Options (List Int)) (pos : Int)
    (l r : List (List Int)) (hl : ∀ t ∈ l, t ∈ V) (hr : ∀ t ∈ r, t ∈ V) (gap width : Int)
    (pct : Pct) (o : Options (List Int)) (hS : BridgeOps.GoodSep V (o.withDefaults cxB).lineSep) :
    Editor.insertTwoColumnsOpts cxA (.root toks.flatten o0.flat) pos l.flatten r.flatten gap width
        pct o.flat =
      (Editor.insertTwoColumnsOpts cxB (.root toks o0) pos l r gap width pct o).map Editor.flat :=
  BridgeComposite.insertTwoColumnsOpts_bridge_gen hV hsp hhy hspTail (.root toks o0) ht pos l r
    hl hr gap width pct o hS

/-- **4.** `Editor.InsertDefinitionsTableOpts` on a root editor: terms and definitions are token
lists over the vocabulary; the (defaulted) line separator is good for `V`; the tokens of the
(defaulted) paragraph separator are non-empty (it is only ever copied into the output). -/
theorem insertDefTableOpts_bridge {V : List (List Int)} (hV : VocabStable V = true)
    (hsp : [0x20] ∈ V) (hspTail : ∀ t ∈ V, (0x20 : Int) ∉ t.tail)
    (toks : List (List Int)) (ht : ∀ t ∈ toks, t ∈ V) (o0 : Options (List Int)) (pos : Int)
    (defs : List (List (List Int) × List (List Int)))
    (hd1 : ∀ d ∈ defs, ∀ t ∈ d.1, t ∈ V) (hd2 : ∀ d ∈ defs, ∀ t ∈ d.2, t ∈ V) (width : Int)
    (o : Options (List Int)) (hS : BridgeOps.GoodSep V (o.withDefaults cxB).lineSep)
    (hP : ∀ t ∈ (o.withDefaults cxB).paraSep, t ≠ []) :
    Editor.insertDefTableOpts cxA (.root toks.flatten o0.flat) pos
        (defs.map fun d => (d.1.flatten, d.2.flatten)) width o.flat =
      (Editor.insertDefTableOpts cxB (.root toks o0) pos defs width o).map Editor.flat :=
  BridgeComposite.insertDefTableOpts_bridge_gen hV hsp hspTail (.root toks o0) ht pos defs
    hd1 hd2 width o hS hP

/-- **5.** `Editor.InsertTableOpts` on a root editor: cells are token lists over the vocabulary;
the character set (as given and after defaulting) is over `V`; with headers on, the upper-cased
clusters of the vocabulary are again clusters of the vocabulary.  The line separator is only
copied into the output: its tokens just have to be non-empty. -/
theorem insertTableOpts_bridge {V : List (List Int)} (hV : VocabStable V = true)
    (hsp : [0x20] ∈ V) (toks : List (List Int)) (ht : ∀ t ∈ toks, t ∈ V)
    (o0 : Options (List Int)) (pos : Int) (data : List (List (List (List Int))))
    (hdata : ∀ row ∈ data, ∀ cell ∈ row, ∀ t ∈ cell, t ∈ V) (width : Int)
    (o : Options (List Int)) (hL : ∀ t ∈ (o.withDefaults cxB).lineSep, t ≠ [])
    (hc : ∀ t ∈ o.charset, t ∈ V) (hcd : ∀ t ∈ (o.withDefaults cxB).charset, t ∈ V)
    (hup : o.headers = true → ∀ t ∈ V, t.map upperRune ∈ V) :
    Editor.insertTableOpts cxA (.root toks.flatten o0.flat) pos (data.map (List.map List.flatten))
        width o.flat =
      (Editor.insertTableOpts cxB (.root toks o0) pos data width o).map Editor.flat :=
  BridgeComposite.insertTableOpts_bridge_gen hV hsp (.root toks o0) ht pos data hdata width o hL
    hc hcd hup

section corollaries
open BridgeComposite BridgeWrap BridgeOps
variable {V : List (List Int)}

/-- **6 (C14).** Two columns on CODE POINTS: the operation succeeds; the new text is the old text
with a block inserted at the normalised cluster position; the block's lines, re-segmented with the
real UAX #29 segmentation, are exactly the cluster-level lines `ls` of C14: `left_i`, padded with
spaces to cluster column `leftW + gap`, then `right_i`; both column widths ≥ 2, summing with the gap
to the clamped width; no line has more clusters than that width. -/
theorem insertTwoColumnsOpts_bridge_C14 (hV : VocabStable V = true)
    (hsp : [0x20] ∈ V) (hhy : [0x2D] ∈ V) (hspTail : ∀ t ∈ V, (0x20 : Int) ∉ t.tail)
    (toks : List (List Int)) (ht : ∀ t ∈ toks, t ∈ V) (o0 : Options (List Int)) (pos : Int)
    (l r : List (List Int)) (hl : ∀ t ∈ l, t ∈ V) (hr : ∀ t ∈ r, t ∈ V) (gap width : Int)
    (pct : Pct) (o : Options (List Int)) (hS : GoodSep V (o.withDefaults cxB).lineSep)
    (hne : ¬(l.isEmpty ∧ r.isEmpty)) (hg : 0 ≤ gap) :
    ∃ (leftW rightW : Int) (ls : List (List (List Int))), 2 ≤ leftW ∧ 2 ≤ rightW ∧
      leftW + gap + rightW = max width (gap + 4) ∧
      Editor.insertTwoColumnsOpts cxA (.root toks.flatten o0.flat) pos l.flatten r.flatten gap width
          pct o.flat =
        .ok (.root (toks.take (Spec.normPos toks.length pos).toNat ++
          (Block.mk ls (o.withDefaults cxB).lineSep (!(o.withDefaults cxB).noTrailing)).join ++
          toks.drop (Spec.normPos toks.length pos).toNat).flatten o0.flat) ∧
      ls.length = max (colLines cxB l leftW (o.withDefaults cxB).lineSep).length
        (colLines cxB r rightW (o.withDefaults cxB).lineSep).length ∧
      (∀ line ∈ ls, clusters cxA line.flatten = line ∧
        (gLen cxA line.flatten : Int) ≤ max width (gap + 4)) ∧
      ∀ (i : Nat) (hi : i < ls.length),
        ls[i] = (colLines cxB l leftW (o.withDefaults cxB).lineSep).getD i [] ++
          List.replicate ((leftW + gap).toNat -
            ((colLines cxB l leftW (o.withDefaults cxB).lineSep).getD i []).length) cxB.sp ++
          (colLines cxB r rightW (o.withDefaults cxB).lineSep).getD i [] ∧
        ((clusters cxA ls[i].flatten).take (leftW + gap).toNat).length = (leftW + gap).toNat ∧
        (clusters cxA ls[i].flatten).drop (leftW + gap).toNat =
          (colLines cxB r rightW (o.withDefaults cxB).lineSep).getD i [] := by
  obtain ⟨L, Rw, ls, h1, h2, h3, heq, hlen, hwid, hshape⟩ :=
    insertTwoColumnsOpts_triv_width cxB cxB_triv cxB_sp_space (.root toks o0) pos l r gap width pct o hne hg
  have hover : ∀ line ∈ ls, ∀ t ∈ line, t ∈ V := by
    intro line hline
    obtain ⟨i, hi, rfl⟩ := List.getElem_of_mem hline
    rw [(hshape i hi).1]
    exact over_append (over_append (getD_over (colLines_B_over hsp hhy l hl _ _) i)
      (replicate_sp_over hsp _)) (getD_over (colLines_B_over hsp hhy r hr _ _) i)
  refine ⟨L, Rw, ls, h1, h2, h3, ?_, hlen, ?_, ?_⟩
  · rw [insertTwoColumnsOpts_bridge hV hsp hhy hspTail toks ht o0 pos l r hl hr gap width pct o hS,
      heq, insert_root_flat hV toks ht]
  · intro line hline
    obtain ⟨e1, e2⟩ := resegment hV (hover line hline)
    refine ⟨e1, ?_⟩
    rw [e2]; exact hwid line hline
  · intro i hi
    rw [(resegment hV (hover _ (List.getElem_mem hi))).1]
    exact hshape i hi

/-- **6 (C15).** Definitions table on CODE POINTS: the operation succeeds; the inserted text is the
flattening of the cluster-level text of C15 (paragraphs joined by the paragraph separator, lines by
the line separator); every line of every paragraph, re-segmented with the real UAX #29
segmentation, is the cluster-level line, and the definition text starts at cluster column `T + 6`
on every line (`T` = the longest term, in clusters). -/
theorem insertDefTableOpts_bridge_C15 (hV : VocabStable V = true)
    (hsp : [0x20] ∈ V) (hhy : [0x2D] ∈ V) (hspTail : ∀ t ∈ V, (0x20 : Int) ∉ t.tail)
    (toks : List (List Int)) (ht : ∀ t ∈ toks, t ∈ V) (o0 : Options (List Int)) (pos : Int)
    (defs : List (List (List Int) × List (List Int)))
    (hd1 : ∀ d ∈ defs, ∀ t ∈ d.1, t ∈ V) (hd2 : ∀ d ∈ defs, ∀ t ∈ d.2, t ∈ V) (width : Int)
    (o : Options (List Int)) (hS : GoodSep V (o.withDefaults cxB).lineSep)
    (hP : ∀ t ∈ (o.withDefaults cxB).paraSep, t ≠ []) (hne : defs ≠ []) :
    Editor.insertDefTableOpts cxA (.root toks.flatten o0.flat) pos
        (defs.map fun d => (d.1.flatten, d.2.flatten)) width o.flat =
      .ok (.root (toks.take (Spec.normPos toks.length pos).toNat ++
        (joinWith (o.withDefaults cxB).paraSep (defs.map fun item =>
          joinWith (o.withDefaults cxB).lineSep
            (defParaLines cxB (maxLineLen (defs.map (·.1))) item.1
              (defRc (colLines cxB item.2
                (max (width - ((maxLineLen (defs.map (·.1)) : Int) + 2) - 2 - 2) 2)
                (o.withDefaults cxB).lineSep)))) ++
          (if (o.withDefaults cxB).noTrailing = true then [] else (o.withDefaults cxB).lineSep)) ++
        toks.drop (Spec.normPos toks.length pos).toNat).flatten o0.flat) ∧
    ∀ item ∈ defs, ∀ (rc : List (List (List Int))),
      rc = defRc (colLines cxB item.2
        (max (width - ((maxLineLen (defs.map (·.1)) : Int) + 2) - 2 - 2) 2)
        (o.withDefaults cxB).lineSep) →
      (defParaLines cxB (maxLineLen (defs.map (·.1))) item.1 rc).length = rc.length ∧
      ∀ (i : Nat) (hi : i < (defParaLines cxB (maxLineLen (defs.map (·.1))) item.1 rc).length),
        clusters cxA ((defParaLines cxB (maxLineLen (defs.map (·.1))) item.1 rc)[i]).flatten =
          (defParaLines cxB (maxLineLen (defs.map (·.1))) item.1 rc)[i] ∧
        (clusters cxA ((defParaLines cxB (maxLineLen (defs.map (·.1))) item.1 rc)[i]).flatten).drop
          (maxLineLen (defs.map (·.1)) + 6) = rc.getD i [] := by
  constructor
  · rw [insertDefTableOpts_bridge hV hsp hspTail toks ht o0 pos defs hd1 hd2 width o hS hP,
      insertDefTableOpts_triv_text cxB cxB_triv cxB_sp_space (.root toks o0) pos defs width o hne,
      insert_root_flat hV toks ht]
  · intro item hitem rc hrc
    generalize hT : maxLineLen (defs.map (·.1)) = T at hrc ⊢
    have hle : item.1.length ≤ T := by
      rw [← hT]
      exact le_maxLineLen _ _ (List.mem_map.2 ⟨item, hitem, rfl⟩)
    have hrcV : ∀ line ∈ rc, ∀ t ∈ line, t ∈ V := by
      rw [hrc]
      unfold defRc
      split
      · intro line hline t htl
        rw [List.mem_singleton] at hline
        rw [hline] at htl; cases htl
      · exact colLines_B_over hsp hhy item.2 (hd2 item hitem) _ _
    have hlen : (defParaLines cxB T item.1 rc).length = rc.length := by
      rw [hrc]; exact defParaLines_defRc_length cxB T item.1 _
    refine ⟨hlen, ?_⟩
    intro i hi
    have hRC : ∀ line ∈ defRightCol cxB rc, ∀ t ∈ line, t ∈ V := by
      intro line hline
      unfold defRightCol at hline
      obtain ⟨j, _, rfl⟩ := List.mem_map.1 hline
      refine over_append ?_ (getD_over hrcV j)
      split
      all_goals
        intro t htm
        simp only [List.mem_cons, List.not_mem_nil, or_false] at htm
        rcases htm with htm | htm
        · rw [htm]; first | exact hhy | exact hsp
        · rw [htm]; exact hsp
    have hover : ∀ t ∈ (defParaLines cxB T item.1 rc)[i], t ∈ V := by
      simp only [defParaLines, List.getElem_map, List.getElem_range]
      refine over_append ?_ ?_
      · split
        · refine over_append (over_append (over_append ?_ (hd1 item hitem))
            (replicate_sp_over hsp _)) ?_
          all_goals
            intro t htm
            simp only [List.mem_cons, List.not_mem_nil, or_false, or_self] at htm
            rw [htm]; exact hsp
        · exact replicate_sp_over hsp _
      · exact getD_over hRC i
    rw [(resegment hV hover).1]
    exact ⟨rfl, defParaLines_drop cxB T item.1 hle rc i (by omega) hi⟩

/-- **6 (C16).** Table on CODE POINTS: the operation succeeds; the inserted block consists of the
lines `ls` of the cluster-level table; every line, re-segmented with the real UAX #29
segmentation, has exactly `max width minWidth` clusters (the table is rectangular in clusters). -/
theorem insertTableOpts_bridge_C16 (hV : VocabStable V = true)
    (hsp : [0x20] ∈ V) (toks : List (List Int)) (ht : ∀ t ∈ toks, t ∈ V)
    (o0 : Options (List Int)) (pos : Int) (data : List (List (List (List Int))))
    (hdata : ∀ row ∈ data, ∀ cell ∈ row, ∀ t ∈ cell, t ∈ V) (width : Int)
    (o : Options (List Int)) (hL : ∀ t ∈ (o.withDefaults cxB).lineSep, t ≠ [])
    (hc : ∀ t ∈ o.charset, t ∈ V) (hcd : ∀ t ∈ (o.withDefaults cxB).charset, t ∈ V)
    (hup : o.headers = true → ∀ t ∈ V, t.map upperRune ∈ V) :
    ∃ ls : List (List (List Int)),
      ls = makeTable cxB data width (o.withDefaults cxB).headers (o.withDefaults cxB).borders
        (o.withDefaults cxB).charset ∧
      Editor.insertTableOpts cxA (.root toks.flatten o0.flat) pos
          (data.map (List.map List.flatten)) width o.flat =
        .ok (.root (toks.take (Spec.normPos toks.length pos).toNat ++
          (if (!(o.withDefaults cxB).noTrailing) = true ∧
              (!(Block.mk ls (o.withDefaults cxB).lineSep false).join.isEmpty) = true then
            (Block.mk ls (o.withDefaults cxB).lineSep false).join ++ (o.withDefaults cxB).lineSep
          else (Block.mk ls (o.withDefaults cxB).lineSep false).join) ++
          toks.drop (Spec.normPos toks.length pos).toNat).flatten o0.flat) ∧
      ∀ line ∈ ls, clusters cxA line.flatten = line ∧
        (gLen cxA line.flatten : Int) = max width (tableMinWidth data o.borders) := by
  have hupB : (o.withDefaults cxB).headers = true → ∀ t ∈ V, t.map upperRune ∈ V := by
    rw [(withDefaults_fields cxB o).2.2.2.2.2.2.2]; exact hup
  refine ⟨_, rfl, ?_, ?_⟩
  · rw [insertTableOpts_bridge hV hsp toks ht o0 pos data hdata width o hL hc hcd hup]
    unfold Editor.insertTableOpts
    exact insert_root_flat hV toks ht o0 pos _
  · intro line hline
    have hover := makeTable_B_over hsp data hdata width (o.withDefaults cxB).headers
      (o.withDefaults cxB).borders hupB (o.withDefaults cxB).charset hcd
      (Nat.le_of_eq (charset_B_length o).symm) line hline
    obtain ⟨e1, e2⟩ := resegment hV hover
    refine ⟨e1, ?_⟩
    rw [e2]
    exact insertTableOpts_lines_rect cxB cxB_triv (by rw [dCharset_B]; rfl) data width o line hline

end corollaries

/-! ## 7. concrete instances, and necessity of the hypotheses -/

namespace BridgeComposite
open BridgeWrap BridgeOps

/-- if the three default table characters `+`, `|`, `-` are clusters of the vocabulary, the
defaulted character set is over the vocabulary as soon as the given one is -/
theorem defaulted_charset_over {V : List (List Int)} (o : Options (List Int))
    (hc : ∀ t ∈ o.charset, t ∈ V) (h1 : [0x2B] ∈ V) (h2 : [0x7C] ∈ V) (h3 : [0x2D] ∈ V) :
    ∀ t ∈ (o.withDefaults cxB).charset, t ∈ V := by
  have hd : ∀ t ∈ cxB.dCharset, t ∈ V := by
    rw [dCharset_B]
    intro t ht
    simp only [List.mem_cons, List.not_mem_nil, or_false] at ht
    rcases ht with rfl | rfl | rfl <;> assumption
  rw [withDefaults_eq]
  split
  · split
    · exact over_append hc (fun t ht => hd t (gSub_B_mem _ _ _ t ht))
    · exact fun t ht => hc t (gSub_B_mem _ _ _ t ht)
  · exact hc

theorem defaulted_lineSep_nl (o : Options (List Int))
    (hls : o.lineSep = [] ∨ o.lineSep = [[0x0A]]) : (o.withDefaults cxB).lineSep = [[0x0A]] := by
  rw [(withDefaults_fields cxB o).1]
  rcases hls with h | h <;> rw [h]
  · exact dLineSep_B
  · rfl

/-- 1–4 on `BridgeOps.demoVocab3` (`a b ␠ - é 🇩🇪 TAB LF`): every text / column / term /
definition over the vocabulary, every position, gap, width, percentage, every options value that
leaves the line and paragraph separators unset (or sets the line separator to "\n") -/
example (left right : List (List (List Int)))
    (hl : ∀ l ∈ left, ∀ t ∈ l, t ∈ BridgeOps.demoVocab3) (gap : Int) :
    combineColumns cxA (left.map List.flatten) (right.map List.flatten) gap =
      (combineColumns cxB left right gap).map (List.map List.flatten) :=
  combineColumns_bridge BridgeOps.demoVocab3_stable left right hl gap

example (toks : List (List Int)) (ht : ∀ t ∈ toks, t ∈ BridgeOps.demoVocab3)
    (o0 : Options (List Int)) (pos : Int) (ins : List (List Int)) :
    Editor.insert cxA (.root toks.flatten o0.flat) pos ins.flatten =
      (Editor.insert cxB (.root toks o0) pos ins).map Editor.flat :=
  insert_bridge BridgeOps.demoVocab3_stable toks ht o0 pos ins

example (toks : List (List Int)) (ht : ∀ t ∈ toks, t ∈ BridgeOps.demoVocab3)
    (o0 : Options (List Int)) (pos : Int) (l r : List (List Int))
    (hl : ∀ t ∈ l, t ∈ BridgeOps.demoVocab3) (hr : ∀ t ∈ r, t ∈ BridgeOps.demoVocab3)
    (gap width : Int) (pct : Pct) (o : Options (List Int))
    (hls : o.lineSep = [] ∨ o.lineSep = [[0x0A]]) :
    Editor.insertTwoColumnsOpts cxA (.root toks.flatten o0.flat) pos l.flatten r.flatten gap width
        pct o.flat =
      (Editor.insertTwoColumnsOpts cxB (.root toks o0) pos l r gap width pct o).map Editor.flat :=
  insertTwoColumnsOpts_bridge BridgeOps.demoVocab3_stable BridgeOps.demoVocab3_sp
    BridgeOps.demoVocab3_hy BridgeOps.demoVocab3_spTail toks ht o0 pos l r hl hr gap width pct o
    (defaulted_lineSep_nl o hls ▸
      goodSep_rune BridgeOps.demoVocab3_stable BridgeOps.demoVocab3_nlOnly)

example (toks : List (List Int)) (ht : ∀ t ∈ toks, t ∈ BridgeOps.demoVocab3)
    (o0 : Options (List Int)) (pos : Int) (defs : List (List (List Int) × List (List Int)))
    (hd1 : ∀ d ∈ defs, ∀ t ∈ d.1, t ∈ BridgeOps.demoVocab3)
    (hd2 : ∀ d ∈ defs, ∀ t ∈ d.2, t ∈ BridgeOps.demoVocab3) (width : Int)
    (o : Options (List Int)) (hls : o.lineSep = [] ∨ o.lineSep = [[0x0A]])
    (hps : o.paraSep = []) :
    Editor.insertDefTableOpts cxA (.root toks.flatten o0.flat) pos
        (defs.map fun d => (d.1.flatten, d.2.flatten)) width o.flat =
      (Editor.insertDefTableOpts cxB (.root toks o0) pos defs width o).map Editor.flat :=
  insertDefTableOpts_bridge BridgeOps.demoVocab3_stable BridgeOps.demoVocab3_sp
    BridgeOps.demoVocab3_spTail toks ht o0 pos defs hd1 hd2 width o
    (defaulted_lineSep_nl o hls ▸
      goodSep_rune BridgeOps.demoVocab3_stable BridgeOps.demoVocab3_nlOnly)
    (by
      rw [(withDefaults_fields cxB o).2.2.1, hps, dParaSep_B]
      intro t ht
      simp only [List.isEmpty_nil, ↓reduceIte, List.mem_cons, List.not_mem_nil, or_false,
        or_self] at ht
      rw [ht]; simp)

/-- `demoVocab3` extended by the upper-case clusters `A B É` and the table characters `+ |` -/
def demoVocab4 : List (List Int) :=
  BridgeOps.demoVocab3 ++ [[0x41], [0x42], [0x45, 0x301], [0x2B], [0x7C]]

theorem demoVocab4_stable : VocabStable demoVocab4 = true := by decide +kernel

/-- the vocabulary is closed under upper-casing -/
theorem demoVocab4_upper : ∀ t ∈ demoVocab4, t.map upperRune ∈ demoVocab4 := by decide +kernel

/-- 5 and its C16 corollary on `demoVocab4`: any ragged data with cells over the vocabulary, any
width and position, headers and borders on or off, default character set, line separator unset (or
"\n"): the table inserted into the CODE-POINT text is rectangular in real UAX #29 clusters -/
example (toks : List (List Int)) (ht : ∀ t ∈ toks, t ∈ demoVocab4)
    (o0 : Options (List Int)) (pos : Int) (data : List (List (List (List Int))))
    (hdata : ∀ row ∈ data, ∀ cell ∈ row, ∀ t ∈ cell, t ∈ demoVocab4) (width : Int)
    (o : Options (List Int)) (hls : o.lineSep = [] ∨ o.lineSep = [[0x0A]])
    (hcs : o.charset = []) :
    Editor.insertTableOpts cxA (.root toks.flatten o0.flat) pos (data.map (List.map List.flatten))
        width o.flat =
      (Editor.insertTableOpts cxB (.root toks o0) pos data width o).map Editor.flat ∧
    ∃ ls : List (List (List Int)),
      ls = makeTable cxB data width (o.withDefaults cxB).headers (o.withDefaults cxB).borders
        (o.withDefaults cxB).charset ∧
      ∀ line ∈ ls, clusters cxA line.flatten = line ∧
        (gLen cxA line.flatten : Int) = max width (tableMinWidth data o.borders) := by
  have hL : ∀ t ∈ (o.withDefaults cxB).lineSep, t ≠ [] := by
    rw [defaulted_lineSep_nl o hls]
    intro t ht
    rw [List.mem_singleton] at ht
    rw [ht]; simp
  have hc : ∀ t ∈ o.charset, t ∈ demoVocab4 := by rw [hcs]; exact over_nil
  have hcd := defaulted_charset_over o hc (V := demoVocab4) (by decide) (by decide) (by decide)
  refine ⟨insertTableOpts_bridge demoVocab4_stable (by decide) toks ht o0 pos data hdata width o
    hL hc hcd (fun _ => demoVocab4_upper), ?_⟩
  obtain ⟨ls, h1, _, h3⟩ := insertTableOpts_bridge_C16 demoVocab4_stable (by decide) toks ht o0 pos
    data hdata width o hL hc hcd (fun _ => demoVocab4_upper)
  exact ⟨ls, h1, h3⟩

/-- the C14 corollary on `demoVocab3` -/
example (toks : List (List Int)) (ht : ∀ t ∈ toks, t ∈ BridgeOps.demoVocab3)
    (pos : Int) (l r : List (List Int))
    (hl : ∀ t ∈ l, t ∈ BridgeOps.demoVocab3) (hr : ∀ t ∈ r, t ∈ BridgeOps.demoVocab3)
    (gap width : Int) (pct : Pct) (hne : ¬(l.isEmpty ∧ r.isEmpty)) (hg : 0 ≤ gap) :
    ∃ e, Editor.insertTwoColumnsOpts cxA (.root toks.flatten {}) pos l.flatten r.flatten gap width
        pct {} = .ok e ∧
      ∃ ls : List (List (List Int)),
        e.text = (toks.take (Spec.normPos toks.length pos).toNat ++
          (joinWith [[0x0A]] ls ++ [[0x0A]]) ++
          toks.drop (Spec.normPos toks.length pos).toNat).flatten ∧
        ∀ line ∈ ls, clusters cxA line.flatten = line ∧
          (gLen cxA line.flatten : Int) ≤ max width (gap + 4) := by
  have hS : GoodSep BridgeOps.demoVocab3 (({} : Options (List Int)).withDefaults cxB).lineSep :=
    default_lineSep_B ▸ goodSep_rune BridgeOps.demoVocab3_stable BridgeOps.demoVocab3_nlOnly
  obtain ⟨L, Rw, ls, _, _, _, h4, _, h6, _⟩ := insertTwoColumnsOpts_bridge_C14
    BridgeOps.demoVocab3_stable BridgeOps.demoVocab3_sp BridgeOps.demoVocab3_hy
    BridgeOps.demoVocab3_spTail toks ht {} pos l r hl hr gap width pct {} hS hne hg
  have hnt : (({} : Options (List Int)).withDefaults cxB).noTrailing = false :=
    (withDefaults_fields cxB _).2.2.2.1
  rw [flat_default] at h4
  refine ⟨_, h4, ls, ?_, h6⟩
  show (_ : List (List Int)).flatten = _
  rw [default_lineSep_B, hnt]
  unfold Block.join
  cases ls with
  | nil => rfl
  | cons a t => rfl

/-- **necessity of `hup`.**  U+0345 (combining ypogegrammeni, Extend) upper-cases to U+0399 (capital
iota, a base letter): the cluster `ᾳ` = U+03B1 U+0345 upper-cases to the TWO clusters `Α Ι`.  The
vocabulary below is stable and all other hypotheses of `insertTableOpts_bridge` hold, but with
headers on the code-point level pads the header cell to the width by counting two clusters, the
token level by counting one. -/
theorem hup_needed :
    VocabStable [[0x20], [0x2B], [0x7C], [0x2D], [0x3B1, 0x345], [0x0A]] = true ∧
    (Editor.insertTableOpts cxA (.root [] {}) 0
        (([[ [[0x3B1, 0x345]] ]] : List (List (List (List Int)))).map (List.map List.flatten)) 4
        ({ headers := true } : Options (List Int)).flat).toOption.map Editor.text =
      some [0x391, 0x399, 0x20, 0x20, 0x0A, 0x2D, 0x2D, 0x2D, 0x2D, 0x0A] ∧
    ((Editor.insertTableOpts cxB (.root [] {}) 0 [[ [[0x3B1, 0x345]] ]] 4
        ({ headers := true } : Options (List Int))).map Editor.flat).toOption.map Editor.text =
      some [0x391, 0x399, 0x20, 0x20, 0x20, 0x0A, 0x2D, 0x2D, 0x2D, 0x2D, 0x0A] := by
  decide +kernel

/-- **the given character set has to be over the vocabulary**, not only the defaulted one: with
the character set `a b e ◌́` (four tokens, the last two merge on code points) the token level
truncates to `a b e` — which is over the stable vocabulary `{a, b, e, …}` — while the code-point
level sees three clusters `a b é` and keeps all four code points -/
theorem charset_over_needed :
    (({ charset := [[0x61], [0x62], [0x65], [0x301]] } : Options (List Int)).withDefaults
        cxB).charset = [[0x61], [0x62], [0x65]] ∧
    (({ charset := [[0x61], [0x62], [0x65], [0x301]] } : Options (List Int)).flat.withDefaults
        cxA).charset = [0x61, 0x62, 0x65, 0x301] := by
  decide +kernel

end BridgeComposite

end RosedVerif
