/-
Instance A of the model: atoms are code points, segmentation is the Go rule
chain over the regenerated tables.
-/
import RosedVerif.Model.Ops
import RosedVerif.Gem.Rules
import RosedVerif.Gen.Stdlib
namespace RosedVerif

def utf8Len (r : Int) : Nat :=
  if r < 0x80 then 1 else if r < 0x800 then 2 else if r < 0x10000 then 3 else 4

def isSpaceRune (r : Int) : Bool := isCb Gen.isSpaceRanges r

def upperIn : List (Nat × Nat × Nat) → Int → Int
  | [], r => r
  | (lo, hi, tlo) :: t, r => if r < lo then r else if r ≤ hi then (tlo : Int) + (r - lo) else upperIn t r

def upperRune (r : Int) : Int := if r < 0 then r else upperIn Gen.toUpperRuns r

/-- code points + real segmentation -/
def cxA : Ctx Int where
  ends := splitRunes
  isSpace := isSpaceRune
  blen := utf8Len
  upper := upperRune
  sp := 0x20
  hy := 0x2D
  phA := 0x41
  phNext := fun r => r + 1
  nl := 0x0A
  dIndent := Gen.defaultIndentStr
  dLineSep := Gen.defaultLineSeparator
  dParaSep := Gen.defaultParagraphSeparator
  dCharset := Gen.defaultTableCharSet

/-- cluster tokens + trivial segmentation (layer B, executable form: a token is a cluster) -/
def cxB : Ctx (List Int) where
  ends := fun l => List.range' 1 l.length
  isSpace := fun c => match c with | [] => false | r :: _ => isSpaceRune r
  blen := fun c => c.foldl (fun n r => n + utf8Len r) 0
  upper := fun c => c.map upperRune
  sp := [0x20]
  hy := [0x2D]
  phA := [0x41]
  phNext := fun c => c.map (· + 1)
  nl := [0x0A]
  dIndent := clusters cxA Gen.defaultIndentStr
  dLineSep := clusters cxA Gen.defaultLineSeparator
  dParaSep := clusters cxA Gen.defaultParagraphSeparator
  dCharset := clusters cxA Gen.defaultTableCharSet

end RosedVerif
