/-
Cluster-level (trivial segmentation: every atom is its own cluster) theorems about the
composite layouts: CombineColumnBlocks / two columns (C14), definitions table (C15),
table (C16).
-/
import RosedVerif.Model.Totality
import RosedVerif.Model.WrapRefine
import RosedVerif.Model.Table
import RosedVerif.Model.StringsLemmas
import RosedVerif.Spec.AlignLemmas
namespace RosedVerif
set_option linter.unusedSectionVars false

/-! ## generic helpers -/

theorem mapM_ok_map {β γ : Type} (f : β → R γ) (g : β → γ) :
    ∀ (l : List β), (∀ x ∈ l, f x = .ok (g x)) → l.mapM f = .ok (l.map g)
  | [], _ => by simp only [List.mapM_nil, List.map_nil]; rfl
  | x :: l, h => by
    have h1 := h x (by simp)
    have h2 := mapM_ok_map f g l (fun y hy => h y (by simp [hy]))
    simp only [List.mapM_cons, h1, h2, List.map_cons]
    rfl

theorem repeatStr_single {α : Type} (a : α) (n : Int) (h : 0 ≤ n) :
    repeatStr [a] n = .ok (List.replicate n.toNat a) := by
  unfold repeatStr
  rw [if_neg (by omega), List.flatten_replicate_singleton]
  rfl

theorem gRepeat_single_c {α : Type} (a : α) (n : Int) :
    gRepeat [a] n = List.replicate n.toNat a := by
  unfold gRepeat
  rw [List.flatten_replicate_singleton]

/-- length of the longest line (0 if there is none) -/
def maxLineLen {α : Type} (ls : List (List α)) : Nat := ls.foldr (fun l m => max l.length m) 0

theorem maxLineLen_nil {α : Type} : maxLineLen ([] : List (List α)) = 0 := rfl

theorem maxLineLen_cons {α : Type} (l : List α) (ls : List (List α)) :
    maxLineLen (l :: ls) = max l.length (maxLineLen ls) := rfl

theorem le_maxLineLen {α : Type} : ∀ (ls : List (List α)) (l : List α), l ∈ ls →
    l.length ≤ maxLineLen ls
  | [], _, h => by simp at h
  | y :: ls, l, h => by
    rw [maxLineLen_cons]
    rcases List.mem_cons.1 h with rfl | h
    · omega
    · have := le_maxLineLen ls l h
      omega

theorem maxLineLen_le {α : Type} (b : Nat) : ∀ (ls : List (List α)), (∀ l ∈ ls, l.length ≤ b) →
    maxLineLen ls ≤ b
  | [], _ => Nat.zero_le _
  | y :: ls, h => by
    rw [maxLineLen_cons]
    have h1 := h y (by simp)
    have h2 := maxLineLen_le b ls (fun l hl => h l (by simp [hl]))
    omega

theorem getD_length_le_maxLineLen {α : Type} (ls : List (List α)) (i : Nat) :
    (ls.getD i []).length ≤ maxLineLen ls := by
  by_cases hi : i < ls.length
  · rw [List.getD_eq_getElem?_getD, List.getElem?_eq_getElem hi, Option.getD_some]
    exact le_maxLineLen ls _ (List.getElem_mem hi)
  · rw [List.getD_eq_getElem?_getD, List.getElem?_eq_none (by omega), Option.getD_none]
    simp

section
variable {α : Type} [DecidableEq α] (cx : Ctx α)

/-! ## A. CombineColumnBlocks (C14 core) -/

omit [DecidableEq α] in
/-- the `foldl` of the model computing the longest line, started at `m0` -/
theorem foldl_maxLen_len :
    ∀ (ls : List (List α)) (m0 : Nat),
      ls.foldl (fun (m : Int) l => if (l.length : Int) > m then (l.length : Int) else m) (m0 : Int)
        = ((max m0 (maxLineLen ls) : Nat) : Int)
  | [], m0 => by simp [maxLineLen_nil]
  | y :: ls, m0 => by
    simp only [List.foldl_cons, maxLineLen_cons]
    have e : (if (y.length : Int) > (m0 : Int) then (y.length : Int) else (m0 : Int))
        = ((max m0 y.length : Nat) : Int) := by split <;> omega
    rw [e, foldl_maxLen_len ls (max m0 y.length)]
    congr 1
    omega

omit [DecidableEq α] in
theorem foldl_maxLen_len0 (ls : List (List α)) :
    ls.foldl (fun (m : Int) l => if (l.length : Int) > m then (l.length : Int) else m) 0
      = (maxLineLen ls : Int) := by
  have := foldl_maxLen_len ls 0
  simpa using this

omit [DecidableEq α] in
theorem foldl_maxLen_triv0 (htriv : ∀ s, cx.ends s = List.range' 1 s.length)
    (ls : List (List α)) :
    ls.foldl (fun (m : Int) l => if (gLen cx l : Int) > m then (gLen cx l : Int) else m) 0
      = (maxLineLen ls : Int) := by
  simp only [gLen_triv cx htriv]
  exact foldl_maxLen_len0 ls

/-- line `i` of the combined block: the left line, padded with spaces up to column
`maxLineLen left + gap`, followed by the right line -/
def combinedLine (left right : List (List α)) (gap : Nat) (i : Nat) : List α :=
  left.getD i [] ++ List.replicate (maxLineLen left + gap - (left.getD i []).length) cx.sp
    ++ right.getD i []

/-- A (closed form).  For a non-negative gap `CombineColumnBlocks` returns normally and line `i`
is `combinedLine`. -/
theorem combineColumns_triv (htriv : ∀ s, cx.ends s = List.range' 1 s.length)
    (left right : List (List α)) (gap : Int) (hg : 0 ≤ gap) :
    combineColumns cx left right gap =
      .ok ((List.range (max left.length right.length)).map
        (combinedLine cx left right gap.toNat)) := by
  unfold combineColumns
  split
  · rename_i h
    have hl : left = [] := by simpa using h.1
    have hr : right = [] := by simpa using h.2
    subst hl hr
    rfl
  · simp only [gLen_triv cx htriv, foldl_maxLen_len0]
    apply mapM_ok_map
    intro i _
    have hle := getD_length_le_maxLineLen left i
    have hlc : (if i < left.length then ((left.getD i []).length : Int) else 0)
        = ((left.getD i []).length : Int) := by
      split
      · rfl
      · rw [List.getD_eq_getElem?_getD, List.getElem?_eq_none (by omega), Option.getD_none]
        rfl
    rw [hlc, repeatStr_single _ _ (by omega)]
    simp only [ok_bind, combinedLine]
    have e : ((maxLineLen left : Int) + gap - ((left.getD i []).length : Int)).toNat
        = maxLineLen left + gap.toNat - (left.getD i []).length := by omega
    rw [e]
    rfl

/-- A.  `CombineColumnBlocks` at cluster level: the number of lines, and every line. -/
theorem combineColumns_triv_spec (htriv : ∀ s, cx.ends s = List.range' 1 s.length)
    (left right : List (List α)) (gap : Int) (hg : 0 ≤ gap) :
    ∃ ls, combineColumns cx left right gap = .ok ls ∧
      ls.length = max left.length right.length ∧
      ∀ (i : Nat) (hi : i < ls.length),
        ls[i] = left.getD i [] ++
          List.replicate (maxLineLen left + gap.toNat - (left.getD i []).length) cx.sp ++
          right.getD i [] := by
  refine ⟨_, combineColumns_triv cx htriv left right gap hg, by simp, ?_⟩
  intro i hi
  simp only [List.getElem_map, List.getElem_range, combinedLine]

omit [DecidableEq α] in
/-- the left part of a combined line (left line + padding) is exactly `maxLineLen left + gap`
atoms long -/
theorem combinedLine_left_length (left : List (List α)) (gap i : Nat) :
    (left.getD i [] ++ List.replicate (maxLineLen left + gap - (left.getD i []).length) cx.sp).length
      = maxLineLen left + gap := by
  have := getD_length_le_maxLineLen left i
  simp only [List.length_append, List.length_replicate]
  omega

omit [DecidableEq α] in
/-- A (offset).  The right column starts at the same offset `maxLineLen left + gap` on every line -/
theorem combinedLine_take (left right : List (List α)) (gap i : Nat) :
    (combinedLine cx left right gap i).take (maxLineLen left + gap) =
      left.getD i [] ++ List.replicate (maxLineLen left + gap - (left.getD i []).length) cx.sp := by
  unfold combinedLine
  rw [List.take_append_of_le_length (by rw [combinedLine_left_length]; exact Nat.le_refl _)]
  exact List.take_of_length_le (by rw [combinedLine_left_length]; exact Nat.le_refl _)

omit [DecidableEq α] in
theorem combinedLine_drop (left right : List (List α)) (gap i : Nat) :
    (combinedLine cx left right gap i).drop (maxLineLen left + gap) = right.getD i [] := by
  unfold combinedLine
  rw [List.drop_append_of_le_length (by rw [combinedLine_left_length]; exact Nat.le_refl _)]
  rw [List.drop_of_length_le (by rw [combinedLine_left_length]; exact Nat.le_refl _)]
  rfl

omit [DecidableEq α] in
theorem combinedLine_length (left right : List (List α)) (gap i : Nat) :
    (combinedLine cx left right gap i).length = maxLineLen left + gap + (right.getD i []).length := by
  unfold combinedLine
  rw [List.length_append, combinedLine_left_length]

end
/-! ## sums over an initial segment of ℕ -/

/-- `Σ_{i<n} f i` -/
def sumTo (f : Nat → Int) : Nat → Int
  | 0 => 0
  | n + 1 => sumTo f n + f n

theorem sumTo_congr {f g : Nat → Int} : ∀ (n : Nat), (∀ i, i < n → f i = g i) → sumTo f n = sumTo g n
  | 0, _ => rfl
  | n + 1, h => by
    rw [sumTo, sumTo, sumTo_congr n (fun i hi => h i (by omega)), h n (by omega)]

theorem sumTo_add (f g : Nat → Int) : ∀ (n : Nat),
    sumTo (fun i => f i + g i) n = sumTo f n + sumTo g n
  | 0 => rfl
  | n + 1 => by
    simp only [sumTo, sumTo_add f g n]
    omega

theorem sumTo_const (c : Int) : ∀ (n : Nat), sumTo (fun _ => c) n = n * c
  | 0 => by simp [sumTo]
  | n + 1 => by
    simp only [sumTo, sumTo_const c n, Int.natCast_add, Int.natCast_one, Int.add_mul, Int.one_mul]

theorem sumTo_add_const (f : Nat → Int) (c : Int) (n : Nat) :
    sumTo (fun i => f i + c) n = sumTo f n + n * c := by
  rw [sumTo_add f (fun _ => c) n, sumTo_const]

theorem sumTo_nonneg {f : Nat → Int} : ∀ (n : Nat), (∀ i, i < n → 0 ≤ f i) → 0 ≤ sumTo f n
  | 0, _ => Int.le_refl _
  | n + 1, h => by
    have := sumTo_nonneg n (fun i hi => h i (by omega))
    have := h n (by omega)
    simp only [sumTo]
    omega

/-- `Σ_{i<k} [i < m] c = min m k * c` -/
theorem sumTo_lt (m c : Int) (h0 : 0 ≤ m) : ∀ (k : Nat),
    sumTo (fun i => if (i : Int) < m then c else 0) k = min m k * c
  | 0 => by
    have : min m ((0 : Nat) : Int) = 0 := by omega
    rw [this, Int.zero_mul]
    rfl
  | k + 1 => by
    simp only [sumTo, sumTo_lt m c h0 k]
    by_cases hk : (k : Int) < m
    · have e1 : min m (k : Int) = k := by omega
      have e2 : min m ((k + 1 : Nat) : Int) = (k : Int) + 1 := by omega
      rw [if_pos hk, e1, e2, Int.add_mul, Int.one_mul]
    · have e1 : min m (k : Int) = m := by omega
      have e2 : min m ((k + 1 : Nat) : Int) = m := by omega
      rw [if_neg hk, e1, e2, Int.add_zero]

/-- the last-column rule of the borderless table: `Σ_{i<k} [i+1<k] 2 = 2 (k-1)` -/
theorem sumTo_notLast (k : Nat) (hk : 0 < k) :
    sumTo (fun i => if i + 1 < k then (2 : Int) else 0) k = 2 * ((k : Int) - 1) := by
  obtain ⟨m, rfl⟩ : ∃ m, k = m + 1 := ⟨k - 1, by omega⟩
  rw [sumTo, if_neg (by omega), sumTo_congr (g := fun _ => (2 : Int)) m
    (fun i hi => by rw [if_pos (by omega)]), sumTo_const]
  omega

theorem foldl_range_add (g : Nat → Int) (s0 : Int) : ∀ (n : Nat),
    (List.range n).foldl (fun s i => s + g i) s0 = s0 + sumTo g n
  | 0 => by simp [sumTo]
  | n + 1 => by
    rw [List.range_succ, List.foldl_append, foldl_range_add g s0 n]
    simp only [List.foldl_cons, List.foldl_nil, sumTo]
    omega

theorem foldl_append_eq {β γ : Type} (g : β → List γ) : ∀ (l : List β) (s : List γ),
    l.foldl (fun acc x => acc ++ g x) s = s ++ (l.map g).flatten
  | [], s => by simp
  | x :: l, s => by
    rw [List.foldl_cons, foldl_append_eq g l, List.map_cons, List.flatten_cons, List.append_assoc]

theorem length_flatten_map_range {γ : Type} (g : Nat → List γ) : ∀ (n : Nat),
    ((((List.range n).map g).flatten.length : Nat) : Int) = sumTo (fun i => ((g i).length : Int)) n
  | 0 => by simp [sumTo]
  | n + 1 => by
    rw [List.range_succ, List.map_append, List.flatten_append, List.length_append, Int.natCast_add,
      length_flatten_map_range g n]
    simp [sumTo]

theorem map_range_getD {β : Type} (l : List β) (d : β) :
    (List.range l.length).map (fun i => l.getD i d) = l := by
  apply List.ext_getElem
  · simp
  · intro i h1 h2
    simp only [List.getElem_map, List.getElem_range, List.getD_eq_getElem?_getD,
      List.getElem?_eq_getElem h2, Option.getD_some]

theorem getD_map_range {β : Type} (f : Nat → β) (d : β) (k i : Nat) (h : i < k) :
    ((List.range k).map f).getD i d = f i := by
  rw [List.getD_eq_getElem?_getD, List.getElem?_eq_getElem (by simpa using h)]
  simp

section
variable {α : Type} [DecidableEq α] (cx : Ctx α)

/-! ## C. table (C16) -/

/-- `AlignLineLeft` pads a text that is no longer than `w` to exactly `w` clusters (whatever its
leading whitespace: it is stripped first, and the padding compensates) -/
theorem alignLeft_length_triv (htriv : ∀ s, cx.ends s = List.range' 1 s.length) (t : List α)
    (w : Int) (h : (t.length : Int) ≤ w) : ((alignLeft cx t w).length : Int) = w := by
  simp only [alignLeft_eq_core]
  unfold alignLeftCore
  simp only
  have hle : (if countLeadingWs cx t > 0 then gSub cx t (countLeadingWs cx t) (gLen cx t) else t).length
      ≤ t.length := by
    split
    · exact gSub_length_le _ _ _
    · exact Nat.le_refl _
  generalize (if countLeadingWs cx t > 0 then gSub cx t (countLeadingWs cx t) (gLen cx t) else t) = e at hle
  rw [gLen_triv cx htriv, gRepeat_single_c, List.length_append, List.length_replicate]
  split <;> omega

/-- in general the result is `max w (stripped length)` long, and the stripped text is no longer
than the text -/
theorem alignLeft_length_ge_triv (htriv : ∀ s, cx.ends s = List.range' 1 s.length) (t : List α)
    (w : Int) : w ≤ ((alignLeft cx t w).length : Int) := by
  simp only [alignLeft_eq_core]
  unfold alignLeftCore
  simp only
  generalize (if countLeadingWs cx t > 0 then gSub cx t (countLeadingWs cx t) (gLen cx t) else t) = e
  rw [gLen_triv cx htriv, gRepeat_single_c, List.length_append, List.length_replicate]
  split <;> omega

/-- `AlignLineCenter` pads a text that is no longer than `w` to exactly `w` clusters -/
theorem alignCenter_length_triv (htriv : ∀ s, cx.ends s = List.range' 1 s.length) (t : List α)
    (w : Int) (h : (t.length : Int) ≤ w) : ((alignCenter cx t w).length : Int) = w := by
  simp only [alignCenter_eq_core]
  unfold alignCenterCore
  simp only
  have hle : (if countTrailingWs cx t > 0 then gSub cx t (countLeadingWs cx t) (-countTrailingWs cx t)
      else gSub cx t (countLeadingWs cx t) (gLen cx t)).length ≤ t.length := by
    split <;> exact gSub_length_le _ _ _
  generalize (if countTrailingWs cx t > 0 then gSub cx t (countLeadingWs cx t) (-countTrailingWs cx t)
      else gSub cx t (countLeadingWs cx t) (gLen cx t)) = e at hle
  rw [gLen_triv cx htriv]
  split
  · omega
  · simp only [gRepeat_single_c, List.length_append, List.length_replicate]
    omega

/-- a three-token character set is split into its three tokens -/
theorem parseTableCharSet_triv (htriv : ∀ s, cx.ends s = List.range' 1 s.length)
    (a b c : α) :
    parseTableCharSet cx [a, b, c] = ⟨[a], [b], [c]⟩ := by
  unfold parseTableCharSet
  simp only [gLen_triv cx htriv, List.length_cons, List.length_nil]
  have h1 := gSub_triv_int cx htriv [a, b, c] 0 1 (by omega) (by omega) (by simp)
  have h2 := gSub_triv_int cx htriv [a, b, c] 1 2 (by omega) (by omega) (by simp)
  have h3 := gSub_triv_int cx htriv [a, b, c] 2 3 (by omega) (by omega) (by simp)
  rw [if_neg (by omega), if_neg (by omega), h1, h2, h3]
  rfl

theorem parseTableCharSet_lengths (htriv : ∀ s, cx.ends s = List.range' 1 s.length)
    (charSet : List α) (h3 : charSet.length = 3) :
    (parseTableCharSet cx charSet).corner.length = 1 ∧
    (parseTableCharSet cx charSet).vert.length = 1 ∧
    (parseTableCharSet cx charSet).horz.length = 1 := by
  match charSet, h3 with
  | [a, b, c], _ =>
    rw [parseTableCharSet_triv cx htriv]
    exact ⟨rfl, rfl, rfl⟩

end
section
variable {α : Type} [DecidableEq α] (cx : Ctx α)

/-- the length of every line of a table with column widths `cws`:
bordered `1 + Σ (w_i + 1)`, borderless `Σ w_i` -/
def tableLineLen (cws : List Int) (border : Bool) : Int :=
  (if border then 1 else 0) + sumTo (fun i => cws.getD i 0 + (if border then 1 else 0)) cws.length

/-- C(i).  A laid-out row is `tableLineLen` long as soon as every cell (unstripped) fits its
column: `|cell| ≤ w` (header or borderless) resp. `|cell| + 1 ≤ w` (bordered body row). -/
theorem tableRow_length (htriv : ∀ s, cx.ends s = List.range' 1 s.length)
    (row : List (List α)) (cws : List Int) (isHeader border : Bool) (chars : TableChars α)
    (hv : chars.vert.length = 1)
    (hcell : ∀ col, col < cws.length →
      ((row.getD col []).length : Int) + (if border && !isHeader then 1 else 0) ≤ cws.getD col 0) :
    ((tableRow cx row cws isHeader border chars).length : Int) = tableLineLen cws border := by
  unfold tableRow tableLineLen
  simp only
  rw [foldl_append_eq, List.length_append, Int.natCast_add, length_flatten_map_range]
  congr 1
  · cases border <;> simp [hv]
  · apply sumTo_congr
    intro col hcol
    have hc := hcell col hcol
    cases border <;> cases isHeader <;>
      simp only [Bool.false_eq_true, if_false, if_true, Bool.and_false, Bool.and_true, Bool.not_true,
        Bool.not_false, Bool.and_self, Int.add_zero, List.length_append, List.length_cons,
        List.length_nil, Int.natCast_add, hv] at hc ⊢
    · exact alignLeft_length_triv cx htriv _ _ hc
    · exact alignLeft_length_triv cx htriv _ _ (by rw [List.length_map]; exact hc)
    · rw [alignLeft_length_triv cx htriv _ _ (by omega)]
      omega
    · rw [alignCenter_length_triv cx htriv _ _ (by rw [List.length_map]; exact hc)]
      rfl

/-- the horizontal bar of a bordered table -/
def tableHorzBar (cws : List Int) (chars : TableChars α) : List α :=
  cws.foldl (fun bar w => bar ++ gRepeat chars.horz w ++ chars.corner) chars.corner

omit [DecidableEq α] in
/-- C(iii).  the horizontal bar is as long as the bordered rows -/
theorem tableHorzBar_length (cws : List Int) (chars : TableChars α)
    (hc : chars.corner.length = 1) (hh : chars.horz.length = 1)
    (hpos : ∀ i, i < cws.length → 0 ≤ cws.getD i 0) :
    ((tableHorzBar cws chars).length : Int) = tableLineLen cws true := by
  unfold tableHorzBar tableLineLen
  simp only [List.append_assoc, if_true]
  conv => lhs; rw [← map_range_getD cws 0]
  rw [List.foldl_map, foldl_append_eq, List.length_append, Int.natCast_add, length_flatten_map_range, hc]
  congr 1
  apply sumTo_congr
  intro i hi
  match hz : chars.horz, hh with
  | [h], _ =>
    rw [gRepeat_single_c, List.length_append, List.length_replicate, hc]
    have := hpos i hi
    omega

end
theorem foldl_step_eq {β γ : Type} (f : List γ → β → List γ) (g : β → List γ)
    (h : ∀ acc x, f acc x = acc ++ g x) : ∀ (l : List β) (s : List γ),
    l.foldl f s = s ++ (l.map g).flatten
  | [], s => by simp
  | x :: l, s => by
    rw [List.foldl_cons, h, foldl_step_eq f g h l, List.map_cons, List.flatten_cons, List.append_assoc]

section
variable {α : Type} [DecidableEq α] (cx : Ctx α)

/-- the lines row `i` contributes to the table: the row itself and, after a header row, the
separator (a horizontal bar if bordered and there are more rows; the break bar if borderless) -/
def tableRowLines (data : List (List (List α))) (cws : List Int) (width : Int)
    (header border : Bool) (chars : TableChars α) (i : Nat) : List (List α) :=
  [tableRow cx (data.getD i []) cws (i == 0 && header) border chars] ++
    (if (i == 0 && header) = true then
      (if border = true then (if data.length > 1 then [tableHorzBar cws chars] else [])
       else [gRepeat chars.horz width])
     else [])

/-- the structure of `buildTable` -/
theorem buildTable_eq (data : List (List (List α))) (cws : List Int) (width : Int)
    (header border : Bool) (chars : TableChars α) :
    buildTable cx data cws width header border chars =
      (if border = true then [tableHorzBar cws chars] else []) ++
      ((List.range data.length).map (tableRowLines cx data cws width header border chars)).flatten ++
      (if border = true then [tableHorzBar cws chars] else []) := by
  unfold buildTable
  simp only
  rw [foldl_step_eq _ (tableRowLines cx data cws width header border chars)]
  · cases border <;> simp [tableHorzBar]
  · intro acc i
    unfold tableRowLines tableHorzBar
    cases border <;> cases header <;> by_cases hi : i = 0 <;> by_cases hd : data.length > 1 <;>
      simp [hi, hd]

end
section
variable {α : Type} [DecidableEq α] (cx : Ctx α)

/-- number of columns: the longest row -/
def tableColCount (data : List (List (List α))) : Nat := data.foldl (fun m r => max m r.length) 0

/-- widest cell (unstripped) of column `col` -/
def colContent (data : List (List (List α))) (col : Nat) : Nat :=
  maxLineLen (data.map fun row => row.getD col [])

/-- content width + padding: 2 for every column of a bordered table, 2 for all but the last
column of a borderless one -/
def padW (data : List (List (List α))) (border : Bool) (i : Nat) : Int :=
  (colContent data i : Int) +
    (if border = true then 2 else if i + 1 < tableColCount data then 2 else 0)

/-- the model's minimum table width -/
def tableMinWidth (data : List (List (List α))) (border : Bool) : Int :=
  (if border = true then 1 else 0) +
    sumTo (fun i => padW data border i + (if border = true then 1 else 0)) (tableColCount data)

/-- the number of columns the extra space is distributed over -/
def numToSpace (data : List (List (List α))) (border : Bool) : Int :=
  if border = false ∧ tableColCount data > 1 then (tableColCount data : Int) - 1
  else (tableColCount data : Int)

/-- final column widths -/
def colW (data : List (List (List α))) (width : Int) (border : Bool) (i : Nat) : Int :=
  let sp := width - tableMinWidth data border
  if sp > 0 then
    if (i : Int) < numToSpace data border then
      padW data border i + sp / numToSpace data border +
        (if (i : Int) < sp % numToSpace data border then 1 else 0)
    else padW data border i
  else padW data border i

def tableColWidths (data : List (List (List α))) (width : Int) (border : Bool) : List Int :=
  (List.range (tableColCount data)).map (colW data width border)

omit [DecidableEq α] in
theorem foldl_contentW (htriv : ∀ s, cx.ends s = List.range' 1 s.length) (col : Nat) :
    ∀ (data : List (List (List α))) (m0 : Nat),
      data.foldl (fun (m : Int) row =>
        let n : Int := gLen cx (row.getD col []); if n ≥ m then n else m) (m0 : Int)
        = ((max m0 (colContent data col) : Nat) : Int)
  | [], m0 => by simp [colContent, maxLineLen_nil]
  | r :: data, m0 => by
    simp only [List.foldl_cons, gLen_triv cx htriv]
    have e : (if ((r.getD col []).length : Int) ≥ (m0 : Int) then ((r.getD col []).length : Int)
        else (m0 : Int)) = ((max m0 (r.getD col []).length : Nat) : Int) := by split <;> omega
    rw [e]
    have ih := foldl_contentW htriv col data (max m0 (r.getD col []).length)
    simp only [gLen_triv cx htriv] at ih
    rw [ih]
    simp only [colContent, List.map_cons, maxLineLen_cons]
    congr 1
    omega

theorem makeTable_eq (htriv : ∀ s, cx.ends s = List.range' 1 s.length)
    (data : List (List (List α))) (width : Int) (header border : Bool) (charSet : List α)
    (hh : (parseTableCharSet cx charSet).horz.length = 1)
    (hd : data ≠ []) (hk : tableColCount data ≠ 0) :
    makeTable cx data width header border charSet =
      buildTable cx data (tableColWidths data width border) (max width (tableMinWidth data border))
        header border (parseTableCharSet cx charSet) := by
  simp only [makeTable_eq_core]
  unfold makeTableCore
  rw [if_neg (by simpa using hd)]
  simp only
  rw [if_neg (by simpa [tableColCount] using hk)]
  have hcw : ∀ col, data.foldl (fun (m : Int) row =>
        let n : Int := gLen cx (row.getD col []); if n ≥ m then n else m) 0
        = (colContent data col : Int) := by
    intro col
    have := foldl_contentW cx htriv col data 0
    simpa using this
  simp only [gLen_triv cx htriv, hh] at hcw ⊢
  simp only [hcw, show ((1 : Nat) : Int) = 1 from rfl]
  rw [show List.foldl (fun m (r : List (List α)) => max m r.length) 0 data = tableColCount data from rfl]
  have hpad : (List.range (tableColCount data)).map (fun i =>
      ((List.range (tableColCount data)).map (fun col => (colContent data col : Int))).getD i 0 +
        (if border = true then 2 else if i + 1 < tableColCount data then 2 else 0))
      = (List.range (tableColCount data)).map (padW data border) := by
    apply List.map_congr_left
    intro i hi
    rw [getD_map_range _ _ _ _ (List.mem_range.1 hi)]
    rfl
  rw [hpad]
  have hmin : List.foldl (fun s w => s + w + if border = true then (1 : Int) else 0)
      (if border = true then 1 else 0) ((List.range (tableColCount data)).map (padW data border))
      = tableMinWidth data border := by
    rw [List.foldl_map]
    simp only [Int.add_assoc]
    rw [foldl_range_add]
    rfl
  rw [hmin]
  split
  · rename_i hsp
    rw [Int.max_eq_left (by omega)]
    congr 1
    apply List.map_congr_left
    intro i hi
    rw [getD_map_range _ _ _ _ (List.mem_range.1 hi)]
    unfold colW numToSpace
    simp only [if_pos hsp, Bool.not_eq_true']
  · rename_i hsp
    rw [Int.max_eq_right (by omega)]
    congr 1
    apply List.map_congr_left
    intro i hi
    unfold colW
    simp only [if_neg hsp]

end
section
variable {α : Type} [DecidableEq α] (cx : Ctx α)

/-- every line of `buildTable` is the horizontal bar (bordered), the break bar (borderless with
header) or a laid-out row -/
theorem mem_buildTable (data : List (List (List α))) (cws : List Int) (width : Int)
    (header border : Bool) (chars : TableChars α) (line : List α)
    (h : line ∈ buildTable cx data cws width header border chars) :
    (border = true ∧ line = tableHorzBar cws chars) ∨
    (header = true ∧ border = false ∧ line = gRepeat chars.horz width) ∨
    ∃ i, i < data.length ∧
      line = tableRow cx (data.getD i []) cws (i == 0 && header) border chars := by
  rw [buildTable_eq] at h
  have hb : line ∈ (if border = true then [tableHorzBar cws chars] else []) →
      border = true ∧ line = tableHorzBar cws chars := by
    intro h
    split at h
    · exact ⟨‹_›, List.mem_singleton.1 h⟩
    · simp at h
  rcases List.mem_append.1 h with h | h
  · rcases List.mem_append.1 h with h | h
    · exact .inl (hb h)
    · obtain ⟨ls, hls, hl⟩ := List.mem_flatten.1 h
      obtain ⟨i, hi, rfl⟩ := List.mem_map.1 hls
      have hi := List.mem_range.1 hi
      unfold tableRowLines at hl
      rcases List.mem_append.1 hl with hl | hl
      · exact .inr (.inr ⟨i, hi, List.mem_singleton.1 hl⟩)
      · split at hl
        · rename_i hih
          have hhd : header = true := by simp at hih; exact hih.2
          split at hl
          · split at hl
            · exact .inl ⟨‹_›, List.mem_singleton.1 hl⟩
            · simp at hl
          · rename_i hnb
            exact .inr (.inl ⟨hhd, by simpa using hnb, List.mem_singleton.1 hl⟩)
        · simp at hl
  · exact .inl (hb h)

/-- C(iii)+(i) assembled at `buildTable` level: all lines have the same length -/
theorem buildTable_rect (htriv : ∀ s, cx.ends s = List.range' 1 s.length)
    (data : List (List (List α))) (cws : List Int) (width : Int)
    (header border : Bool) (chars : TableChars α)
    (hc : chars.corner.length = 1) (hv : chars.vert.length = 1) (hh : chars.horz.length = 1)
    (hpos : ∀ i, i < cws.length → 0 ≤ cws.getD i 0)
    (hcell : ∀ i, i < data.length → ∀ col, col < cws.length →
      (((data.getD i []).getD col []).length : Int) + (if border = true then 1 else 0) ≤ cws.getD col 0)
    (hw : header = true → border = false → width = tableLineLen cws false) :
    ∀ line ∈ buildTable cx data cws width header border chars,
      (line.length : Int) = tableLineLen cws border := by
  intro line hl
  rcases mem_buildTable cx data cws width header border chars line hl with
    ⟨hb, rfl⟩ | ⟨hhd, hb, rfl⟩ | ⟨i, hi, rfl⟩
  · rw [hb]
    exact tableHorzBar_length cws chars hc hh hpos
  · match hz : chars.horz, hh with
    | [h], _ =>
      rw [gRepeat_single_c, List.length_replicate, hb, hw hhd hb]
      have : 0 ≤ tableLineLen cws false := by
        unfold tableLineLen
        have := sumTo_nonneg (f := fun i => cws.getD i 0 + (if false = true then 1 else 0)) cws.length
          (fun i hi => by have := hpos i hi; simp only [Bool.false_eq_true, if_false]; omega)
        simp only [Bool.false_eq_true, if_false] at this ⊢
        omega
      omega
  · apply tableRow_length cx htriv _ _ _ _ _ hv
    intro col hcol
    have := hcell i hi col hcol
    cases border <;> cases (i == 0 && header) <;> simp at this ⊢ <;> omega

end
section
variable {α : Type} [DecidableEq α] (cx : Ctx α)

/-- the number of lines of `buildTable` -/
theorem buildTable_length (data : List (List (List α))) (cws : List Int) (width : Int)
    (header border : Bool) (chars : TableChars α) :
    (buildTable cx data cws width header border chars).length =
      data.length + (if border = true then 2 else 0) +
        (if header = true ∧ 0 < data.length then
          (if border = true then (if data.length > 1 then 1 else 0) else 1) else 0) := by
  rw [buildTable_eq]
  have key : ((((List.range data.length).map
      (tableRowLines cx data cws width header border chars)).flatten.length : Nat) : Int) =
      data.length + (if header = true ∧ 0 < data.length then
          (if border = true then (if data.length > 1 then 1 else 0) else 1) else 0 : Nat) := by
    rw [length_flatten_map_range]
    rw [sumTo_congr (g := fun i => (1 : Int) + (if (i : Int) < 1 then
      (if header = true then
        (if border = true then (if data.length > 1 then 1 else 0) else 1) else 0) else 0)) _
      (fun i hi => by
        unfold tableRowLines
        by_cases h0 : i = 0 <;> cases header <;> cases border <;>
          by_cases hd : data.length > 1 <;> simp [h0, hd] <;> omega)]
    rw [sumTo_add, sumTo_const, sumTo_lt _ _ (by omega)]
    by_cases hd0 : 0 < data.length
    · have : min (1 : Int) (data.length : Int) = 1 := by omega
      rw [this]
      cases header <;> cases border <;> by_cases hd : data.length > 1 <;> simp [hd, hd0]
    · have h0 : data.length = 0 := by omega
      have : min (1 : Int) (data.length : Int) = 0 := by omega
      rw [this]
      simp [h0]
  simp only [List.length_append]
  cases border <;> simp only [Bool.false_eq_true, if_false, if_true, List.length_nil,
    List.length_cons] at key ⊢ <;> omega

end
section
variable {α : Type} [DecidableEq α] (cx : Ctx α)

omit [DecidableEq α] in
theorem foldl_colCount : ∀ (data : List (List (List α))) (m0 : Nat),
    data.foldl (fun m r => max m r.length) m0 = max m0 (maxLineLen data)
  | [], m0 => by simp [maxLineLen_nil]
  | r :: data, m0 => by
    rw [List.foldl_cons, foldl_colCount data, maxLineLen_cons]
    omega

omit [DecidableEq α] in
/-- the column count is the length of the longest row -/
theorem tableColCount_eq (data : List (List (List α))) : tableColCount data = maxLineLen data := by
  unfold tableColCount
  rw [foldl_colCount]
  omega

omit [DecidableEq α] in
theorem tableColCount_eq_zero_iff (data : List (List (List α))) :
    tableColCount data = 0 ↔ ∀ r ∈ data, r = [] := by
  rw [tableColCount_eq]
  constructor
  · intro h r hr
    have := le_maxLineLen data r hr
    exact List.eq_nil_of_length_eq_zero (by omega)
  · intro h
    have := maxLineLen_le 0 data (fun r hr => by rw [h r hr]; exact Nat.le_refl _)
    omega

/-- empty data gives no lines -/
theorem makeTable_nil (width : Int) (header border : Bool) (charSet : List α) :
    makeTable cx [] width header border charSet = [] := rfl

/-- data consisting of empty rows only gives no lines -/
theorem makeTable_of_rows_empty (data : List (List (List α))) (width : Int) (header border : Bool)
    (charSet : List α) (h : ∀ r ∈ data, r = []) :
    makeTable cx data width header border charSet = [] := by
  have hk := (tableColCount_eq_zero_iff data).2 h
  simp only [makeTable_eq_core]
  unfold makeTableCore
  split
  · rfl
  · simp only
    rw [if_pos (by simpa [tableColCount] using hk)]

/-- the number of lines of the table -/
theorem makeTable_length (data : List (List (List α))) (width : Int) (header border : Bool)
    (charSet : List α) (hd : data ≠ []) (hk : tableColCount data ≠ 0) :
    (makeTable cx data width header border charSet).length =
      data.length + (if border = true then 2 else 0) +
        (if header = true then
          (if border = true then (if data.length > 1 then 1 else 0) else 1) else 0) := by
  have hpos : 0 < data.length := List.length_pos_iff.2 hd
  simp only [makeTable_eq_core]
  unfold makeTableCore
  rw [if_neg (by simpa using hd)]
  simp only
  rw [if_neg (by simpa [tableColCount] using hk)]
  rw [apply_ite List.length, buildTable_length, buildTable_length, ite_self]
  simp [hpos]

omit [DecidableEq α] in
/-- C(ii).  every cell (unstripped) is at most as long as the content width of its column -/
theorem cell_le_colContent (data : List (List (List α))) (i col : Nat) (hi : i < data.length) :
    ((data.getD i []).getD col []).length ≤ colContent data col := by
  unfold colContent
  apply le_maxLineLen
  refine List.mem_map.2 ⟨data.getD i [], ?_, rfl⟩
  rw [List.getD_eq_getElem?_getD, List.getElem?_eq_getElem hi, Option.getD_some]
  exact List.getElem_mem hi

omit [DecidableEq α] in
theorem numToSpace_bounds (data : List (List (List α))) (border : Bool) (hk : tableColCount data ≠ 0) :
    1 ≤ numToSpace data border ∧ numToSpace data border ≤ tableColCount data := by
  unfold numToSpace
  split <;> omega

omit [DecidableEq α] in
theorem padW_le_colW (data : List (List (List α))) (width : Int) (border : Bool) (i : Nat)
    (hk : tableColCount data ≠ 0) :
    padW data border i ≤ colW data width border i := by
  have hn := numToSpace_bounds data border hk
  unfold colW
  simp only
  split
  · rename_i hsp
    split
    · have h1 : 0 ≤ (width - tableMinWidth data border) / numToSpace data border :=
        Int.ediv_nonneg (by omega) (by omega)
      split <;> omega
    · exact Int.le_refl _
  · exact Int.le_refl _

omit [DecidableEq α] in
/-- C(ii).  the final column widths dominate the cells: content + 2 when bordered -/
theorem cell_le_colW (data : List (List (List α))) (width : Int) (border : Bool) (i col : Nat)
    (hi : i < data.length) (hk : tableColCount data ≠ 0) :
    (((data.getD i []).getD col []).length : Int) + (if border = true then 2 else 0)
      ≤ colW data width border col := by
  have h1 := cell_le_colContent data i col hi
  have h2 := padW_le_colW data width border col hk
  unfold padW at h2
  cases border <;> simp only [Bool.false_eq_true, if_false, if_true] at h2 ⊢
  · split at h2 <;> omega
  · omega

omit [DecidableEq α] in
/-- the extra space is distributed completely: the final widths add up to the target width -/
theorem sumTo_colW (data : List (List (List α))) (width : Int) (border : Bool)
    (hk : tableColCount data ≠ 0) :
    (if border = true then 1 else 0) +
      sumTo (fun i => colW data width border i + (if border = true then 1 else 0)) (tableColCount data)
      = max width (tableMinWidth data border) := by
  have hn := numToSpace_bounds data border hk
  by_cases hsp : width - tableMinWidth data border > 0
  · rw [Int.max_eq_left (by omega)]
    have hmod0 := Int.emod_nonneg (width - tableMinWidth data border)
      (b := numToSpace data border) (by omega)
    have hmod1 := Int.emod_lt_of_pos (width - tableMinWidth data border)
      (b := numToSpace data border) (by omega)
    rw [sumTo_congr (g := fun i => (padW data border i + (if border = true then 1 else 0)) +
      ((if (i : Int) < numToSpace data border then
          (width - tableMinWidth data border) / numToSpace data border else 0) +
       (if (i : Int) < (width - tableMinWidth data border) % numToSpace data border then 1 else 0))) _
      (fun i _ => by
        unfold colW
        simp only [if_pos hsp]
        by_cases hin : (i : Int) < numToSpace data border
        · simp only [if_pos hin]; omega
        · have hir : ¬ (i : Int) < (width - tableMinWidth data border) % numToSpace data border := by
            omega
          simp only [if_neg hin, if_neg hir]; omega)]
    rw [sumTo_add (fun i => padW data border i + (if border = true then 1 else 0)),
      sumTo_add (fun i => if (i : Int) < numToSpace data border then
          (width - tableMinWidth data border) / numToSpace data border else 0),
      sumTo_lt _ _ (by omega), sumTo_lt _ _ hmod0]
    have e1 : min (numToSpace data border) (tableColCount data : Int) = numToSpace data border := by
      omega
    have e2 : min ((width - tableMinWidth data border) % numToSpace data border)
        (tableColCount data : Int) = (width - tableMinWidth data border) % numToSpace data border := by
      omega
    rw [e1, e2, Int.mul_one]
    have := Int.mul_ediv_add_emod (width - tableMinWidth data border) (numToSpace data border)
    have hm : tableMinWidth data border = (if border = true then 1 else 0) +
      sumTo (fun i => padW data border i + (if border = true then 1 else 0)) (tableColCount data) := rfl
    omega
  · rw [Int.max_eq_right (by omega)]
    rw [sumTo_congr (g := fun i => padW data border i + (if border = true then 1 else 0)) _
      (fun i _ => by unfold colW; simp only [if_neg hsp])]
    rfl

omit [DecidableEq α] in
theorem tableLineLen_colWidths (data : List (List (List α))) (width : Int) (border : Bool)
    (hk : tableColCount data ≠ 0) :
    tableLineLen (tableColWidths data width border) border = max width (tableMinWidth data border) := by
  rw [← sumTo_colW data width border hk]
  unfold tableLineLen tableColWidths
  rw [List.length_map, List.length_range]
  congr 1
  apply sumTo_congr
  intro i hi
  rw [getD_map_range _ _ _ _ hi]

/-- C (C16).  Rectangularity: every line of the table has the same length,
`max width minTableWidth`. -/
theorem makeTable_rect (htriv : ∀ s, cx.ends s = List.range' 1 s.length)
    (data : List (List (List α))) (width : Int) (header border : Bool) (charSet : List α)
    (h3 : charSet.length = 3) :
    ∀ line ∈ makeTable cx data width header border charSet,
      (line.length : Int) = max width (tableMinWidth data border) := by
  by_cases hd : data = []
  · subst hd; intro line hl; simp [makeTable_nil] at hl
  by_cases hk : tableColCount data = 0
  · rw [makeTable_of_rows_empty cx data width header border charSet
      ((tableColCount_eq_zero_iff data).1 hk)]
    intro line hl; simp at hl
  obtain ⟨hc, hv, hh⟩ := parseTableCharSet_lengths cx htriv charSet h3
  rw [makeTable_eq cx htriv data width header border charSet hh hd hk]
  rw [← tableLineLen_colWidths data width border hk]
  have hlen : (tableColWidths data width border).length = tableColCount data := by
    simp [tableColWidths]
  have hpos0 : 0 < data.length := List.length_pos_iff.2 hd
  apply buildTable_rect cx htriv data _ _ header border _ hc hv hh
  · intro i hi
    rw [hlen] at hi
    unfold tableColWidths
    rw [getD_map_range _ _ _ _ hi]
    have := cell_le_colW data width border 0 i hpos0 hk
    split at this <;> omega
  · intro i hi col hcol
    rw [hlen] at hcol
    unfold tableColWidths
    rw [getD_map_range _ _ _ _ hcol]
    have := cell_le_colW data width border i col hi hk
    split at this
    · rw [if_pos ‹_›]; omega
    · rw [if_neg ‹_›]; omega
  · intro _ hb
    rw [tableLineLen_colWidths data width border hk, hb]
    have := tableLineLen_colWidths data width false hk
    rw [this]

end
section
variable {α : Type}

/-- bordered: `1 + Σ (content_i + 2 + 1)` -/
theorem tableMinWidth_border (data : List (List (List α))) :
    tableMinWidth data true =
      1 + sumTo (fun i => (colContent data i : Int) + 2 + 1) (tableColCount data) := by
  unfold tableMinWidth padW
  simp only [if_true]

/-- borderless: `Σ content_i + 2 (k - 1)` -/
theorem tableMinWidth_noBorder (data : List (List (List α))) (hk : tableColCount data ≠ 0) :
    tableMinWidth data false =
      sumTo (fun i => (colContent data i : Int)) (tableColCount data) +
        2 * ((tableColCount data : Int) - 1) := by
  unfold tableMinWidth padW
  simp only [Bool.false_eq_true, if_false, Int.add_zero, Int.zero_add]
  rw [sumTo_add, sumTo_notLast _ (by omega)]

end
section
variable {α : Type} [DecidableEq α] (cx : Ctx α)

/-! ## B. two columns (C14) -/

/-- the wrapped lines of a column at cluster level -/
def colLines (text : List α) (w : Int) (sep : List α) : List (List α) :=
  Spec.wrapLines ⟨cx.isSpace, cx.sp, cx.hy⟩ w.toNat (replaceAll' cx text sep)

theorem wrapLines_colLines (htriv : ∀ s, cx.ends s = List.range' 1 s.length)
    (hsp : cx.isSpace cx.sp = true) (text : List α) (w : Int) (hw : 2 ≤ w) (sep : List α) :
    wrapLines cx text w sep = .ok (colLines cx text w sep) := by
  rw [wrapLines_triv cx htriv hsp, Int.max_eq_left hw]
  rfl

theorem colLines_width (text : List α) (w : Int) (hw : 2 ≤ w) (sep : List α) :
    ∀ l ∈ colLines cx text w sep, (l.length : Int) ≤ w := by
  intro l hl
  have := Spec.wrapLines_width ⟨cx.isSpace, cx.sp, cx.hy⟩ (w := w.toNat) (by omega) _ l hl
  omega

/-- line `i` of the two-column block: the `i`-th wrapped left line padded to `leftW + msb`
clusters, then the `i`-th wrapped right line -/
def twoColLine (leftText rightText : List α) (msb leftW rightW : Int) (sep : List α) (i : Nat) :
    List α :=
  (colLines cx leftText leftW sep).getD i [] ++
    List.replicate ((leftW + msb).toNat - ((colLines cx leftText leftW sep).getD i []).length) cx.sp ++
    (colLines cx rightText rightW sep).getD i []

/-- the lines of the block that `InsertTwoColumnsOpts` hands to `Insert` -/
def twoColLines (leftText rightText : List α) (msb leftW rightW : Int) (sep : List α) :
    List (List α) :=
  (List.range (max (colLines cx leftText leftW sep).length (colLines cx rightText rightW sep).length)).map
    (twoColLine cx leftText rightText msb leftW rightW sep)

/-- B.  at cluster level the body of `InsertTwoColumnsOpts` inserts exactly `twoColLines` -/
theorem twoColBody_triv (htriv : ∀ s, cx.ends s = List.range' 1 s.length)
    (hsp : cx.isSpace cx.sp = true) (ed : Editor α) (pos : Int) (leftText rightText : List α)
    (msb leftW rightW : Int) (o : Options α) (hmsb : 0 ≤ msb) (hL : 2 ≤ leftW) (hR : 2 ≤ rightW) :
    twoColBody cx ed pos leftText rightText msb leftW rightW o =
      ed.insert cx pos (Block.mk
        (twoColLines cx leftText rightText msb leftW rightW (o.withDefaults cx).lineSep)
        (o.withDefaults cx).lineSep (!(o.withDefaults cx).noTrailing)).join := by
  unfold twoColBody
  simp only
  rw [wrapLines_colLines cx htriv hsp _ _ hL, ok_bind, wrapLines_colLines cx htriv hsp _ _ hR, ok_bind,
    foldl_maxLen_triv0 cx htriv]
  generalize hsepd : (o.withDefaults cx).lineSep = sep
  have hmax : (maxLineLen (colLines cx leftText leftW sep) : Int) ≤ leftW := by
    have := maxLineLen_le leftW.toNat (colLines cx leftText leftW sep) (fun l hl => by
      have := colLines_width cx leftText leftW hL sep l hl
      omega)
    omega
  rw [combineColumns_triv cx htriv _ _ _ (by omega), ok_bind]
  congr 3
  unfold twoColLines
  apply List.map_congr_left
  intro i _
  unfold combinedLine twoColLine
  congr 3
  omega

/-- B.  `InsertTwoColumnsOpts` at cluster level: the column widths are at least 2, they and the
gap add up to the clamped total width `max width (msb + 4)`, and the inserted block consists of
the lines `twoColLines` -/
theorem insertTwoColumnsOpts_triv (htriv : ∀ s, cx.ends s = List.range' 1 s.length)
    (hsp : cx.isSpace cx.sp = true) (ed : Editor α)
    (pos : Int) (leftText rightText : List α) (msb width : Int) (pct : Pct) (o : Options α)
    (hne : ¬(leftText.isEmpty ∧ rightText.isEmpty)) (hmsb : 0 ≤ msb) :
    ∃ leftW rightW : Int, 2 ≤ leftW ∧ 2 ≤ rightW ∧ leftW + msb + rightW = max width (msb + 4) ∧
      ed.insertTwoColumnsOpts cx pos leftText rightText msb width pct o =
        ed.insert cx pos (Block.mk
          (twoColLines cx leftText rightText msb leftW rightW (o.withDefaults cx).lineSep)
          (o.withDefaults cx).lineSep (!(o.withDefaults cx).noTrailing)).join := by
  unfold Editor.insertTwoColumnsOpts
  rw [if_neg hne]
  generalize (if pct.neg = true ∨ (pct.num == 0) = true then ((0 : Nat), (0 : Nat))
    else if pct.num > 2 ^ pct.exp then (1, 0) else (pct.num, pct.exp)) = ne
  obtain ⟨num, exp⟩ := ne
  simp only
  have hm0 : (if msb < 0 then 0 else msb) = msb := if_neg (by omega)
  simp only [hm0]
  have hW : (if width < msb + 2 + 2 then msb + 2 + 2 else width) = max width (msb + 4) := by
    split <;> omega
  rw [hW]
  generalize max width (msb + 4) = W at *
  have hW4 : msb + 4 ≤ W := by omega
  generalize ((mulRoundTrunc (W - msb).toNat num exp : Nat) : Int) = m
  have hLb : 2 ≤ (if (if m < 2 then 2 else m) > W - msb - 2 then W - msb - 2
      else if m < 2 then 2 else m) ∧
      (if (if m < 2 then 2 else m) > W - msb - 2 then W - msb - 2
      else if m < 2 then 2 else m) ≤ W - msb - 2 := by
    repeat' split
    all_goals omega
  generalize (if (if m < 2 then 2 else m) > W - msb - 2 then W - msb - 2
      else if m < 2 then 2 else m) = L at hLb ⊢
  refine ⟨L, W - msb - L, hLb.1, by omega, by omega, ?_⟩
  rw [if_neg (by omega)]
  exact twoColBody_triv cx htriv hsp ed pos leftText rightText msb L (W - msb - L) o hmsb hLb.1
    (by omega)

end
section
variable {α : Type} [DecidableEq α] (cx : Ctx α)

theorem twoColLines_length (leftText rightText : List α) (msb leftW rightW : Int) (sep : List α) :
    (twoColLines cx leftText rightText msb leftW rightW sep).length =
      max (colLines cx leftText leftW sep).length (colLines cx rightText rightW sep).length := by
  simp [twoColLines]

theorem twoColLines_getElem (leftText rightText : List α) (msb leftW rightW : Int) (sep : List α)
    (i : Nat) (hi : i < (twoColLines cx leftText rightText msb leftW rightW sep).length) :
    (twoColLines cx leftText rightText msb leftW rightW sep)[i] =
      twoColLine cx leftText rightText msb leftW rightW sep i := by
  simp [twoColLines]

/-- the left part (wrapped left line + padding) of every line is exactly `leftW + msb` long … -/
theorem twoColLine_left_length (leftText : List α) (msb leftW : Int) (sep : List α)
    (hmsb : 0 ≤ msb) (hL : 2 ≤ leftW) (i : Nat) :
    ((colLines cx leftText leftW sep).getD i [] ++
      List.replicate ((leftW + msb).toNat - ((colLines cx leftText leftW sep).getD i []).length)
        cx.sp).length = (leftW + msb).toNat := by
  have h1 := getD_length_le_maxLineLen (colLines cx leftText leftW sep) i
  have h2 := maxLineLen_le leftW.toNat (colLines cx leftText leftW sep) (fun l hl => by
      have := colLines_width cx leftText leftW hL sep l hl
      omega)
  simp only [List.length_append, List.length_replicate]
  omega

/-- … so the right column starts at offset `leftW + msb` on every line -/
theorem twoColLine_take (leftText rightText : List α) (msb leftW rightW : Int) (sep : List α)
    (hmsb : 0 ≤ msb) (hL : 2 ≤ leftW) (i : Nat) :
    (twoColLine cx leftText rightText msb leftW rightW sep i).take (leftW + msb).toNat =
      (colLines cx leftText leftW sep).getD i [] ++
      List.replicate ((leftW + msb).toNat - ((colLines cx leftText leftW sep).getD i []).length)
        cx.sp := by
  have hl := twoColLine_left_length cx leftText msb leftW sep hmsb hL i
  unfold twoColLine
  rw [List.take_append_of_le_length (by rw [hl]; exact Nat.le_refl _)]
  exact List.take_of_length_le (by rw [hl]; exact Nat.le_refl _)

theorem twoColLine_drop (leftText rightText : List α) (msb leftW rightW : Int) (sep : List α)
    (hmsb : 0 ≤ msb) (hL : 2 ≤ leftW) (i : Nat) :
    (twoColLine cx leftText rightText msb leftW rightW sep i).drop (leftW + msb).toNat =
      (colLines cx rightText rightW sep).getD i [] := by
  have hl := twoColLine_left_length cx leftText msb leftW sep hmsb hL i
  unfold twoColLine
  rw [List.drop_append_of_le_length (by rw [hl]; exact Nat.le_refl _),
    List.drop_of_length_le (by rw [hl]; exact Nat.le_refl _)]
  rfl

theorem twoColLine_length (leftText rightText : List α) (msb leftW rightW : Int) (sep : List α)
    (hmsb : 0 ≤ msb) (hL : 2 ≤ leftW) (i : Nat) :
    (twoColLine cx leftText rightText msb leftW rightW sep i).length =
      (leftW + msb).toNat + ((colLines cx rightText rightW sep).getD i []).length := by
  have hl := twoColLine_left_length cx leftText msb leftW sep hmsb hL i
  unfold twoColLine
  rw [List.length_append, hl]

/-- B.  no line of the two-column block is longer than `leftW + msb + rightW` -/
theorem twoColLines_width (leftText rightText : List α) (msb leftW rightW : Int) (sep : List α)
    (hmsb : 0 ≤ msb) (hL : 2 ≤ leftW) (hR : 2 ≤ rightW) :
    ∀ line ∈ twoColLines cx leftText rightText msb leftW rightW sep,
      (line.length : Int) ≤ leftW + msb + rightW := by
  intro line hl
  obtain ⟨i, -, rfl⟩ := List.mem_map.1 hl
  rw [twoColLine_length cx _ _ _ _ _ _ hmsb hL]
  have h1 := getD_length_le_maxLineLen (colLines cx rightText rightW sep) i
  have h2 := maxLineLen_le rightW.toNat (colLines cx rightText rightW sep) (fun l hl => by
      have := colLines_width cx rightText rightW hR sep l hl
      omega)
  omega

/-- B (C14).  `InsertTwoColumnsOpts` at cluster level, everything together: the inserted block
has lines `pad (leftW + msb) wl[i] ++ wr[i]`, none longer than the clamped width
`max width (msb + 4)` -/
theorem insertTwoColumnsOpts_triv_width (htriv : ∀ s, cx.ends s = List.range' 1 s.length)
    (hsp : cx.isSpace cx.sp = true) (ed : Editor α)
    (pos : Int) (leftText rightText : List α) (msb width : Int) (pct : Pct) (o : Options α)
    (hne : ¬(leftText.isEmpty ∧ rightText.isEmpty)) (hmsb : 0 ≤ msb) :
    ∃ (leftW rightW : Int) (ls : List (List α)), 2 ≤ leftW ∧ 2 ≤ rightW ∧
      leftW + msb + rightW = max width (msb + 4) ∧
      ed.insertTwoColumnsOpts cx pos leftText rightText msb width pct o =
        ed.insert cx pos (Block.mk ls (o.withDefaults cx).lineSep
          (!(o.withDefaults cx).noTrailing)).join ∧
      ls.length = max (colLines cx leftText leftW (o.withDefaults cx).lineSep).length
        (colLines cx rightText rightW (o.withDefaults cx).lineSep).length ∧
      (∀ line ∈ ls, (line.length : Int) ≤ max width (msb + 4)) ∧
      ∀ (i : Nat) (hi : i < ls.length),
        ls[i] = (colLines cx leftText leftW (o.withDefaults cx).lineSep).getD i [] ++
          List.replicate ((leftW + msb).toNat -
            ((colLines cx leftText leftW (o.withDefaults cx).lineSep).getD i []).length) cx.sp ++
          (colLines cx rightText rightW (o.withDefaults cx).lineSep).getD i [] ∧
        (ls[i].take (leftW + msb).toNat).length = (leftW + msb).toNat ∧
        ls[i].drop (leftW + msb).toNat =
          (colLines cx rightText rightW (o.withDefaults cx).lineSep).getD i [] := by
  obtain ⟨L, Rw, hL, hR, hsum, heq⟩ :=
    insertTwoColumnsOpts_triv cx htriv hsp ed pos leftText rightText msb width pct o hne hmsb
  refine ⟨L, Rw, _, hL, hR, hsum, heq, twoColLines_length cx _ _ _ _ _ _, ?_, ?_⟩
  · intro line hl
    rw [← hsum]
    exact twoColLines_width cx _ _ _ _ _ _ hmsb hL hR line hl
  · intro i hi
    rw [twoColLines_getElem cx _ _ _ _ _ _ i hi]
    refine ⟨rfl, ?_, twoColLine_drop cx _ _ _ _ _ _ hmsb hL i⟩
    rw [twoColLine_take cx _ _ _ _ _ _ hmsb hL i]
    exact twoColLine_left_length cx leftText msb L _ hmsb hL i

end
section
variable {α : Type} [DecidableEq α] (cx : Ctx α)

/-! ## D. definitions table (C15) -/

/-- the right column of one definition: the wrapped text, first line prefixed by `- `, the others
by two spaces -/
def defRightCol (rc : List (List α)) : List (List α) :=
  (List.range rc.length).map fun i =>
    (if i == 0 then [cx.hy, cx.sp] else [cx.sp, cx.sp]) ++ rc.getD i []

/-- the lines of one definition paragraph: term column of width `T + 2`, gap 2, `- ` / 2-space
prefix, wrapped definition.  The definition text starts at column `T + 6` on every line. -/
def defParaLines (T : Nat) (term : List α) (rc : List (List α)) : List (List α) :=
  (List.range (max 1 rc.length)).map fun i =>
    (if i = 0 then [cx.sp, cx.sp] ++ term ++ List.replicate (T - term.length) cx.sp ++ [cx.sp, cx.sp]
     else List.replicate (T + 4) cx.sp) ++ (defRightCol cx rc).getD i []

/-- the wrapped lines of a definition as the model uses them: a definition that wraps to NO lines
(whitespace only) is treated like the empty definition, which wraps to one empty line, so that it
still gets its `- ` marker -/
def defRc (rc : List (List α)) : List (List α) := if rc.isEmpty then [[]] else rc

omit [DecidableEq α] in
theorem defRc_nil : defRc ([] : List (List α)) = [[]] := rfl

omit [DecidableEq α] in
theorem defRc_of_ne_nil (rc : List (List α)) (h : rc ≠ []) : defRc rc = rc := by
  cases rc with
  | nil => exact absurd rfl h
  | cons a t => rfl

omit [DecidableEq α] in
theorem defRc_ne_nil (rc : List (List α)) : defRc rc ≠ [] := by
  cases rc with
  | nil => simp [defRc]
  | cons a t => simp [defRc]

omit [DecidableEq α] in
theorem defRc_length_pos (rc : List (List α)) : 0 < (defRc rc).length :=
  List.length_pos_iff.2 (defRc_ne_nil rc)

omit [DecidableEq α] in
theorem defRc_length (rc : List (List α)) : (defRc rc).length = max 1 rc.length := by
  cases rc with
  | nil => rfl
  | cons a t => simp [defRc]

omit [DecidableEq α] in
theorem defRc_idem (rc : List (List α)) : defRc (defRc rc) = defRc rc :=
  defRc_of_ne_nil _ (defRc_ne_nil rc)

theorem defPara_combine (htriv : ∀ s, cx.ends s = List.range' 1 s.length)
    (T : Nat) (term : List α) (hT : term.length ≤ T) (rc : List (List α)) :
    combineColumns cx [[cx.sp, cx.sp] ++ term ++ List.replicate (T - term.length) cx.sp]
      (defRightCol cx rc) 2 = .ok (defParaLines cx T term rc) := by
  rw [combineColumns_triv cx htriv _ _ 2 (by omega)]
  congr 1
  have hlen : (defRightCol cx rc).length = rc.length := by simp [defRightCol]
  have hmax : maxLineLen [[cx.sp, cx.sp] ++ term ++ List.replicate (T - term.length) cx.sp] = T + 2 := by
    simp only [maxLineLen_cons, maxLineLen_nil, List.length_append, List.length_cons, List.length_nil,
      List.length_replicate]
    omega
  unfold defParaLines
  rw [hlen]
  apply List.map_congr_left
  intro i _
  unfold combinedLine
  rw [hmax]
  congr 1
  by_cases hi : i = 0
  · subst hi
    simp only [List.getD_cons_zero, if_true, List.length_append, List.length_cons, List.length_nil,
      List.length_replicate]
    have : T + 2 + (2 : Int).toNat - (0 + 1 + 1 + term.length + (T - term.length)) = 2 := by omega
    rw [this]
    rfl
  · obtain ⟨j, rfl⟩ : ∃ j, i = j + 1 := ⟨i - 1, by omega⟩
    simp only [List.getD_cons_succ, List.getD_nil, List.length_nil, List.nil_append, if_neg hi]
    congr 1

end
theorem foldlM_ok_foldl {β γ : Type} (f : γ → β → R γ) (g : γ → β → γ) :
    ∀ (l : List β) (s : γ), (∀ acc x, x ∈ l → f acc x = .ok (g acc x)) →
      l.foldlM f s = .ok (l.foldl g s)
  | [], s, _ => rfl
  | x :: l, s, h => by
    rw [List.foldlM_cons, h s x (by simp), ok_bind, List.foldl_cons]
    exact foldlM_ok_foldl f g l _ (fun acc y hy => h acc y (by simp [hy]))

section
variable {α : Type} [DecidableEq α] (cx : Ctx α)

theorem defRightCol_getD (rc : List (List α)) (i : Nat) (hi : i < rc.length) :
    (defRightCol cx rc).getD i [] =
      (if i = 0 then [cx.hy, cx.sp] else [cx.sp, cx.sp]) ++ rc.getD i [] := by
  unfold defRightCol
  rw [getD_map_range _ _ _ _ hi]
  by_cases h : i = 0 <;> simp [h]

theorem defParaLines_length (T : Nat) (term : List α) (rc : List (List α)) :
    (defParaLines cx T term rc).length = max 1 rc.length := by
  simp [defParaLines]

/-- D.  first line of a definition paragraph -/
theorem defParaLines_first (T : Nat) (term : List α) (rc : List (List α)) (hrc : rc ≠ [])
    (h0 : 0 < (defParaLines cx T term rc).length) :
    (defParaLines cx T term rc)[0] =
      [cx.sp, cx.sp] ++ term ++ List.replicate (T - term.length) cx.sp ++ [cx.sp, cx.sp] ++
        [cx.hy, cx.sp] ++ rc.getD 0 [] := by
  have : 0 < rc.length := List.length_pos_iff.2 hrc
  simp only [defParaLines, List.getElem_map, List.getElem_range, if_true]
  rw [defRightCol_getD cx rc 0 this]
  simp

/-- D.  continuation lines of a definition paragraph -/
theorem defParaLines_cont (T : Nat) (term : List α) (rc : List (List α)) (i : Nat) (hi0 : 0 < i)
    (hi : i < rc.length) (h : i < (defParaLines cx T term rc).length) :
    (defParaLines cx T term rc)[i] = List.replicate (T + 6) cx.sp ++ rc.getD i [] := by
  simp only [defParaLines, List.getElem_map, List.getElem_range, if_neg (show ¬ i = 0 by omega)]
  rw [defRightCol_getD cx rc i hi, if_neg (by omega)]
  rw [← List.append_assoc]
  congr 1
  rw [show T + 6 = (T + 4) + 2 by omega]
  show List.replicate (T + 4) cx.sp ++ List.replicate 2 cx.sp = _
  rw [List.replicate_append_replicate]

/-- D.  the definition text starts at column `T + 6` on every line of the paragraph -/
theorem defParaLines_drop (T : Nat) (term : List α) (hT : term.length ≤ T) (rc : List (List α))
    (i : Nat) (hi : i < rc.length) (h : i < (defParaLines cx T term rc).length) :
    (defParaLines cx T term rc)[i].drop (T + 6) = rc.getD i [] := by
  by_cases hi0 : i = 0
  · subst hi0
    rw [defParaLines_first cx T term rc (by intro e; subst e; simp at hi)]
    rw [List.drop_append_of_le_length (by simp; omega), List.drop_of_length_le (by simp; omega)]
    rfl
  · rw [defParaLines_cont cx T term rc i (by omega) hi]
    rw [List.drop_append_of_le_length (by simp), List.drop_of_length_le (by simp)]
    rfl

/-- D.  a model paragraph has exactly one line per wrapped line (`defRc` is never empty) -/
theorem defParaLines_defRc_length (T : Nat) (term : List α) (rc : List (List α)) :
    (defParaLines cx T term (defRc rc)).length = (defRc rc).length := by
  have := defRc_length_pos rc
  rw [defParaLines_length]
  omega

/-- D.  with the model's `defRc` the first line of EVERY paragraph carries the `- ` marker -/
theorem defParaLines_defRc_first (T : Nat) (term : List α) (rc : List (List α))
    (h0 : 0 < (defParaLines cx T term (defRc rc)).length) :
    (defParaLines cx T term (defRc rc))[0] =
      [cx.sp, cx.sp] ++ term ++ List.replicate (T - term.length) cx.sp ++ [cx.sp, cx.sp] ++
        [cx.hy, cx.sp] ++ (defRc rc).getD 0 [] :=
  defParaLines_first cx T term (defRc rc) (defRc_ne_nil rc) h0

/-- D.  … and the definition text starts at column `T + 6` on every line of the paragraph -/
theorem defParaLines_defRc_drop (T : Nat) (term : List α) (hT : term.length ≤ T) (rc : List (List α))
    (i : Nat) (hi : i < (defRc rc).length) :
    ((defParaLines cx T term (defRc rc))[i]'(by rw [defParaLines_defRc_length]; exact hi)).drop
      (T + 6) = (defRc rc).getD i [] :=
  defParaLines_drop cx T term hT (defRc rc) i hi _

/-- how `InsertDefinitionsTableOpts` appends a paragraph to the block built so far: its first
line is glued to the last line by the paragraph separator -/
def mergePara (paraSep : List α) (full combined : List (List α)) : List (List α) :=
  match full.isEmpty, combined with
  | false, c0 :: crest =>
    full.set (full.length - 1) (full.getD (full.length - 1) [] ++ paraSep ++ c0) ++ crest
  | _, _ => full ++ combined

theorem mergePara_ne_nil (paraSep : List α) (full combined : List (List α))
    (h : full ≠ [] ∨ combined ≠ []) : mergePara paraSep full combined ≠ [] := by
  cases full with
  | nil =>
    have : combined ≠ [] := by simpa using h
    simpa [mergePara] using this
  | cons a t =>
    cases combined with
    | nil => simp [mergePara]
    | cons c0 crest =>
      intro e
      have := congrArg List.length e
      simp [mergePara] at this

/-- the lines of the definitions table -/
def defTableLines (defs : List (List α × List α)) (width : Int) (lineSep paraSep : List α) :
    List (List α) :=
  let T := maxLineLen (defs.map (·.1))
  defs.foldl (fun full item =>
    mergePara paraSep full (defParaLines cx T item.1
      (defRc (colLines cx item.2 (max (width - ((T : Int) + 2) - 2 - 2) 2) lineSep)))) []

theorem foldl_mergePara_ne_nil (paraSep : List α) (f : List α × List α → List (List α)) :
    ∀ (defs : List (List α × List α)) (full : List (List α)), full ≠ [] →
      defs.foldl (fun full item => mergePara paraSep full (f item)) full ≠ []
  | [], full, h => h
  | d :: defs, full, h => by
    rw [List.foldl_cons]
    exact foldl_mergePara_ne_nil paraSep f defs _ (mergePara_ne_nil _ _ _ (.inl h))

theorem defTableLines_ne_nil (defs : List (List α × List α)) (width : Int) (lineSep paraSep : List α)
    (hne : defs ≠ []) : defTableLines cx defs width lineSep paraSep ≠ [] := by
  unfold defTableLines
  simp only
  match defs, hne with
  | d :: defs, _ =>
    rw [List.foldl_cons]
    apply foldl_mergePara_ne_nil paraSep (fun item => defParaLines cx _ item.1 _)
    apply mergePara_ne_nil
    right
    intro e
    have := congrArg List.length e
    rw [defParaLines_length] at this
    simp at this

end
section
variable {α : Type} [DecidableEq α] (cx : Ctx α)

/-- the longest term, as computed by the model (start value `-1`) -/
theorem foldl_longest_term (htriv : ∀ s, cx.ends s = List.range' 1 s.length)
    (defs : List (List α × List α)) (hne : defs ≠ []) :
    defs.foldl (fun (m : Int) d => if (gLen cx d.1 : Int) > m then (gLen cx d.1 : Int) else m) (-1)
      = (maxLineLen (defs.map (·.1)) : Int) := by
  match defs, hne with
  | d :: rest, _ =>
    simp only [List.foldl_cons, gLen_triv cx htriv, List.map_cons, maxLineLen_cons]
    rw [if_pos (by omega)]
    have := foldl_maxLen_len (rest.map (·.1)) d.1.length
    rw [List.foldl_map] at this
    rw [this]

/-- D (C15).  `InsertDefinitionsTableOpts` at cluster level: the inserted block consists of the
lines `defTableLines` -/
theorem insertDefTableOpts_triv (htriv : ∀ s, cx.ends s = List.range' 1 s.length)
    (hsp : cx.isSpace cx.sp = true) (ed : Editor α) (pos : Int)
    (defs : List (List α × List α)) (width : Int) (o : Options α) (hne : defs ≠ []) :
    ed.insertDefTableOpts cx pos defs width o =
      ed.insert cx pos (Block.mk
        (defTableLines cx defs width (o.withDefaults cx).lineSep (o.withDefaults cx).paraSep)
        (o.withDefaults cx).lineSep (!(o.withDefaults cx).noTrailing)).join := by
  simp only [Editor.insertDefTableOpts_eq_core]
  unfold Editor.insertDefTableOptsCore
  simp only
  rw [foldl_longest_term cx htriv defs hne]
  generalize hT : maxLineLen (defs.map (·.1)) = T
  rw [foldlM_ok_foldl _ (fun full item =>
    mergePara (o.withDefaults cx).paraSep full (defParaLines cx T item.1
      (defRc (colLines cx item.2 (max (width - ((T : Int) + 2) - 2 - 2) 2)
        (o.withDefaults cx).lineSep))))]
  · rw [ok_bind]
    have hnn := defTableLines_ne_nil cx defs width (o.withDefaults cx).lineSep
      (o.withDefaults cx).paraSep hne
    unfold defTableLines at hnn ⊢
    simp only [hT] at hnn ⊢
    rw [if_pos (by simpa using hnn)]
  · intro full item hitem
    have hle : item.1.length ≤ T := by
      rw [← hT]
      exact le_maxLineLen _ _ (List.mem_map.2 ⟨item, hitem, rfl⟩)
    simp only [gLen_triv cx htriv]
    have hc := defPara_combine cx htriv T item.1 hle
      (defRc (colLines cx item.2 (max (width - ((T : Int) + 2) - 2 - 2) 2)
        (o.withDefaults cx).lineSep))
    unfold defRightCol defRc colLines at hc
    unfold defRc colLines
    split
    · rw [repeatStr_single _ _ (by omega), ok_bind, wrapLines_triv cx htriv hsp, ok_bind,
        show ((T : Int) - (item.1.length : Int)).toNat = T - item.1.length by omega, hc, ok_bind]
      generalize defParaLines cx T item.1 _ = comb
      unfold mergePara
      generalize full.isEmpty = b
      cases b <;> cases comb <;> rfl
    · have h0 : T - item.1.length = 0 := by omega
      rw [h0, List.replicate_zero] at hc
      rw [pure_bind, wrapLines_triv cx htriv hsp, ok_bind, hc, ok_bind]
      generalize defParaLines cx T item.1 _ = comb
      unfold mergePara
      generalize full.isEmpty = b
      cases b <;> cases comb <;> rfl

end
section
variable {α : Type} [DecidableEq α]

theorem joinWith_append_cons_c (sep : List α) (l : List (List α)) (x : List α) (r : List (List α)) :
    joinWith sep (l ++ x :: r) = (l.map (· ++ sep)).flatten ++ joinWith sep (x :: r) := by
  induction l with
  | nil => simp
  | cons y t ih =>
    rw [List.cons_append, joinWith_cons_of_ne_nil sep y (by simp), ih]
    simp only [List.map_cons, List.flatten_cons, List.append_assoc]

theorem joinWith_glue (sep x p c0 : List α) (crest : List (List α)) :
    joinWith sep ((x ++ p ++ c0) :: crest) = x ++ p ++ joinWith sep (c0 :: crest) := by
  cases crest with
  | nil => simp
  | cons d t =>
    rw [joinWith_cons_cons, joinWith_cons_cons]
    simp only [List.append_assoc]

/-- gluing a paragraph: in the joined text the paragraph separator stands between the block so
far and the new paragraph -/
theorem joinWith_mergePara (sep paraSep : List α) (full comb : List (List α))
    (hf : full ≠ []) (hc : comb ≠ []) :
    joinWith sep (mergePara paraSep full comb) =
      joinWith sep full ++ paraSep ++ joinWith sep comb := by
  obtain ⟨c0, crest, rfl⟩ : ∃ c0 crest, comb = c0 :: crest := by
    cases comb with
    | nil => exact absurd rfl hc
    | cons a t => exact ⟨a, t, rfl⟩
  have hsplit := eq_dropLast_append_getLastD full [] hf
  generalize full.dropLast = init at hsplit
  generalize full.getLastD [] = last at hsplit
  subst hsplit
  have he : (init ++ [last]).isEmpty = false := by simp
  have hm : mergePara paraSep (init ++ [last]) (c0 :: crest) =
      init ++ (last ++ paraSep ++ c0) :: crest := by
    unfold mergePara
    rw [he]
    simp only [List.length_append, List.length_cons, List.length_nil, Nat.zero_add,
      Nat.add_sub_cancel]
    rw [List.getD_eq_getElem?_getD, List.getElem?_append_right (Nat.le_refl _), Nat.sub_self]
    simp only [List.getElem?_cons_zero, Option.getD_some]
    rw [List.set_append_right _ _ (Nat.le_refl _), Nat.sub_self]
    simp only [List.set_cons_zero, List.append_assoc, List.cons_append, List.nil_append]
  rw [hm, joinWith_append_cons_c, joinWith_glue, joinWith_append_singleton]
  simp only [List.append_assoc]

theorem joinWith_cons_flatten (sep p0 : List α) (ps : List (List α)) :
    joinWith sep (p0 :: ps) = p0 ++ (ps.map (sep ++ ·)).flatten := by
  induction ps generalizing p0 with
  | nil => simp
  | cons q t ih =>
    rw [joinWith_cons_cons, ih q]
    simp only [List.map_cons, List.flatten_cons, List.append_assoc]

theorem foldl_mergePara_join (sep paraSep : List α) (f : List α × List α → List (List α))
    (hf : ∀ d, f d ≠ []) :
    ∀ (defs : List (List α × List α)) (full : List (List α)), full ≠ [] →
      joinWith sep (defs.foldl (fun full item => mergePara paraSep full (f item)) full) =
        joinWith sep full ++ (defs.map (fun d => paraSep ++ joinWith sep (f d))).flatten
  | [], full, _ => by simp
  | d :: defs, full, h => by
    rw [List.foldl_cons, foldl_mergePara_join sep paraSep f hf defs _
      (mergePara_ne_nil _ _ _ (.inl h)), joinWith_mergePara _ _ _ _ h (hf d)]
    simp only [List.map_cons, List.flatten_cons, List.append_assoc]

end
section
variable {α : Type} [DecidableEq α] (cx : Ctx α)

/-- D (C15).  The text of the definitions block (lines joined by the line separator) is the
paragraphs — each the lines `defParaLines` joined by the line separator — joined by the
paragraph separator. -/
theorem defTableLines_join (defs : List (List α × List α)) (width : Int) (lineSep paraSep : List α) :
    joinWith lineSep (defTableLines cx defs width lineSep paraSep) =
      joinWith paraSep (defs.map fun item =>
        joinWith lineSep (defParaLines cx (maxLineLen (defs.map (·.1))) item.1
          (defRc (colLines cx item.2
            (max (width - ((maxLineLen (defs.map (·.1)) : Int) + 2) - 2 - 2) 2) lineSep)))) := by
  unfold defTableLines
  simp only
  generalize maxLineLen (defs.map (·.1)) = T
  have hf : ∀ d : List α × List α, defParaLines cx T d.1
      (defRc (colLines cx d.2 (max (width - ((T : Int) + 2) - 2 - 2) 2) lineSep)) ≠ [] := by
    intro d e
    have := congrArg List.length e
    rw [defParaLines_length] at this
    simp at this
  cases defs with
  | nil => rfl
  | cons d rest =>
    rw [List.foldl_cons]
    have h0 : mergePara paraSep [] (defParaLines cx T d.1
      (defRc (colLines cx d.2 (max (width - ((T : Int) + 2) - 2 - 2) 2) lineSep))) =
      defParaLines cx T d.1
      (defRc (colLines cx d.2 (max (width - ((T : Int) + 2) - 2 - 2) 2) lineSep)) := by
      simp [mergePara]
    rw [h0, foldl_mergePara_join lineSep paraSep (fun item => defParaLines cx T item.1
      (defRc (colLines cx item.2 (max (width - ((T : Int) + 2) - 2 - 2) 2) lineSep))) hf rest _
      (hf d)]
    rw [List.map_cons, joinWith_cons_flatten, List.map_map]
    rfl

end
section
variable {α : Type} [DecidableEq α] (cx : Ctx α)

/-- D (C15), text form: what `InsertDefinitionsTableOpts` inserts -/
theorem insertDefTableOpts_triv_text (htriv : ∀ s, cx.ends s = List.range' 1 s.length)
    (hsp : cx.isSpace cx.sp = true) (ed : Editor α) (pos : Int)
    (defs : List (List α × List α)) (width : Int) (o : Options α) (hne : defs ≠ []) :
    ed.insertDefTableOpts cx pos defs width o =
      ed.insert cx pos
        (joinWith (o.withDefaults cx).paraSep (defs.map fun item =>
          joinWith (o.withDefaults cx).lineSep
            (defParaLines cx (maxLineLen (defs.map (·.1))) item.1
              (defRc (colLines cx item.2
                (max (width - ((maxLineLen (defs.map (·.1)) : Int) + 2) - 2 - 2) 2)
                (o.withDefaults cx).lineSep)))) ++
          (if (o.withDefaults cx).noTrailing = true then [] else (o.withDefaults cx).lineSep)) := by
  rw [insertDefTableOpts_triv cx htriv hsp ed pos defs width o hne]
  have hnn := defTableLines_ne_nil cx defs width (o.withDefaults cx).lineSep
    (o.withDefaults cx).paraSep hne
  unfold Block.join
  simp only
  rw [if_neg (by simpa using hnn), defTableLines_join]
  cases (o.withDefaults cx).noTrailing <;> rfl

/-- C (C16) for the operation: with a three-token default character set every line of the table
block that `InsertTableOpts` inserts has the same length -/
theorem insertTableOpts_lines_rect (htriv : ∀ s, cx.ends s = List.range' 1 s.length)
    (h3 : cx.dCharset.length = 3) (data : List (List (List α))) (width : Int) (o : Options α) :
    ∀ line ∈ makeTable cx data width (o.withDefaults cx).headers (o.withDefaults cx).borders
        (o.withDefaults cx).charset,
      (line.length : Int) = max width (tableMinWidth data o.borders) := by
  have hb : (o.withDefaults cx).borders = o.borders := (withDefaults_fields cx o).2.2.2.2.2.2.1
  rw [← hb]
  exact makeTable_rect cx htriv data width _ _ _ (withDefaults_charset_length_triv cx htriv h3 o)

end
section
variable {α : Type} [DecidableEq α] (cx : Ctx α)

theorem findIdx_c?_notSpace : ∀ (s : List α),
    (s.map fun c => [c]).findIdx? (notSpaceHead cx) =
      if (s.takeWhile cx.isSpace).length < s.length then some (s.takeWhile cx.isSpace).length
      else none
  | [] => by simp
  | c :: t => by
    rw [List.map_cons, List.findIdx?_cons, findIdx_c?_notSpace t]
    cases hc : cx.isSpace c
    · simp [notSpaceHead, hc]
    · simp only [notSpaceHead, hc, Bool.not_true, Bool.false_eq_true, if_false,
        List.takeWhile_cons, if_true, List.length_cons]
      split
      · rw [if_pos (by omega)]; rfl
      · rw [if_neg (by omega)]; rfl

/-- at cluster level `CountLeadingWhitespace` is the length of the leading whitespace run -/
theorem countLeadingWs_triv_c (htriv : ∀ s, cx.ends s = List.range' 1 s.length) (s : List α) :
    countLeadingWs cx s = ((s.takeWhile cx.isSpace).length : Int) := by
  unfold countLeadingWs gIndexFunc findIdxInt
  rw [WrapRefine.clusters_triv cx htriv, findIdx_c?_notSpace, gLen_triv cx htriv]
  have hle : (s.takeWhile cx.isSpace).length ≤ s.length := by
    have := congrArg List.length (List.takeWhile_append_dropWhile (p := cx.isSpace) (l := s))
    rw [List.length_append] at this
    omega
  by_cases h : (s.takeWhile cx.isSpace).length < s.length
  · rw [if_pos h]
    simp only
    rw [if_neg (by simp)]
  · rw [if_neg h]
    simp only
    rw [if_pos (by simp)]
    congr 1
    omega

/-- at cluster level the model's `AlignLineLeft` is the specification's -/
theorem alignLeft_triv_c (htriv : ∀ s, cx.ends s = List.range' 1 s.length) (t : List α) (w : Int) :
    alignLeft cx t w = Spec.alignLeft ⟨cx.isSpace, cx.sp, cx.hy⟩ w t := by
  simp only [alignLeft_eq_core]
  unfold alignLeftCore Spec.alignLeft Spec.stripLeft Spec.pad
  simp only
  rw [countLeadingWs_triv_c cx htriv, gLen_triv cx htriv]
  have hdec := List.takeWhile_append_dropWhile (p := cx.isSpace) (l := t)
  have hle : (t.takeWhile cx.isSpace).length ≤ t.length := by
    have := congrArg List.length hdec
    rw [List.length_append] at this
    omega
  have hdrop : t.drop (t.takeWhile cx.isSpace).length = t.dropWhile cx.isSpace := by
    conv => lhs; arg 2; rw [← hdec]
    exact List.drop_left
  have he : (if ((t.takeWhile cx.isSpace).length : Int) > 0 then
      gSub cx t ((t.takeWhile cx.isSpace).length : Int) (t.length : Int) else t)
      = t.dropWhile cx.isSpace := by
    split
    · rw [gSub_triv cx htriv t _ _ hle (Nat.le_refl _), hdrop]
      exact List.take_of_length_le (by rw [← hdrop, List.length_drop]; exact Nat.le_refl _)
    · rename_i h
      have h0 : (t.takeWhile cx.isSpace).length = 0 := by omega
      rw [← hdrop, h0]
      rfl
  rw [he, gLen_triv cx htriv, gRepeat_single_c]
  congr 2
  split <;> omega

end
section
variable {α : Type} [DecidableEq α] (cx : Ctx α)

/-- C(i), sharp form.  Body rows and borderless header rows only need the STRIPPED cell (leading
whitespace removed, as `AlignLineLeft` does) to fit the column; the centred header cells of a
bordered table are required to fit unstripped. -/
theorem tableRow_length_strip (htriv : ∀ s, cx.ends s = List.range' 1 s.length)
    (row : List (List α)) (cws : List Int) (isHeader border : Bool) (chars : TableChars α)
    (hv : chars.vert.length = 1)
    (hbody : isHeader = false → ∀ col, col < cws.length →
      ((Spec.stripLeft ⟨cx.isSpace, cx.sp, cx.hy⟩ (row.getD col [])).length : Int) +
        (if border = true then 1 else 0) ≤ cws.getD col 0)
    (hhead : isHeader = true → border = false → ∀ col, col < cws.length →
      ((Spec.stripLeft ⟨cx.isSpace, cx.sp, cx.hy⟩ ((row.getD col []).map cx.upper)).length : Int)
        ≤ cws.getD col 0)
    (hheadB : isHeader = true → border = true → ∀ col, col < cws.length →
      ((row.getD col []).length : Int) ≤ cws.getD col 0) :
    ((tableRow cx row cws isHeader border chars).length : Int) = tableLineLen cws border := by
  unfold tableRow tableLineLen
  simp only
  rw [foldl_append_eq, List.length_append, Int.natCast_add, length_flatten_map_range]
  congr 1
  · cases border <;> simp [hv]
  · apply sumTo_congr
    intro col hcol
    cases border <;> cases isHeader <;>
      simp only [Bool.false_eq_true, if_false, if_true, Int.add_zero, List.length_append,
        List.length_cons, List.length_nil, Int.natCast_add, hv, alignLeft_triv_c cx htriv]
    · exact Spec.alignLeft_length _ _ _ (by simpa using hbody rfl col hcol)
    · exact Spec.alignLeft_length _ _ _ (hhead rfl rfl col hcol)
    · have := hbody rfl col hcol
      simp only [if_true] at this
      rw [Spec.alignLeft_length _ _ _ (by omega)]
      omega
    · rw [alignCenter_length_triv cx htriv _ _ (by rw [List.length_map]; exact hheadB rfl rfl col hcol)]
      rfl

end
section
variable {α : Type} [DecidableEq α] (cx : Ctx α)

theorem Spec.fill_ne_nil_of_cur (tk : Spec.Toks α) (w : Nat) : ∀ (us : List (List α)) (cur : List α),
    cur ≠ [] → Spec.fill tk w us cur ≠ []
  | [], cur, h => by
    have : cur.isEmpty = false := by cases cur <;> simp_all
    simp [Spec.fill, this]
  | u :: us, cur, h => by
    have : cur.isEmpty = false := by cases cur <;> simp_all
    rw [Spec.fill]
    simp only [this, Bool.false_eq_true, if_false]
    split
    · exact Spec.fill_ne_nil_of_cur tk w us _ (by simp)
    · simp

/-- a definition with at least one word has at least one wrapped line -/
theorem colLines_ne_nil (text : List α) (w : Int) (hw : 2 ≤ w) (sep : List α)
    (hwords : Spec.words ⟨cx.isSpace, cx.sp, cx.hy⟩ (replaceAll' cx text sep) ≠ []) :
    colLines cx text w sep ≠ [] := by
  unfold colLines
  generalize replaceAll' cx text sep = l at hwords
  have hl : l ≠ [] := by intro e; subst e; exact hwords rfl
  rw [Spec.wrapLines_eq_fill_units _ _ _ hl]
  have hu := Spec.units_nonempty ⟨cx.isSpace, cx.sp, cx.hy⟩ (w := w.toNat) (by omega) l
  cases hus : Spec.units ⟨cx.isSpace, cx.sp, cx.hy⟩ w.toNat l with
  | nil =>
    exfalso
    unfold Spec.units at hus
    cases hw' : Spec.words ⟨cx.isSpace, cx.sp, cx.hy⟩ l with
    | nil => exact hwords hw'
    | cons wd rest =>
      rw [hw', List.flatMap_cons] at hus
      exact Spec.pieces_ne_nil _ _ _ _ (List.append_eq_nil_iff.1 hus).1
  | cons u us =>
    rw [Spec.fill]
    simp only [List.isEmpty_nil, if_true]
    exact Spec.fill_ne_nil_of_cur _ _ us u (hu u (by rw [hus]; simp))

omit [DecidableEq α] in
/-- D.  `defParaLines` of NO wrapped lines is a single line without the `- ` (this was the old
behaviour for a whitespace-only definition; the model now passes `defRc rc`, never `[]`) -/
theorem defParaLines_nil (T : Nat) (term : List α) :
    defParaLines cx T term [] =
      [[cx.sp, cx.sp] ++ term ++ List.replicate (T - term.length) cx.sp ++ [cx.sp, cx.sp]] := by
  simp [defParaLines, defRightCol, List.range_succ]

omit [DecidableEq α] in
/-- D.  a definition without any word (whitespace only) now gives a single line WITH the `- ` -/
theorem defParaLines_defRc_nil (T : Nat) (term : List α) :
    defParaLines cx T term (defRc []) =
      [[cx.sp, cx.sp] ++ term ++ List.replicate (T - term.length) cx.sp ++ [cx.sp, cx.sp] ++
        [cx.hy, cx.sp]] := by
  simp [defParaLines, defRightCol, defRc]

end
/-! ## concrete checks (leading whitespace in cells, an `upper` that maps a letter to a space) -/
section examples

/-- a cluster-level context over `Nat`: `0` and `5` are whitespace, `upper 7 = 0` -/
def cxEx : Ctx Nat where
  ends := fun s => List.range' 1 s.length
  isSpace := fun c => c == 0 || c == 5
  blen := fun _ => 1
  upper := fun c => if c == 7 then 0 else c
  sp := 0
  hy := 99
  phA := 65
  nl := 10
  dIndent := [9]
  dLineSep := [10]
  dParaSep := [10, 10]
  dCharset := [43, 124, 45]

/-- the cell `"  12"` is laid out as `"12"`, but the column width was computed from the
unstripped length 4, and the padding compensates: all lines are 15 long -/
example : (makeTable cxEx [[[0, 0, 1, 2], [3]], [[4], [0, 6, 0, 0]]] 0 true true [43, 124, 45]).map
    List.length = [15, 15, 15, 15, 15] := by decide

example : makeTable cxEx [[[0, 0, 1, 2], [3]], [[4], [0, 6, 0, 0]]] 0 false false [43, 124, 45] =
    [[1, 2, 0, 0, 0, 0, 3, 0, 0, 0], [4, 0, 0, 0, 0, 0, 6, 0, 0, 0]] := by decide

/-- header cells whose upper-cased form starts with whitespace, ragged rows, an empty row, and a
requested width (17) below the minimum (21) -/
example : (makeTable cxEx [[[7, 7, 1, 2], [3]], [[4], [0, 6, 0, 0]], [], [[1], [2], [3, 3, 3]]] 17
    true true [43, 124, 45]).map List.length = [21, 21, 21, 21, 21, 21, 21] := by decide

example : (makeTable cxEx [[[7, 7, 1, 2], [3]], [[4], [0, 6, 0, 0]]] 30 true false
    [43, 124, 45]).map List.length = [30, 30, 30] := by decide

end examples
end RosedVerif
