/-
Naturality of the token-level layout specification: every layout function commutes with
any map on tokens that preserves whitespace-ness and the two structural tokens (space and
hyphen).  "Layout depends on clusters only, not on their encoding."

`g` need not be injective, and no `DecidableEq` is needed on either token type: none of
the spec functions compares tokens for equality; tokens are only inspected through `tk.ws`.
This is visible in the signatures: the `variable [DecidableEq α]` in `Spec/Layout.lean` is
not picked up by any definition (`#check @wrapLines : {α : Type} → Toks α → Nat → List α →
List (List α)`, same for the others), so no `BEq`/`DecidableEq` instance is even available
to them.  All theorems below therefore hold for arbitrary types `α β`; in particular they
hold under `[DecidableEq α] [DecidableEq β]`.
-/
import RosedVerif.Spec.Layout
namespace RosedVerif.Spec

structure TokMap {α β : Type} (tk : Toks α) (tk' : Toks β) (g : α → β) : Prop where
  ws : ∀ a, tk'.ws (g a) = tk.ws a
  sp : g tk.sp = tk'.sp
  hy : g tk.hy = tk'.hy

variable {α β : Type}
variable {tk : Toks α} {tk' : Toks β} {g : α → β}

/-! ### small list helpers -/

private theorem isEmpty_map' (l : List α) : (l.map g).isEmpty = l.isEmpty := by
  cases l <;> rfl

/-! ### words -/

theorem wordsAux_map (h : TokMap tk tk' g) (cur l : List α) :
    wordsAux tk' (cur.map g) (l.map g) = (wordsAux tk cur l).map (List.map g) := by
  induction l generalizing cur with
  | nil =>
    simp only [List.map_nil, wordsAux, isEmpty_map']
    split <;> simp only [List.map_nil, List.map_cons, List.map_reverse]
  | cons c t ih =>
    have ih0 := ih []
    simp only [List.map_nil] at ih0
    simp only [List.map_cons, wordsAux, isEmpty_map', h.ws]
    split
    · split
      · exact ih0
      · simp only [List.map_cons, List.map_reverse, ih0]
    · have := ih (c :: cur)
      simp only [List.map_cons] at this
      exact this

theorem words_map (h : TokMap tk tk' g) (l : List α) :
    words tk' (l.map g) = (words tk l).map (List.map g) := by
  have := wordsAux_map h [] l
  simp only [List.map_nil] at this
  exact this

/-! ### pieces -/

theorem pieces_map (h : TokMap tk tk' g) (w f : Nat) (word : List α) :
    pieces tk' w f (word.map g) = (pieces tk w f word).map (List.map g) := by
  induction f generalizing word with
  | zero => simp only [pieces, List.map_cons, List.map_nil]
  | succ f ih =>
    simp only [pieces, List.length_map]
    split
    · simp only [List.map_cons, List.map_nil]
    · simp only [← List.map_take, ← List.map_drop, ih, List.map_cons, List.map_append,
        List.map_nil, h.hy]

/-! ### fill -/

theorem fill_map (h : TokMap tk tk' g) (w : Nat) (us : List (List α)) (cur : List α) :
    fill tk' w (us.map (List.map g)) (cur.map g) = (fill tk w us cur).map (List.map g) := by
  induction us generalizing cur with
  | nil =>
    simp only [List.map_nil, fill, isEmpty_map']
    split <;> simp only [List.map_nil, List.map_cons]
  | cons u us ih =>
    simp only [List.map_cons, fill, isEmpty_map', List.length_map]
    split
    · exact ih u
    · split
      · have := ih (cur ++ [tk.sp] ++ u)
        simp only [List.map_append, List.map_cons, List.map_nil, h.sp] at this
        exact this
      · simp only [List.map_cons, ih]

/-! ### wrapLines -/

theorem units_map (h : TokMap tk tk' g) (w : Nat) (ws : List (List α)) :
    ((ws.map (List.map g)).flatMap fun wd => pieces tk' w wd.length wd)
      = (ws.flatMap fun wd => pieces tk w wd.length wd).map (List.map g) := by
  induction ws with
  | nil => rfl
  | cons x xs ih =>
    simp only [List.map_cons, List.flatMap_cons, List.map_append, List.length_map,
      pieces_map h, ih]

theorem wrapLines_map (h : TokMap tk tk' g) (w : Nat) (l : List α) :
    wrapLines tk' w (l.map g) = (wrapLines tk w l).map (List.map g) := by
  simp only [wrapLines, isEmpty_map']
  split
  · simp only [List.map_cons, List.map_nil]
  · have := fill_map h w ((words tk l).flatMap fun wd => pieces tk w wd.length wd) []
    simp only [List.map_nil] at this
    rw [words_map h, units_map h, this]

/-! ### collapse -/

theorem collapse_map (h : TokMap tk tk' g) (l : List α) :
    collapse tk' (l.map g) = (collapse tk l).map g := by
  induction l with
  | nil => rfl
  | cons c t ih =>
    cases t with
    | nil =>
      simp only [List.map_cons, List.map_nil, collapse, h.ws]
      split <;> simp only [h.sp]
    | cons d t =>
      simp only [List.map_cons] at ih
      simp only [List.map_cons, collapse, h.ws]
      split
      · exact ih
      · simp only [List.map_cons, ih, List.cons.injEq, and_true]
        split <;> simp only [h.sp]

/-! ### strip / pad / align -/

theorem dropWhile_ws_map (h : TokMap tk tk' g) (l : List α) :
    (l.map g).dropWhile tk'.ws = (l.dropWhile tk.ws).map g := by
  induction l with
  | nil => rfl
  | cons c t ih =>
    simp only [List.map_cons, List.dropWhile_cons, h.ws]
    split
    · exact ih
    · simp only [List.map_cons]

theorem stripLeft_map (h : TokMap tk tk' g) (l : List α) :
    stripLeft tk' (l.map g) = (stripLeft tk l).map g :=
  dropWhile_ws_map h l

theorem stripRight_map (h : TokMap tk tk' g) (l : List α) :
    stripRight tk' (l.map g) = (stripRight tk l).map g := by
  simp only [stripRight, ← List.map_reverse, dropWhile_ws_map h]

theorem pad_map (h : TokMap tk tk' g) (n : Nat) :
    pad tk' n = (pad tk n).map g := by
  simp only [pad, List.map_replicate, h.sp]

theorem alignLeft_map (h : TokMap tk tk' g) (w : Int) (l : List α) :
    alignLeft tk' w (l.map g) = (alignLeft tk w l).map g := by
  simp only [alignLeft, stripLeft_map h, List.length_map, List.map_append, pad_map h]

theorem alignRight_map (h : TokMap tk tk' g) (w : Int) (l : List α) :
    alignRight tk' w (l.map g) = (alignRight tk w l).map g := by
  simp only [alignRight, stripRight_map h, List.length_map, List.map_append, pad_map h]

theorem alignCenter_map (h : TokMap tk tk' g) (w : Int) (l : List α) :
    alignCenter tk' w (l.map g) = (alignCenter tk w l).map g := by
  simp only [alignCenter, stripLeft_map h, stripRight_map h, List.length_map]
  split
  · rfl
  · simp only [List.map_append, pad_map h]

/-! ### corollaries: identical line lengths / break positions / padding amounts -/

theorem words_map_lengths (h : TokMap tk tk' g) (l : List α) :
    (words tk' (l.map g)).map List.length = (words tk l).map List.length := by
  simp only [words_map h, List.map_map, Function.comp_def, List.length_map]

theorem wrapLines_map_lengths (h : TokMap tk tk' g) (w : Nat) (l : List α) :
    (wrapLines tk' w (l.map g)).map List.length = (wrapLines tk w l).map List.length := by
  simp only [wrapLines_map h, List.map_map, Function.comp_def, List.length_map]

theorem wrapLines_map_count (h : TokMap tk tk' g) (w : Nat) (l : List α) :
    (wrapLines tk' w (l.map g)).length = (wrapLines tk w l).length := by
  simp only [wrapLines_map h, List.length_map]

theorem collapse_map_length (h : TokMap tk tk' g) (l : List α) :
    (collapse tk' (l.map g)).length = (collapse tk l).length := by
  simp only [collapse_map h, List.length_map]

theorem stripLeft_map_length (h : TokMap tk tk' g) (l : List α) :
    (stripLeft tk' (l.map g)).length = (stripLeft tk l).length := by
  simp only [stripLeft_map h, List.length_map]

theorem stripRight_map_length (h : TokMap tk tk' g) (l : List α) :
    (stripRight tk' (l.map g)).length = (stripRight tk l).length := by
  simp only [stripRight_map h, List.length_map]

theorem alignLeft_map_length (h : TokMap tk tk' g) (w : Int) (l : List α) :
    (alignLeft tk' w (l.map g)).length = (alignLeft tk w l).length := by
  simp only [alignLeft_map h, List.length_map]

theorem alignRight_map_length (h : TokMap tk tk' g) (w : Int) (l : List α) :
    (alignRight tk' w (l.map g)).length = (alignRight tk w l).length := by
  simp only [alignRight_map h, List.length_map]

theorem alignCenter_map_length (h : TokMap tk tk' g) (w : Int) (l : List α) :
    (alignCenter tk' w (l.map g)).length = (alignCenter tk w l).length := by
  simp only [alignCenter_map h, List.length_map]

/-! ### the hypotheses are satisfiable -/

section Example

/-- tokens as code points: 0 = space, 1 = hyphen, 2 = tab, everything else a letter -/
def natToks : Toks Nat := ⟨fun n => n == 0 || n == 2, 0, 1⟩

/-- tokens as strings (one string per cluster) -/
def strToks : Toks String := ⟨fun s => s == " " || s == "\t", " ", "-"⟩

/-- a NON-injective encoding: every letter code is rendered as "x" -/
def enc : Nat → String
  | 0 => " "
  | 1 => "-"
  | 2 => "\t"
  | _ => "x"

theorem enc_tokMap : TokMap natToks strToks enc where
  ws := by
    intro a
    match a with
    | 0 => decide
    | 1 => decide
    | 2 => decide
    | n + 3 => simp [natToks, strToks, enc]
  sp := rfl
  hy := rfl

example (w : Nat) (l : List Nat) :
    wrapLines strToks w (l.map enc) = (wrapLines natToks w l).map (List.map enc) :=
  wrapLines_map enc_tokMap w l

example (w : Nat) (l : List Nat) :
    (wrapLines strToks w (l.map enc)).map List.length
      = (wrapLines natToks w l).map List.length :=
  wrapLines_map_lengths enc_tokMap w l

example (w : Int) (l : List Nat) :
    alignCenter strToks w (l.map enc) = (alignCenter natToks w l).map enc :=
  alignCenter_map enc_tokMap w l

/-- the trivial instance: the identity is a token map -/
example (tk : Toks α) : TokMap tk tk id := ⟨fun _ => rfl, rfl, rfl⟩

/-- token maps compose -/
theorem TokMap.comp {γ : Type} {tk'' : Toks γ} {g' : β → γ}
    (h : TokMap tk tk' g) (h' : TokMap tk' tk'' g') : TokMap tk tk'' (g' ∘ g) where
  ws a := by simp only [Function.comp_apply, h'.ws, h.ws]
  sp := by simp only [Function.comp_apply, h.sp, h'.sp]
  hy := by simp only [Function.comp_apply, h.hy, h'.hy]

/-- a concrete run: wrapping "ab cdefg" style input at width 4 -/
example :
    wrapLines strToks 4 ([5, 6, 0, 7, 8, 9, 10, 11].map enc)
      = [["x", "x"], ["x", "x", "x", "-"], ["x", "x"]] := by decide

end Example

end RosedVerif.Spec
