/-
"No text is lost" for Wrap and for the composite layouts built from it (C07 for Wrap, C14 two
columns, C15 definitions table), at the specification level (every token type `α`).

1. Wrap.  Splitting every output line at whitespace gives EXACTLY the unit sequence
   (`wrapLines_flatMap_words`), the units are the pieces of the words, word after word, and
   un-hyphenating the piece list of a word gives the word back (`wrapLines_words`).  This form is
   exact for every text.  A FUNCTION of the output alone (`dehyphen`) recovers the words iff no
   word can be mistaken for a continuation piece; `HyOK` (every word that ENDS with the hyphen token
   is shorter than the width) suffices (`dehyphen_wrapLines`), and without it no function can work:
   two texts with different words have the same wrapped lines (`dehyphen_impossible`).
2. Two columns: the right part / left part of every line, and the words of both texts.
3. Definitions table: paragraphs, term, definition words.
-/
import RosedVerif.Spec.CompositeLemmas
namespace RosedVerif.Spec
variable {α : Type} (tk : Toks α)

/-! ### 1.  Wrap -/

namespace NoLoss

theorem wordsAux_replicate_sp (hsp : tk.ws tk.sp = true) (k : Nat) :
    wordsAux tk [] (List.replicate k tk.sp) = [] := by
  induction k with
  | zero => rfl
  | succ k ih =>
    simp only [List.replicate_succ, wordsAux, hsp, if_true, List.isEmpty_nil, ih]

theorem wordsAux_append_pad (hsp : tk.ws tk.sp = true) (cur l : List α) (k : Nat) :
    wordsAux tk cur (l ++ List.replicate k tk.sp) = wordsAux tk cur l := by
  induction l generalizing cur with
  | nil =>
    cases k with
    | zero => rfl
    | succ k =>
      simp only [List.nil_append, List.replicate_succ, wordsAux, hsp, if_true,
        wordsAux_replicate_sp tk hsp k]
  | cons c t ih => simp only [List.cons_append, wordsAux, ih]

theorem words_replicate_nil (k : Nat) :
    (List.replicate k ([] : List α)).flatMap (words tk) = [] := by
  induction k with
  | zero => rfl
  | succ k ih => rw [List.replicate_succ, List.flatMap_cons, ih]; rfl

theorem flatMap_words_groups (hsp : tk.ws tk.sp = true) (groups : List (List (List α)))
    (hne : ∀ g ∈ groups, ∀ u ∈ g, u ≠ [])
    (hws : ∀ g ∈ groups, ∀ u ∈ g, ∀ c ∈ u, tk.ws c = false) :
    (groups.map (joinSp tk)).flatMap (words tk) = groups.flatten := by
  induction groups with
  | nil => rfl
  | cons g rest ih =>
    rw [List.map_cons, List.flatMap_cons, List.flatten_cons,
      words_joinSp tk hsp g (hne g List.mem_cons_self) (hws g List.mem_cons_self),
      ih (fun x hx => hne x (List.mem_cons_of_mem _ hx))
        (fun x hx => hws x (List.mem_cons_of_mem _ hx))]

theorem mem_of_mem_words {l wd : List α} (h : wd ∈ words tk l) : ∀ c ∈ wd, c ∈ l := by
  intro c hc
  have : c ∈ (words tk l).flatten := List.mem_flatten.2 ⟨wd, h, hc⟩
  rw [words_flatten] at this
  exact (List.mem_filter.1 this).1

end NoLoss

/-- padding with spaces does not change the words -/
theorem words_padTo (hsp : tk.ws tk.sp = true) (n : Nat) (l : List α) :
    words tk (padTo tk n l) = words tk l :=
  NoLoss.wordsAux_append_pad tk hsp [] l _

/-- **splitting every wrapped line at whitespace gives exactly the units, in order** (every text,
the empty and the whitespace-only ones included) -/
theorem wrapLines_flatMap_words {w : Nat} (hw : 2 ≤ w) (hsp : tk.ws tk.sp = true)
    (hhy : tk.ws tk.hy = false) (l : List α) :
    (wrapLines tk w l).flatMap (words tk) = units tk w l := by
  by_cases h : l = []
  · subst h; rfl
  · obtain ⟨groups, h1, _, h3, _⟩ := wrapLines_partition tk hw l h
    rw [h3, ← h1]
    apply NoLoss.flatMap_words_groups tk hsp
    · intro g hg u hu
      exact units_nonempty tk hw l u (h1 ▸ List.mem_flatten.2 ⟨g, hg, hu⟩)
    · intro g hg u hu
      exact units_no_ws tk hhy w l u (h1 ▸ List.mem_flatten.2 ⟨g, hg, hu⟩)

/-- the piece lists of the words of a text, word after word -/
def wordPieces (w : Nat) (l : List α) : List (List (List α)) :=
  (words tk l).map fun wd => pieces tk w wd.length wd

theorem wordPieces_flatten (w : Nat) (l : List α) : (wordPieces tk w l).flatten = units tk w l := by
  simp only [wordPieces, units, List.flatMap_def]

theorem wordPieces_unhyphen (w : Nat) (l : List α) :
    (wordPieces tk w l).map unhyphen = words tk l := by
  simp only [wordPieces, List.map_map]
  conv => rhs; rw [← List.map_id (words tk l)]
  apply List.map_congr_left
  intro wd _
  exact pieces_unhyphen' tk w wd wd.length

/-- **Wrap loses no word** (exact form, every text and every hyphen usage): the tokens between
whitespace on the output lines, read line after line, are the pieces of the words of the input,
word after word; every piece but the last of a word is `w - 1` tokens of the word plus the
continuation hyphen, and removing those hyphens gives the words back, in order -/
theorem wrapLines_words {w : Nat} (hw : 2 ≤ w) (hsp : tk.ws tk.sp = true)
    (hhy : tk.ws tk.hy = false) (l : List α) :
    ∃ pss : List (List (List α)),
      (wrapLines tk w l).flatMap (words tk) = pss.flatten ∧
      pss.map unhyphen = words tk l ∧
      (∀ ps ∈ pss, ps ≠ [] ∧ ∀ p ∈ ps.dropLast, p.length = w ∧ p.getLast? = some tk.hy) ∧
      (l ≠ [] → ∃ groups : List (List (List α)), groups.flatten = pss.flatten ∧
        (∀ g ∈ groups, g ≠ []) ∧ wrapLines tk w l = groups.map (joinSp tk)) := by
  refine ⟨wordPieces tk w l, ?_, wordPieces_unhyphen tk w l, ?_, ?_⟩
  · rw [wrapLines_flatMap_words tk hw hsp hhy, wordPieces_flatten]
  · intro ps hps
    obtain ⟨wd, _, rfl⟩ := List.mem_map.1 hps
    exact ⟨pieces_ne_nil tk w _ _, pieces_shape' tk (by omega) wd wd.length⟩
  · intro h
    obtain ⟨groups, h1, h2, h3, _⟩ := wrapLines_partition tk hw l h
    exact ⟨groups, by rw [h1, wordPieces_flatten], h2, h3⟩

/-! #### the function form -/

section dehyphen
variable [DecidableEq α]

/-- a unit that looks like a continuation piece: exactly `w` tokens, the last one the hyphen -/
def isCont (w : Nat) (u : List α) : Bool := u.length == w && u.getLast? == some tk.hy

/-- glue continuation pieces to what follows them -/
def rejoin (w : Nat) : List (List α) → List α → List (List α)
  | [], acc => if acc.isEmpty then [] else [acc]
  | u :: us, acc =>
    if isCont tk w u then rejoin w us (acc ++ u.dropLast) else (acc ++ u) :: rejoin w us []

/-- recover the word sequence from wrapped lines: split every line at whitespace, then glue every
token run of exactly `w` tokens ending in the hyphen (minus that hyphen) to the next run -/
def dehyphen (w : Nat) (lines : List (List α)) : List (List α) :=
  rejoin tk w (lines.flatMap (words tk)) []

/-- the words of `l` cannot be mistaken for continuation pieces at width `w`: a word that ENDS with
the hyphen token is shorter than `w` (words containing hyphens elsewhere, and a lone `-`, are fine) -/
def HyOK (w : Nat) (l : List α) : Prop :=
  ∀ wd ∈ words tk l, wd.getLast? = some tk.hy → wd.length < w

omit [DecidableEq α] in
theorem HyOK_of_not_mem (w : Nat) (l : List α) (h : tk.hy ∉ l) : HyOK tk w l := by
  intro wd hwd hl
  exact absurd (NoLoss.mem_of_mem_words tk hwd _ (List.mem_of_getLast? hl)) h

omit [DecidableEq α] in
theorem HyOK_of_last (w : Nat) (l : List α)
    (h : ∀ wd ∈ words tk l, wd.getLast? ≠ some tk.hy) : HyOK tk w l :=
  fun wd hwd hl => absurd hl (h wd hwd)

namespace NoLoss

theorem rejoin_pieces {w : Nat} (hw : 1 ≤ w) (f : Nat) (wd : List α) (rest : List (List α)) (acc : List α)
    (h : wd.getLast? ≠ some tk.hy) :
    rejoin tk w (pieces tk w f wd ++ rest) acc = (acc ++ wd) :: rejoin tk w rest [] := by
  have hnc : isCont tk w wd = false := by
    simp only [isCont, Bool.and_eq_false_iff, beq_eq_false_iff_ne, ne_eq]
    exact Or.inr h
  induction f generalizing wd acc with
  | zero => simp only [pieces, List.singleton_append, rejoin, hnc, Bool.false_eq_true, if_false]
  | succ f ih =>
    unfold pieces
    split
    · simp only [List.singleton_append, rejoin, hnc, Bool.false_eq_true, if_false]
    · rename_i hlen
      have hc : isCont tk w (wd.take (w - 1) ++ [tk.hy]) = true := by
        simp only [isCont, List.length_append, List.length_take, List.length_cons, List.length_nil,
          List.getLast?_append, List.getLast?_singleton, Option.some_or, Bool.and_eq_true,
          beq_iff_eq, and_true]
        omega
      have hl' : (wd.drop (w - 1)).getLast? ≠ some tk.hy := by
        rw [List.getLast?_drop, if_neg (by omega)]; exact h
      have hnc' : isCont tk w (wd.drop (w - 1)) = false := by
        simp only [isCont, Bool.and_eq_false_iff, beq_eq_false_iff_ne, ne_eq]
        exact Or.inr hl'
      rw [List.cons_append, rejoin, if_pos hc, ih _ _ hl' hnc', List.dropLast_concat,
        List.append_assoc, List.take_append_drop]

theorem rejoin_word {w : Nat} (hw : 1 ≤ w) (wd : List α) (rest : List (List α)) (acc : List α)
    (h : wd.getLast? = some tk.hy → wd.length < w) :
    rejoin tk w (pieces tk w wd.length wd ++ rest) acc = (acc ++ wd) :: rejoin tk w rest [] := by
  by_cases hl : wd.getLast? = some tk.hy
  · have hlt := h hl
    have hnc : isCont tk w wd = false := by
      simp only [isCont, Bool.and_eq_false_iff, beq_eq_false_iff_ne, ne_eq]
      exact Or.inl (by omega)
    rw [pieces_single tk wd wd.length (Nat.le_of_lt hlt)]
    simp only [List.singleton_append, rejoin, hnc, Bool.false_eq_true, if_false]
  · exact rejoin_pieces tk hw _ wd rest acc hl

theorem rejoin_units {w : Nat} (hw : 1 ≤ w) (wds : List (List α))
    (h : ∀ wd ∈ wds, wd.getLast? = some tk.hy → wd.length < w) :
    rejoin tk w (wds.flatMap fun wd => pieces tk w wd.length wd) [] = wds := by
  induction wds with
  | nil => rfl
  | cons wd rest ih =>
    rw [List.flatMap_cons, rejoin_word tk hw wd _ [] (h wd List.mem_cons_self),
      ih (fun x hx => h x (List.mem_cons_of_mem _ hx)), List.nil_append]

end NoLoss

/-- `dehyphen` of the units gives the words -/
theorem rejoin_units {w : Nat} (hw : 1 ≤ w) (l : List α) (h : HyOK tk w l) :
    rejoin tk w (units tk w l) [] = words tk l :=
  NoLoss.rejoin_units tk hw (words tk l) h

/-- **Wrap loses no word** (function form): the words of the input are recovered, in order, from
the output lines alone by splitting each line at whitespace and undoing the continuation hyphens —
for every text in which no word can be mistaken for a continuation piece (`HyOK`; in particular
every text without the hyphen token, every text no word of which ends with a hyphen) -/
theorem dehyphen_wrapLines {w : Nat} (hw : 2 ≤ w) (hsp : tk.ws tk.sp = true)
    (hhy : tk.ws tk.hy = false) (l : List α) (h : HyOK tk w l) :
    dehyphen tk w (wrapLines tk w l) = words tk l := by
  unfold dehyphen
  rw [wrapLines_flatMap_words tk hw hsp hhy, rejoin_units tk (by omega) l h]

/-- … and all the non-whitespace tokens, in order -/
theorem dehyphen_wrapLines_flatten {w : Nat} (hw : 2 ≤ w) (hsp : tk.ws tk.sp = true)
    (hhy : tk.ws tk.hy = false) (l : List α) (h : HyOK tk w l) :
    (dehyphen tk w (wrapLines tk w l)).flatten = l.filter (fun c => !tk.ws c) := by
  rw [dehyphen_wrapLines tk hw hsp hhy l h, words_flatten]

end dehyphen

/-- `HyOK` cannot be dropped, for ANY recovery function: a word of exactly `w` tokens ending with
the hyphen token, followed by another word, wraps to the same lines as the over-long word obtained
by gluing them — the text form of "undoing continuation hyphens" is ambiguous, the piece-list form
(`wrapLines_words`) is not -/
theorem dehyphen_impossible :
    wrapLines tkN 3 [1, 2, 99, 0, 3, 4] = wrapLines tkN 3 [1, 2, 3, 4] ∧
    words tkN [1, 2, 99, 0, 3, 4] ≠ words tkN [1, 2, 3, 4] := by decide

example : dehyphen tkN 3 (wrapLines tkN 3 [1, 2, 99, 0, 3, 4]) = [[1, 2, 3, 4]] := by decide
example : dehyphen tkN 5 (wrapLines tkN 5 [1, 2, 3, 0, 4, 5, 6, 7, 8, 9, 0, 1]) =
    [[1, 2, 3], [4, 5, 6, 7, 8, 9], [1]] := by decide
/-- hyphens inside words and a lone dash are harmless -/
example : dehyphen tkN 4 (wrapLines tkN 4 [1, 99, 2, 3, 4, 5, 0, 99, 0, 6, 99, 0, 7]) =
    words tkN [1, 99, 2, 3, 4, 5, 0, 99, 0, 6, 99, 0, 7] := by decide
example : wrapLines tkN 4 [1, 99, 2, 3, 4, 5, 0, 99, 0, 6, 99, 0, 7] =
    [[1, 99, 2, 99], [3, 4, 5], [99, 0, 6, 99], [7]] := by decide

/-! ### 2.  juxtaposition of two blocks of lines (two columns, spec and model alike) -/

namespace NoLoss

theorem getD_length_le {n : Nat} (xs : List (List α)) (h : ∀ x ∈ xs, x.length ≤ n) (i : Nat) :
    (xs.getD i []).length ≤ n := by
  by_cases hi : i < xs.length
  · rw [List.getD_eq_getElem?_getD, List.getElem?_eq_getElem hi, Option.getD_some]
    exact h _ (List.getElem_mem hi)
  · rw [List.getD_eq_getElem?_getD, List.getElem?_eq_none (Nat.le_of_not_lt hi)]
    exact Nat.zero_le _

theorem getElem_append_replicate {β : Type} (xs : List β) (d : β) (k i : Nat)
    (h : i < (xs ++ List.replicate k d).length) : (xs ++ List.replicate k d)[i] = xs.getD i d := by
  by_cases hi : i < xs.length
  · rw [List.getElem_append_left hi, List.getD_eq_getElem?_getD, List.getElem?_eq_getElem hi,
      Option.getD_some]
  · rw [List.getElem_append_right (Nat.le_of_not_lt hi), List.getElem_replicate,
      List.getD_eq_getElem?_getD, List.getElem?_eq_none (Nat.le_of_not_lt hi), Option.getD_none]

theorem flatMap_words_map_padTo (hsp : tk.ws tk.sp = true) (n : Nat) (xs : List (List α)) :
    (xs.map (padTo tk n)).flatMap (words tk) = xs.flatMap (words tk) := by
  induction xs with
  | nil => rfl
  | cons x r ih => rw [List.map_cons, List.flatMap_cons, List.flatMap_cons, ih, words_padTo tk hsp]

theorem flatMap_words_append_nils (xs : List (List α)) (k : Nat) :
    (xs ++ List.replicate k []).flatMap (words tk) = xs.flatMap (words tk) := by
  rw [List.flatMap_append, words_replicate_nil, List.append_nil]

end NoLoss

/-- stripping the trailing whitespace of a padded line gives the line back, when the line does not
itself end with whitespace -/
theorem stripRight_padTo (hsp : tk.ws tk.sp = true) (n : Nat) (x : List α)
    (hx : ∀ c, x.getLast? = some c → tk.ws c = false) : stripRight tk (padTo tk n x) = x := by
  unfold stripRight padTo
  rw [List.reverse_append, List.reverse_replicate]
  have : ∀ k, (List.replicate k tk.sp ++ x.reverse).dropWhile tk.ws = x.reverse := by
    intro k
    induction k with
    | zero =>
      cases hr : x.reverse with
      | nil => rfl
      | cons c t =>
        have := hx c (by rw [List.getLast?_eq_head?_reverse, hr]; rfl)
        simp only [List.replicate_zero, List.nil_append, List.dropWhile_cons, this,
          Bool.false_eq_true, if_false]
    | succ k ih =>
      simp only [List.replicate_succ, List.cons_append, List.dropWhile_cons, hsp, if_true, ih]
  rw [this, List.reverse_reverse]

/-- a wrapped line never ends with whitespace -/
theorem wrapLines_last_not_ws {w : Nat} (hw : 2 ≤ w) (hhy : tk.ws tk.hy = false) (l : List α) :
    ∀ line ∈ wrapLines tk w l, ∀ c, line.getLast? = some c → tk.ws c = false := by
  intro line hline c hc
  by_cases h : l = []
  · subst h
    simp only [wrapLines, List.isEmpty_nil, if_true, List.mem_singleton] at hline
    subst hline; simp at hc
  · obtain ⟨groups, h1, h2, h3, _⟩ := wrapLines_partition tk hw l h
    rw [h3] at hline
    obtain ⟨g, hg, rfl⟩ := List.mem_map.1 hline
    have hgne := h2 g hg
    have hmem : ∀ u ∈ g, u ∈ units tk w l := fun u hu => h1 ▸ List.mem_flatten.2 ⟨g, hg, hu⟩
    obtain ⟨g', u, rfl⟩ : ∃ g' u, g = g' ++ [u] :=
      ⟨g.dropLast, g.getLast hgne, (List.dropLast_concat_getLast hgne).symm⟩
    have hu := hmem u (by simp)
    have hune := units_nonempty tk hw l u hu
    have hlast : (joinSp tk (g' ++ [u])).getLast? = u.getLast? := by
      by_cases hg' : g' = []
      · subst hg'; simp
      · rw [joinSp_concat tk hg', List.getLast?_append]
        cases hul : u.getLast? with
        | none => exact absurd (List.getLast?_eq_none_iff.1 hul) hune
        | some x => rfl
    rw [hlast] at hc
    exact units_no_ws tk hhy w l u hu c (List.mem_of_getLast? hc)

/-- **juxtaposition**: a block whose `i`-th line is the `i`-th line of `wl` padded to `n` tokens
followed by the `i`-th line of `wr` (missing lines empty): dropping `n` tokens from every line gives
the lines of `wr`, the first `n` tokens of every line are the padded lines of `wl` -/
theorem juxt_parts (n : Nat) (wl wr ls : List (List α))
    (hlen : ls.length = max wl.length wr.length) (hl : ∀ x ∈ wl, x.length ≤ n)
    (hline : ∀ (i : Nat) (hi : i < ls.length), ls[i] = padTo tk n (wl.getD i []) ++ wr.getD i []) :
    ls.map (List.drop n) = wr ++ List.replicate (ls.length - wr.length) [] ∧
    ls.map (List.take n) = (wl ++ List.replicate (ls.length - wl.length) []).map (padTo tk n) := by
  have hpl : ∀ i, (padTo tk n (wl.getD i [])).length = n := by
    intro i
    have := NoLoss.getD_length_le wl hl i
    rw [length_padTo]; omega
  constructor
  · apply List.ext_getElem
    · simp only [List.length_map, List.length_append, List.length_replicate]; omega
    · intro i h1 h2
      have hi : i < ls.length := by simpa using h1
      rw [List.getElem_map, hline i hi, NoLoss.getElem_append_replicate,
        List.drop_append_of_le_length (by rw [hpl]; exact Nat.le_refl _),
        List.drop_of_length_le (by rw [hpl]; exact Nat.le_refl _), List.nil_append]
  · apply List.ext_getElem
    · simp only [List.length_map, List.length_append, List.length_replicate]; omega
    · intro i h1 h2
      have hi : i < ls.length := by simpa using h1
      rw [List.getElem_map, List.getElem_map, hline i hi, NoLoss.getElem_append_replicate,
        List.take_append_of_le_length (by rw [hpl]; exact Nat.le_refl _),
        List.take_of_length_le (by rw [hpl]; exact Nat.le_refl _)]

/-- **juxtaposition of two wrapped texts loses no word**: the tokens between whitespace in the
left parts (first `n` tokens of each line), read line after line, are the units of the left text,
those in the right parts (after `n` tokens) the units of the right text -/
theorem juxt_units {lw rw : Nat} (hlw : 2 ≤ lw) (hrw : 2 ≤ rw) (hsp : tk.ws tk.sp = true)
    (hhy : tk.ws tk.hy = false) (n : Nat) (hn : lw ≤ n) (left right : List α) (ls : List (List α))
    (hlen : ls.length = max (wrapLines tk lw left).length (wrapLines tk rw right).length)
    (hline : ∀ (i : Nat) (hi : i < ls.length),
      ls[i] = padTo tk n ((wrapLines tk lw left).getD i []) ++ (wrapLines tk rw right).getD i []) :
    (ls.map (List.take n)).flatMap (words tk) = units tk lw left ∧
    (ls.map (List.drop n)).flatMap (words tk) = units tk rw right := by
  obtain ⟨h1, h2⟩ := juxt_parts tk n _ _ ls hlen
    (fun x hx => Nat.le_trans (wrapLines_width tk hlw left x hx) hn) hline
  rw [h1, h2, NoLoss.flatMap_words_map_padTo tk hsp, NoLoss.flatMap_words_append_nils,
    NoLoss.flatMap_words_append_nils, wrapLines_flatMap_words tk hlw hsp hhy,
    wrapLines_flatMap_words tk hrw hsp hhy]
  exact ⟨rfl, rfl⟩

/-- … and (function form) the words of both texts are recovered, in order, from the two parts -/
theorem juxt_words [DecidableEq α] {lw rw : Nat} (hlw : 2 ≤ lw) (hrw : 2 ≤ rw)
    (hsp : tk.ws tk.sp = true) (hhy : tk.ws tk.hy = false) (n : Nat) (hn : lw ≤ n)
    (left right : List α) (ls : List (List α))
    (hlen : ls.length = max (wrapLines tk lw left).length (wrapLines tk rw right).length)
    (hline : ∀ (i : Nat) (hi : i < ls.length),
      ls[i] = padTo tk n ((wrapLines tk lw left).getD i []) ++ (wrapLines tk rw right).getD i [])
    (hL : HyOK tk lw left) (hR : HyOK tk rw right) :
    dehyphen tk lw (ls.map (List.take n)) = words tk left ∧
    dehyphen tk rw (ls.map (List.drop n)) = words tk right := by
  obtain ⟨h1, h2⟩ := juxt_units tk hlw hrw hsp hhy n hn left right ls hlen hline
  unfold dehyphen
  rw [h1, h2, rejoin_units tk (by omega) left hL, rejoin_units tk (by omega) right hR]
  exact ⟨rfl, rfl⟩

/-! #### `Spec.twoColumns` -/

/-- C14, line by line: the right part of line `i` (after `leftW + gap` tokens) is the `i`-th
wrapped right line, the left part with its trailing padding stripped is the `i`-th wrapped left
line (missing lines are empty) -/
theorem twoColumns_parts (hsp : tk.ws tk.sp = true) (hhy : tk.ws tk.hy = false)
    (left right : List α) (gap width : Int) (pct : Pct) (hg : 0 ≤ gap) (i : Nat)
    (hi : i < (twoColumns tk left right gap width pct).length) :
    let lw := (colWidths gap width pct).1
    let rw := (colWidths gap width pct).2
    ((twoColumns tk left right gap width pct)[i]).drop (lw + gap.toNat) =
      (wrapLines tk rw right).getD i [] ∧
    stripRight tk (((twoColumns tk left right gap width pct)[i]).take (lw + gap.toNat)) =
      (wrapLines tk lw left).getD i [] := by
  intro lw rw
  obtain ⟨e, ht, hl, _⟩ := twoColumns_line tk left right gap width pct hg i hi
  have hw := colWidths_spec gap width pct hg
  refine ⟨?_, ?_⟩
  · rw [e, List.drop_append_of_le_length (by rw [hl]; exact Nat.le_refl _),
      List.drop_of_length_le (by rw [hl]; exact Nat.le_refl _), List.nil_append]
  · rw [ht]
    apply stripRight_padTo tk hsp
    by_cases h : i < (wrapLines tk lw left).length
    · rw [List.getD_eq_getElem?_getD, List.getElem?_eq_getElem h, Option.getD_some]
      exact wrapLines_last_not_ws tk hw.1 hhy left _ (List.getElem_mem h)
    · rw [List.getD_eq_getElem?_getD, List.getElem?_eq_none (Nat.le_of_not_lt h)]
      intro c hc; simp at hc

/-- C14, **no word lost** (exact form): splitting the left parts of the lines at whitespace gives
the units of the left text wrapped at the left width, splitting the right parts gives the units of
the right text wrapped at the right width — in order, nothing else (`wordPieces_unhyphen`: the
units are the pieces of the words, and un-hyphenating them word by word gives the words) -/
theorem twoColumns_units (hsp : tk.ws tk.sp = true) (hhy : tk.ws tk.hy = false)
    (left right : List α) (gap width : Int) (pct : Pct) (hg : 0 ≤ gap) :
    let lw := (colWidths gap width pct).1
    let rw := (colWidths gap width pct).2
    let cols := twoColumns tk left right gap width pct
    (cols.map (List.take (lw + gap.toNat))).flatMap (words tk) = units tk lw left ∧
    (cols.map (List.drop (lw + gap.toNat))).flatMap (words tk) = units tk rw right := by
  intro lw rw cols
  have hw := colWidths_spec gap width pct hg
  exact juxt_units tk hw.1 hw.2.1 hsp hhy (lw + gap.toNat) (Nat.le_add_right _ _) left right cols
    (twoColumns_length tk left right gap width pct)
    (fun i hi => (twoColumns_line tk left right gap width pct hg i hi).1)

/-- C14, **no word lost** (function form): the words of the left text are recovered, in order,
from the left parts of the lines and the words of the right text from the right parts -/
theorem twoColumns_words [DecidableEq α] (hsp : tk.ws tk.sp = true) (hhy : tk.ws tk.hy = false)
    (left right : List α) (gap width : Int) (pct : Pct) (hg : 0 ≤ gap)
    (hL : HyOK tk (colWidths gap width pct).1 left) (hR : HyOK tk (colWidths gap width pct).2 right) :
    let lw := (colWidths gap width pct).1
    let rw := (colWidths gap width pct).2
    let cols := twoColumns tk left right gap width pct
    dehyphen tk lw (cols.map (List.take (lw + gap.toNat))) = words tk left ∧
    dehyphen tk rw (cols.map (List.drop (lw + gap.toNat))) = words tk right := by
  intro lw rw cols
  have hw := colWidths_spec gap width pct hg
  exact juxt_words tk hw.1 hw.2.1 hsp hhy (lw + gap.toNat) (Nat.le_add_right _ _) left right cols
    (twoColumns_length tk left right gap width pct)
    (fun i hi => (twoColumns_line tk left right gap width pct hg i hi).1) hL hR

/-- in particular for texts without the hyphen token, whatever the widths -/
theorem twoColumns_words_of_no_hyphen [DecidableEq α] (hsp : tk.ws tk.sp = true)
    (hhy : tk.ws tk.hy = false) (left right : List α) (gap width : Int) (pct : Pct) (hg : 0 ≤ gap)
    (hL : tk.hy ∉ left) (hR : tk.hy ∉ right) :
    let lw := (colWidths gap width pct).1
    let rw := (colWidths gap width pct).2
    let cols := twoColumns tk left right gap width pct
    dehyphen tk lw (cols.map (List.take (lw + gap.toNat))) = words tk left ∧
    dehyphen tk rw (cols.map (List.drop (lw + gap.toNat))) = words tk right :=
  twoColumns_words tk hsp hhy left right gap width pct hg (HyOK_of_not_mem tk _ _ hL)
    (HyOK_of_not_mem tk _ _ hR)

/-! ### 3.  definitions table -/

/-- the width at which the definitions are wrapped: `max (w − (T + 2) − 2 − 2) 2` -/
def defWidth (T : Nat) (w : Int) : Nat :=
  (if w - (T + 2) - 2 - 2 < 2 then 2 else w - (T + 2) - 2 - 2).toNat

theorem two_le_defWidth (T : Nat) (w : Int) : 2 ≤ defWidth T w := by
  unfold defWidth; split <;> omega

theorem defLines_eq (T : Nat) (w : Int) (defn : List α) :
    defLines tk T w defn =
      if (wrapLines tk (defWidth T w) defn).isEmpty then [[]] else wrapLines tk (defWidth T w) defn :=
  rfl

theorem defLines_ne_nil (T : Nat) (w : Int) (defn : List α) : defLines tk T w defn ≠ [] := by
  rw [defLines_eq]
  split
  · simp
  · rename_i h; intro e; rw [e] at h; simp at h

/-- a definition without a word (empty or whitespace only) has the single, empty line -/
theorem defLines_of_no_word (T : Nat) (w : Int) (defn : List α) (h : words tk defn = []) :
    defLines tk T w defn = [[]] := by
  rw [defLines_eq]
  cases defn with
  | nil => rfl
  | cons a t =>
    have : wrapLines tk (defWidth T w) (a :: t) = [] := by
      rw [wrapLines_eq_fill_units tk _ _ (by simp)]
      simp only [units, h, List.flatMap_nil, fill, List.isEmpty_nil, if_true]
    rw [this]; rfl

/-- splitting the lines of a definition at whitespace gives its units -/
theorem defLines_flatMap_words (hsp : tk.ws tk.sp = true) (hhy : tk.ws tk.hy = false)
    (T : Nat) (w : Int) (defn : List α) :
    (defLines tk T w defn).flatMap (words tk) = units tk (defWidth T w) defn := by
  rw [← wrapLines_flatMap_words tk (two_le_defWidth T w) hsp hhy, defLines_eq]
  split
  · rename_i h
    rw [List.isEmpty_iff.1 h]; rfl
  · rfl

/-- every paragraph has its term line -/
theorem defParagraph_pos (T : Nat) (w : Int) (term defn : List α) :
    0 < (defParagraph tk T w term defn).length := by
  rw [defParagraph_length]
  exact List.length_pos_iff.2 (defLines_ne_nil tk T w defn)

/-- the first line of a paragraph: two spaces, the term verbatim, padding to `T`, `··-·`, the
first wrapped line of the definition -/
theorem defParagraph_first (T : Nat) (w : Int) (term defn : List α) :
    (defParagraph tk T w term defn)[0]'(defParagraph_pos tk T w term defn) =
      [tk.sp, tk.sp] ++ term ++ List.replicate (T - term.length) tk.sp ++
        [tk.sp, tk.sp, tk.hy, tk.sp] ++ (defLines tk T w defn).getD 0 [] := by
  simp only [defParagraph, defLines, padTo, List.getElem_map, List.getElem_range, beq_self_eq_true,
    if_true, List.append_assoc]

/-- the term appears verbatim at offset 2 of the first line -/
theorem defParagraph_term (T : Nat) (w : Int) (term defn : List α) :
    (((defParagraph tk T w term defn)[0]'(defParagraph_pos tk T w term defn)).drop 2).take
      term.length = term := by
  rw [defParagraph_first]
  simp only [List.append_assoc, List.cons_append, List.nil_append, List.drop_succ_cons,
    List.drop_zero, List.take_left']

/-- dropping the `T + 6` columns of term, padding and marker from every line of a paragraph leaves
the wrapped lines of the definition -/
theorem defParagraph_drop (T : Nat) (w : Int) (term defn : List α) (ht : term.length ≤ T) :
    (defParagraph tk T w term defn).map (List.drop (T + 6)) = defLines tk T w defn := by
  apply List.ext_getElem
  · rw [List.length_map, defParagraph_length]
  · intro i h1 h2
    have hi : i < (defParagraph tk T w term defn).length := by simpa using h1
    obtain ⟨pre, e, hl, _⟩ := defParagraph_column tk T w term defn ht i hi
    rw [List.getElem_map, e, List.drop_append_of_le_length (by rw [hl]; exact Nat.le_refl _),
      List.drop_of_length_le (by rw [hl]; exact Nat.le_refl _), List.nil_append,
      List.getD_eq_getElem?_getD, List.getElem?_eq_getElem h2, Option.getD_some]

/-- C15, one paragraph, **no definition word lost** (exact form): splitting the parts of the lines
after column `T + 6` at whitespace gives the units of the definition, in order -/
theorem defParagraph_units (hsp : tk.ws tk.sp = true) (hhy : tk.ws tk.hy = false)
    (T : Nat) (w : Int) (term defn : List α) (ht : term.length ≤ T) :
    ((defParagraph tk T w term defn).map (List.drop (T + 6))).flatMap (words tk) =
      units tk (defWidth T w) defn := by
  rw [defParagraph_drop tk T w term defn ht, defLines_flatMap_words tk hsp hhy]

/-- … (function form) the words of the definition are recovered from them, in order -/
theorem defParagraph_words [DecidableEq α] (hsp : tk.ws tk.sp = true) (hhy : tk.ws tk.hy = false)
    (T : Nat) (w : Int) (term defn : List α) (ht : term.length ≤ T)
    (h : HyOK tk (defWidth T w) defn) :
    dehyphen tk (defWidth T w) ((defParagraph tk T w term defn).map (List.drop (T + 6))) =
      words tk defn := by
  unfold dehyphen
  rw [defParagraph_units tk hsp hhy T w term defn ht,
    rejoin_units tk (Nat.le_trans (by omega) (two_le_defWidth T w)) defn h]

/-- a definition without a word (empty, whitespace only) still has its term line, with the marker -/
theorem defParagraph_of_no_word (T : Nat) (w : Int) (term defn : List α) (h : words tk defn = []) :
    defParagraph tk T w term defn =
      [[tk.sp, tk.sp] ++ term ++ List.replicate (T - term.length) tk.sp ++
        [tk.sp, tk.sp, tk.hy, tk.sp]] := by
  have hl : (defParagraph tk T w term defn).length = 1 := by
    rw [defParagraph_length, defLines_of_no_word tk T w defn h]; rfl
  have h0 := defParagraph_first tk T w term defn
  rw [defLines_of_no_word tk T w defn h] at h0
  match hp : defParagraph tk T w term defn, hl with
  | [x], _ =>
    simp only [hp, List.getElem_cons_zero] at h0
    rw [h0]; simp

/-- the common term width -/
def termWidth (defs : List (List α × List α)) : Nat := defs.foldl (fun m d => max m d.1.length) 0

/-- C15: paragraph `j` is the paragraph of `defs[j]` (input order, same count) -/
theorem defTable_getElem (defs : List (List α × List α)) (w : Int) (j : Nat) (hj : j < defs.length) :
    (defTable tk defs w)[j]'(by rw [defTable_length]; exact hj) =
      defParagraph tk (termWidth defs) w defs[j].1 defs[j].2 := by
  simp only [defTable, termWidth, List.getElem_map]

/-- C15, **nothing lost**: one paragraph per definition, in input order; the first line of
paragraph `j` contains the term `defs[j].1` verbatim at offset 2; the tokens between whitespace
after column `T + 6` of the paragraph's lines are the units of the definition `defs[j].2` (the
pieces of its words, word after word); a definition without a word still has its term line -/
theorem defTable_no_loss (hsp : tk.ws tk.sp = true) (hhy : tk.ws tk.hy = false)
    (defs : List (List α × List α)) (w : Int) :
    (defTable tk defs w).length = defs.length ∧
    ∀ (j : Nat) (hj : j < defs.length) (hj' : j < (defTable tk defs w).length),
      ∃ h0 : 0 < ((defTable tk defs w)[j]).length,
        ((((defTable tk defs w)[j])[0]).drop 2).take defs[j].1.length = defs[j].1 ∧
        (((defTable tk defs w)[j]).map (List.drop (termWidth defs + 6))).flatMap (words tk) =
          units tk (defWidth (termWidth defs) w) defs[j].2 ∧
        (words tk defs[j].2 = [] → ((defTable tk defs w)[j]).length = 1) := by
  refine ⟨defTable_length tk defs w, ?_⟩
  intro j hj hj'
  have ht : defs[j].1.length ≤ termWidth defs := term_le_T defs _ (List.getElem_mem hj)
  have e := defTable_getElem tk defs w j hj
  refine ⟨by rw [e]; exact defParagraph_pos tk _ w _ _, ?_, ?_, ?_⟩
  · simp only [e]; exact defParagraph_term tk _ w _ _
  · rw [e]; exact defParagraph_units tk hsp hhy _ w _ _ ht
  · intro h; rw [e, defParagraph_of_no_word tk _ w _ _ h]; rfl

/-- C15 (function form): the words of every definition are recovered, in order, from the parts of
its paragraph's lines after column `T + 6` -/
theorem defTable_words [DecidableEq α] (hsp : tk.ws tk.sp = true) (hhy : tk.ws tk.hy = false)
    (defs : List (List α × List α)) (w : Int) (j : Nat) (hj : j < defs.length)
    (hj' : j < (defTable tk defs w).length)
    (h : HyOK tk (defWidth (termWidth defs) w) defs[j].2) :
    dehyphen tk (defWidth (termWidth defs) w)
      (((defTable tk defs w)[j]).map (List.drop (termWidth defs + 6))) = words tk defs[j].2 := by
  have ht : defs[j].1.length ≤ termWidth defs := term_le_T defs _ (List.getElem_mem hj)
  rw [defTable_getElem tk defs w j hj]
  exact defParagraph_words tk hsp hhy _ w _ _ ht h

/-! ### concrete examples (tokens = Nat, ws = (· == 0), sp = 0, hy = 99) -/

example : twoColumns tkN [1, 2, 3, 0, 4, 5, 6, 7, 8, 9] [7, 0, 8, 8, 0, 9] 2 12 ⟨false, 1, 1⟩ =
    [[1, 2, 3, 0, 0, 0, 0, 7, 0, 8, 8], [4, 5, 6, 7, 99, 0, 0, 9], [8, 9, 0, 0, 0, 0, 0]] := by decide
example : colWidths 2 12 ⟨false, 1, 1⟩ = (5, 5) := by decide
example :
    dehyphen tkN 5 ((twoColumns tkN [1, 2, 3, 0, 4, 5, 6, 7, 8, 9] [7, 0, 8, 8, 0, 9] 2 12
      ⟨false, 1, 1⟩).map (List.take 7)) = [[1, 2, 3], [4, 5, 6, 7, 8, 9]] ∧
    dehyphen tkN 5 ((twoColumns tkN [1, 2, 3, 0, 4, 5, 6, 7, 8, 9] [7, 0, 8, 8, 0, 9] 2 12
      ⟨false, 1, 1⟩).map (List.drop 7)) = [[7], [8, 8], [9]] := by decide

example : defTable tkN [([1, 2], [3, 0, 4, 4, 4, 4, 4, 0, 5]), ([6], [0, 0]), ([7, 7, 7], [])] 13 =
    [[[0, 0, 1, 2, 0, 0, 0, 99, 0, 3], [0, 0, 0, 0, 0, 0, 0, 0, 0, 4, 4, 4, 99],
      [0, 0, 0, 0, 0, 0, 0, 0, 0, 4, 4, 0, 5]],
     [[0, 0, 6, 0, 0, 0, 0, 99, 0]],
     [[0, 0, 7, 7, 7, 0, 0, 99, 0]]] := by decide
example : dehyphen tkN 4
    (((defTable tkN [([1, 2], [3, 0, 4, 4, 4, 4, 4, 0, 5]), ([6], [0, 0]), ([7, 7, 7], [])] 13).getD 0
      []).map (List.drop 9)) = [[3], [4, 4, 4, 4, 4], [5]] := by decide

end RosedVerif.Spec
