/-
Specification level for the layout family (C06, C07, C12, C13): text is a list
of TOKENS, one token per grapheme cluster; no segmentation happens here.
`ws` says which tokens are whitespace; `sp`/`hy` are the space and hyphen tokens.
-/
import RosedVerif.Model.Basic
namespace RosedVerif.Spec

variable {α : Type} [DecidableEq α]

structure Toks (α : Type) where
  ws : α → Bool
  sp : α
  hy : α

variable (tk : Toks α)

/-- maximal runs of non-whitespace tokens -/
def wordsAux : List α → List α → List (List α)
  | cur, [] => if cur.isEmpty then [] else [cur.reverse]
  | cur, c :: t =>
    if tk.ws c then (if cur.isEmpty then wordsAux [] t else cur.reverse :: wordsAux [] t)
    else wordsAux (c :: cur) t

def words (l : List α) : List (List α) := wordsAux tk [] l

/-- a word longer than `w` is cut into pieces of `w-1` tokens plus a hyphen; the last piece
has at most `w` tokens -/
def pieces (w : Nat) : Nat → List α → List (List α)
  | 0, word => [word]
  | f + 1, word =>
    if word.length ≤ w then [word]
    else (word.take (w - 1) ++ [tk.hy]) :: pieces w f (word.drop (w - 1))

/-- greedy line filling: a unit goes on the current line if it fits after one space -/
def fill (w : Nat) : List (List α) → List α → List (List α)
  | [], cur => if cur.isEmpty then [] else [cur]
  | u :: us, cur =>
    if cur.isEmpty then fill w us u
    else if cur.length + 1 + u.length ≤ w then fill w us (cur ++ [tk.sp] ++ u)
    else cur :: fill w us u

/-- the wrapped lines of a token list (`w` already clamped to ≥ 2). The empty text has one
empty line; a text of whitespace only has none. -/
def wrapLines (w : Nat) (l : List α) : List (List α) :=
  if l.isEmpty then [[]]
  else fill tk w ((words tk l).flatMap fun wd => pieces tk w wd.length wd) []

/-- every whitespace token becomes a space, runs of spaces become one -/
def collapse : List α → List α
  | [] => []
  | [c] => [if tk.ws c then tk.sp else c]
  | c :: d :: t =>
    if tk.ws c && tk.ws d then collapse (d :: t)
    else (if tk.ws c then tk.sp else c) :: collapse (d :: t)

def stripLeft (l : List α) : List α := l.dropWhile tk.ws
def stripRight (l : List α) : List α := (l.reverse.dropWhile tk.ws).reverse

def pad (n : Nat) : List α := List.replicate n tk.sp

def alignLeft (w : Int) (l : List α) : List α :=
  let t := stripLeft tk l
  t ++ pad tk (w - t.length).toNat

def alignRight (w : Int) (l : List α) : List α :=
  let t := stripRight tk l
  pad tk (w - t.length).toNat ++ t

def alignCenter (w : Int) (l : List α) : List α :=
  let t := stripRight tk (stripLeft tk l)
  let need := w - t.length
  if need ≤ 0 then t
  else
    let right := need / 2
    let left := need - right
    pad tk left.toNat ++ t ++ pad tk right.toNat

end RosedVerif.Spec
