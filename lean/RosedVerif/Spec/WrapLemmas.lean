/-
Theorems about the specification of Wrap (greedy word wrap over tokens):
`Spec.words`, `Spec.pieces`, `Spec.fill`, `Spec.wrapLines`.
-/
import RosedVerif.Spec.Layout
namespace RosedVerif.Spec

variable {α : Type} (tk : Toks α)

/-! ### 1. / 2.  words -/

theorem wordsAux_nonempty (cur l : List α) : ∀ wd ∈ wordsAux tk cur l, wd ≠ [] := by
  induction l generalizing cur with
  | nil =>
    intro wd h
    cases cur with
    | nil => simp [wordsAux] at h
    | cons a t => simp [wordsAux] at h; subst h; simp
  | cons c t ih =>
    intro wd h
    unfold wordsAux at h
    split at h
    · cases cur with
      | nil => exact ih [] wd (by simpa using h)
      | cons a t' =>
        simp only [List.isEmpty_cons, Bool.false_eq_true, ↓reduceIte, List.mem_cons] at h
        rcases h with h | h
        · subst h; simp
        · exact ih [] wd h
    · exact ih _ wd h

theorem words_nonempty (l : List α) : ∀ wd ∈ words tk l, wd ≠ [] :=
  wordsAux_nonempty tk [] l

theorem wordsAux_no_ws (cur l : List α) (hc : ∀ c ∈ cur, tk.ws c = false) :
    ∀ wd ∈ wordsAux tk cur l, ∀ c ∈ wd, tk.ws c = false := by
  induction l generalizing cur with
  | nil =>
    intro wd h
    cases cur with
    | nil => simp [wordsAux] at h
    | cons a t =>
      simp only [wordsAux, List.isEmpty_cons, Bool.false_eq_true, ↓reduceIte,
        List.mem_singleton] at h
      subst h
      intro c hcm
      exact hc c (List.mem_reverse.1 hcm)
  | cons c t ih =>
    intro wd h
    unfold wordsAux at h
    split at h
    · cases cur with
      | nil => exact ih [] (by simp) wd (by simpa using h)
      | cons a t' =>
        simp only [List.isEmpty_cons, Bool.false_eq_true, ↓reduceIte, List.mem_cons] at h
        rcases h with h | h
        · subst h
          intro c hcm
          exact hc c (List.mem_reverse.1 hcm)
        · exact ih [] (by simp) wd h
    · rename_i hws
      refine ih (c :: cur) ?_ wd h
      intro d hd
      rcases List.mem_cons.1 hd with hd | hd
      · subst hd; simpa using hws
      · exact hc d hd

theorem words_no_ws (l : List α) : ∀ wd ∈ words tk l, ∀ c ∈ wd, tk.ws c = false :=
  wordsAux_no_ws tk [] l (by simp)

theorem wordsAux_flatten (cur l : List α) :
    (wordsAux tk cur l).flatten = cur.reverse ++ l.filter (fun c => !tk.ws c) := by
  induction l generalizing cur with
  | nil =>
    cases cur with
    | nil => simp [wordsAux]
    | cons a t => simp [wordsAux]
  | cons c t ih =>
    unfold wordsAux
    split
    · rename_i hws
      cases cur with
      | nil => simp [ih, hws]
      | cons a t' => simp [ih, hws]
    · rename_i hws
      simp [ih, hws]

/-- no text lost or reordered -/
theorem words_flatten (l : List α) :
    (words tk l).flatten = l.filter (fun c => !tk.ws c) := by
  simp [words, wordsAux_flatten]

/-! ### 3. – 6.  pieces -/

theorem pieces_ne_nil (w f : Nat) (word : List α) : pieces tk w f word ≠ [] := by
  cases f with
  | zero => simp [pieces]
  | succ f => unfold pieces; split <;> simp

theorem pieces_length_le {w : Nat} (hw : 2 ≤ w) (word : List α) (f : Nat)
    (hf : word.length ≤ f) : ∀ p ∈ pieces tk w f word, p.length ≤ w := by
  induction f generalizing word with
  | zero =>
    intro p hp
    simp only [pieces, List.mem_singleton] at hp
    subst hp; omega
  | succ f ih =>
    intro p hp
    unfold pieces at hp
    split at hp
    · simp only [List.mem_singleton] at hp
      subst hp; assumption
    · rcases List.mem_cons.1 hp with hp | hp
      · subst hp
        simp only [List.length_append, List.length_take, List.length_cons, List.length_nil]
        omega
      · refine ih (word.drop (w - 1)) ?_ p hp
        simp only [List.length_drop]
        omega

theorem pieces_nonempty {w : Nat} (hw : 2 ≤ w) (word : List α) (f : Nat) (h : word ≠ []) :
    ∀ p ∈ pieces tk w f word, p ≠ [] := by
  induction f generalizing word with
  | zero =>
    intro p hp
    simp only [pieces, List.mem_singleton] at hp
    subst hp; exact h
  | succ f ih =>
    intro p hp
    unfold pieces at hp
    split at hp
    · simp only [List.mem_singleton] at hp
      subst hp; exact h
    · rename_i hlen
      rcases List.mem_cons.1 hp with hp | hp
      · subst hp; simp
      · refine ih (word.drop (w - 1)) ?_ p hp
        intro h0
        have := congrArg List.length h0
        simp only [List.length_drop, List.length_nil] at this
        omega

/-- a word is split only if it is longer than `w` -/
theorem pieces_single {w : Nat} (word : List α) (f : Nat) (h : word.length ≤ w) :
    pieces tk w f word = [word] := by
  cases f with
  | zero => rfl
  | succ f => simp [pieces, h]

theorem dropLast_cons_of_ne_nil' {β : Type} (x : β) {l : List β} (h : l ≠ []) :
    (x :: l).dropLast = x :: l.dropLast := by
  cases l with
  | nil => exact absurd rfl h
  | cons a t => rfl

/-- every non-final piece is `w-1` tokens plus a hyphen (the fuel hypothesis is not needed) -/
theorem pieces_shape' {w : Nat} (hw : 1 ≤ w) (word : List α) (f : Nat) :
    ∀ p ∈ (pieces tk w f word).dropLast, p.length = w ∧ p.getLast? = some tk.hy := by
  induction f generalizing word with
  | zero => intro p hp; simp [pieces] at hp
  | succ f ih =>
    intro p hp
    unfold pieces at hp
    split at hp
    · simp at hp
    · rw [dropLast_cons_of_ne_nil' _ (pieces_ne_nil tk w f _)] at hp
      rcases List.mem_cons.1 hp with hp | hp
      · subst hp
        refine ⟨?_, ?_⟩
        · simp only [List.length_append, List.length_take, List.length_cons, List.length_nil]
          omega
        · simp
      · exact ih _ p hp

theorem pieces_shape {w : Nat} (hw : 2 ≤ w) (word : List α) (f : Nat) (_hf : word.length ≤ f) :
    ∀ p ∈ (pieces tk w f word).dropLast, p.length = w ∧ p.getLast? = some tk.hy :=
  pieces_shape' tk (by omega) word f

/-- drop the final token (the hyphen) of every non-final piece and concatenate -/
def unhyphen (ps : List (List α)) : List α :=
  (ps.dropLast.map List.dropLast).flatten ++ ps.getLastD []

theorem unhyphen_singleton (p : List α) : unhyphen [p] = p := by
  simp [unhyphen]

theorem unhyphen_cons (p : List α) {ps : List (List α)} (h : ps ≠ []) :
    unhyphen (p :: ps) = p.dropLast ++ unhyphen ps := by
  cases ps with
  | nil => exact absurd rfl h
  | cons a t => simp [unhyphen, List.getLastD]

/-- dehyphenation gives the word back (no hypothesis on `w` or the fuel is needed) -/
theorem pieces_unhyphen' (w : Nat) (word : List α) (f : Nat) :
    unhyphen (pieces tk w f word) = word := by
  induction f generalizing word with
  | zero => simp [pieces, unhyphen_singleton]
  | succ f ih =>
    unfold pieces
    split
    · exact unhyphen_singleton _
    · rw [unhyphen_cons _ (pieces_ne_nil tk w f _), ih]
      simp

theorem pieces_unhyphen {w : Nat} (_hw : 2 ≤ w) (word : List α) (f : Nat)
    (_hf : word.length ≤ f) : unhyphen (pieces tk w f word) = word :=
  pieces_unhyphen' tk w word f

/-- the tokens of a piece are tokens of the word, or the hyphen -/
theorem pieces_mem_tokens (w : Nat) (word : List α) (f : Nat) :
    ∀ p ∈ pieces tk w f word, ∀ c ∈ p, c ∈ word ∨ c = tk.hy := by
  induction f generalizing word with
  | zero =>
    intro p hp c hc
    simp only [pieces, List.mem_singleton] at hp
    subst hp; exact Or.inl hc
  | succ f ih =>
    intro p hp c hc
    unfold pieces at hp
    split at hp
    · simp only [List.mem_singleton] at hp
      subst hp; exact Or.inl hc
    · rcases List.mem_cons.1 hp with hp | hp
      · subst hp
        rcases List.mem_append.1 hc with hc | hc
        · exact Or.inl (List.mem_of_mem_take hc)
        · exact Or.inr (by simpa using hc)
      · rcases ih _ p hp c hc with h | h
        · exact Or.inl (List.mem_of_mem_drop h)
        · exact Or.inr h

/-! ### 7. – 9.  fill: width and non-emptiness -/

theorem fill_width {w : Nat} (us : List (List α)) (cur : List α)
    (hu : ∀ u ∈ us, u.length ≤ w) (hc : cur.length ≤ w) :
    ∀ l ∈ fill tk w us cur, l.length ≤ w := by
  induction us generalizing cur with
  | nil =>
    intro l hl
    unfold fill at hl
    split at hl
    · simp at hl
    · simp only [List.mem_singleton] at hl
      subst hl; exact hc
  | cons u us ih =>
    have hu' : ∀ v ∈ us, v.length ≤ w := fun v hv => hu v (List.mem_cons_of_mem _ hv)
    have hul : u.length ≤ w := hu u List.mem_cons_self
    intro l hl
    unfold fill at hl
    split at hl
    · exact ih u hu' hul l hl
    · split at hl
      · refine ih _ hu' ?_ l hl
        simpa only [List.length_append, List.length_cons, List.length_nil] using ‹_ ≤ w›
      · rcases List.mem_cons.1 hl with hl | hl
        · subst hl; exact hc
        · exact ih u hu' hul l hl

/-- the units of a text: its words, over-long ones cut into hyphenated pieces -/
def units (w : Nat) (l : List α) : List (List α) :=
  (words tk l).flatMap fun wd => pieces tk w wd.length wd

theorem wrapLines_eq_fill_units (w : Nat) (l : List α) (h : l ≠ []) :
    wrapLines tk w l = fill tk w (units tk w l) [] := by
  cases l with
  | nil => exact absurd rfl h
  | cons a t => rfl

theorem units_length_le {w : Nat} (hw : 2 ≤ w) (l : List α) :
    ∀ u ∈ units tk w l, u.length ≤ w := by
  intro u hu
  obtain ⟨wd, _, hp⟩ := List.mem_flatMap.1 hu
  exact pieces_length_le tk hw wd wd.length (Nat.le_refl _) u hp

theorem units_nonempty {w : Nat} (hw : 2 ≤ w) (l : List α) :
    ∀ u ∈ units tk w l, u ≠ [] := by
  intro u hu
  obtain ⟨wd, hwd, hp⟩ := List.mem_flatMap.1 hu
  exact pieces_nonempty tk hw wd wd.length (words_nonempty tk l wd hwd) u hp

/-- C06 clause 1: no output line is wider than `w` -/
theorem wrapLines_width {w : Nat} (hw : 2 ≤ w) (l : List α) :
    ∀ line ∈ wrapLines tk w l, line.length ≤ w := by
  intro line hl
  cases l with
  | nil =>
    simp only [wrapLines, List.isEmpty_nil, ↓reduceIte, List.mem_singleton] at hl
    subst hl; simp
  | cons a t =>
    rw [wrapLines_eq_fill_units tk w _ (by simp)] at hl
    exact fill_width tk _ [] (units_length_le tk hw _) (by simp) line hl

theorem fill_nonempty {w : Nat} (us : List (List α)) (cur : List α)
    (hu : ∀ u ∈ us, u ≠ []) : ∀ l ∈ fill tk w us cur, l ≠ [] := by
  induction us generalizing cur with
  | nil =>
    intro l hl
    unfold fill at hl
    split at hl
    · simp at hl
    · rename_i hne
      simp only [List.mem_singleton] at hl
      subst hl
      intro h0; subst h0; simp at hne
  | cons u us ih =>
    have hu' : ∀ v ∈ us, v ≠ [] := fun v hv => hu v (List.mem_cons_of_mem _ hv)
    intro l hl
    unfold fill at hl
    split at hl
    · exact ih u hu' l hl
    · rename_i hne
      split at hl
      · exact ih _ hu' l hl
      · rcases List.mem_cons.1 hl with hl | hl
        · subst hl
          intro h0; subst h0; simp at hne
        · exact ih u hu' l hl

/-- if the text has at least one word, no output line is empty
(in fact no line is empty as soon as the text is non-empty, see `wrapLines_nonempty'`) -/
theorem wrapLines_nonempty {w : Nat} (hw : 2 ≤ w) (l : List α) (h : words tk l ≠ []) :
    ∀ line ∈ wrapLines tk w l, line ≠ [] := by
  intro line hl
  have hl0 : l ≠ [] := by
    intro h0; subst h0; exact h rfl
  rw [wrapLines_eq_fill_units tk w l hl0] at hl
  exact fill_nonempty tk _ [] (units_nonempty tk hw l) line hl

theorem wrapLines_nonempty' {w : Nat} (hw : 2 ≤ w) (l : List α) (h : l ≠ []) :
    ∀ line ∈ wrapLines tk w l, line ≠ [] := by
  intro line hl
  rw [wrapLines_eq_fill_units tk w l h] at hl
  exact fill_nonempty tk _ [] (units_nonempty tk hw l) line hl

/-! ### 10. / 11.  structure of the lines: an ordered partition of the units, greedy -/

/-- the units of one line, joined by single spaces -/
def joinSp (us : List (List α)) : List α := List.intercalate [tk.sp] us

@[simp] theorem joinSp_nil : joinSp tk [] = [] := rfl

@[simp] theorem joinSp_singleton (u : List α) : joinSp tk [u] = u := by
  simp [joinSp]

theorem joinSp_cons_cons (u v : List α) (r : List (List α)) :
    joinSp tk (u :: v :: r) = u ++ [tk.sp] ++ joinSp tk (v :: r) := by
  simp [joinSp, List.intercalate_cons_cons]

theorem joinSp_append {a b : List (List α)} (ha : a ≠ []) (hb : b ≠ []) :
    joinSp tk (a ++ b) = joinSp tk a ++ [tk.sp] ++ joinSp tk b := by
  induction a with
  | nil => exact absurd rfl ha
  | cons x a ih =>
    cases a with
    | nil =>
      cases b with
      | nil => exact absurd rfl hb
      | cons y b => simp [joinSp_cons_cons]
    | cons x' a =>
      have := ih (by simp)
      simp only [List.cons_append] at this ⊢
      rw [joinSp_cons_cons, this, joinSp_cons_cons]
      simp

theorem joinSp_concat {g : List (List α)} (hg : g ≠ []) (u : List α) :
    joinSp tk (g ++ [u]) = joinSp tk g ++ [tk.sp] ++ u := by
  rw [joinSp_append tk hg (by simp), joinSp_singleton]

theorem joinSp_ne_nil {g : List (List α)} (hg : g ≠ []) (hu : ∀ u ∈ g, u ≠ []) :
    joinSp tk g ≠ [] := by
  cases g with
  | nil => exact absurd rfl hg
  | cons u r =>
    have hune : u ≠ [] := hu u List.mem_cons_self
    cases r with
    | nil => simpa using hune
    | cons v r => rw [joinSp_cons_cons]; simp [hune]

/-- C06 clause 3 (greedy): the first unit of each line would not have fitted on the
previous line (after one space). -/
def Greedy (w : Nat) : List (List (List α)) → Prop
  | [] => True
  | [_] => True
  | g₁ :: g₂ :: rest =>
    (∀ u, g₂.head? = some u → w < (joinSp tk g₁).length + 1 + u.length) ∧
      Greedy w (g₂ :: rest)

/-- index form of `Greedy` -/
theorem Greedy.get {w : Nat} {groups : List (List (List α))} (h : Greedy tk w groups)
    (i : Nat) (hi : i + 1 < groups.length) (u : List α)
    (hu : (groups[i + 1]).head? = some u) :
    w < (joinSp tk (groups[i]'(by omega))).length + 1 + u.length := by
  induction groups generalizing i with
  | nil => simp at hi
  | cons g₁ rest ih =>
    cases rest with
    | nil => simp at hi
    | cons g₂ rest =>
      cases i with
      | zero => exact h.1 u (by simpa using hu)
      | succ i =>
        exact ih h.2 i (by simpa using hi) (by simpa using hu)

/-- generalisation of `fill_partition` over the current line: if the current line is the
join of a non-empty run `g₀` of units, the output is the line of `g₀ ++ g₁` for a prefix `g₁` of
the remaining units, followed by the lines of a partition of the rest. -/
theorem fill_partition_aux {w : Nat} (us : List (List α)) (hu : ∀ u ∈ us, u ≠ [])
    (g₀ : List (List α)) (hg₀ : g₀ ≠ []) (hg₀u : ∀ u ∈ g₀, u ≠ []) :
    ∃ (g₁ : List (List α)) (groups : List (List (List α))),
      g₁ ++ groups.flatten = us ∧ (∀ g ∈ groups, g ≠ []) ∧
      fill tk w us (joinSp tk g₀) = joinSp tk (g₀ ++ g₁) :: groups.map (joinSp tk) ∧
      Greedy tk w ((g₀ ++ g₁) :: groups) := by
  induction us generalizing g₀ with
  | nil =>
    refine ⟨[], [], rfl, by simp, ?_, trivial⟩
    have hne := joinSp_ne_nil tk hg₀ hg₀u
    simp [fill, hne]
  | cons u us ih =>
    have hu' : ∀ v ∈ us, v ≠ [] := fun v hv => hu v (List.mem_cons_of_mem _ hv)
    have hune : u ≠ [] := hu u List.mem_cons_self
    have hne := joinSp_ne_nil tk hg₀ hg₀u
    have hemp : (joinSp tk g₀).isEmpty = false := by
      simpa [List.isEmpty_iff] using hne
    by_cases hfit : (joinSp tk g₀).length + 1 + u.length ≤ w
    · obtain ⟨g₁, groups, hfl, hgne, hfill, hgr⟩ :=
        ih hu' (g₀ ++ [u]) (by simp) (by
          intro v hv
          rcases List.mem_append.1 hv with hv | hv
          · exact hg₀u v hv
          · simp only [List.mem_singleton] at hv; subst hv; exact hune)
      refine ⟨u :: g₁, groups, by simp [hfl], hgne, ?_, ?_⟩
      · unfold fill
        rw [if_neg (by simp [hemp]), if_pos hfit, ← joinSp_concat tk hg₀, hfill]
        simp
      · simpa using hgr
    · obtain ⟨g₁, groups, hfl, hgne, hfill, hgr⟩ :=
        ih hu' [u] (by simp) (by
          intro v hv
          simp only [List.mem_singleton] at hv; subst hv; exact hune)
      refine ⟨[], ([u] ++ g₁) :: groups, by simp [hfl], ?_, ?_, ?_⟩
      · intro g hg
        rcases List.mem_cons.1 hg with hg | hg
        · subst hg; simp
        · exact hgne g hg
      · unfold fill
        rw [if_neg (by simp [hemp]), if_neg hfit]
        rw [joinSp_singleton] at hfill
        rw [hfill]
        simp
      · refine ⟨?_, hgr⟩
        intro v hv
        simp only [List.append_nil]
        simp only [List.cons_append, List.nil_append, List.head?_cons, Option.some.injEq] at hv
        subst hv
        omega

/-- the lines are the joins of the groups of an ordered partition of the units into non-empty
runs, and the partition is greedy -/
theorem fill_partition_greedy {w : Nat} (us : List (List α)) (hu : ∀ u ∈ us, u ≠ []) :
    ∃ groups : List (List (List α)), groups.flatten = us ∧ (∀ g ∈ groups, g ≠ []) ∧
      fill tk w us [] = groups.map (joinSp tk) ∧ Greedy tk w groups := by
  cases us with
  | nil => exact ⟨[], rfl, by simp, by simp [fill], trivial⟩
  | cons u us =>
    have hu' : ∀ v ∈ us, v ≠ [] := fun v hv => hu v (List.mem_cons_of_mem _ hv)
    have hune : u ≠ [] := hu u List.mem_cons_self
    obtain ⟨g₁, groups, hfl, hgne, hfill, hgr⟩ :=
      fill_partition_aux tk (w := w) us hu' [u] (by simp) (by
        intro v hv
        simp only [List.mem_singleton] at hv; subst hv; exact hune)
    refine ⟨([u] ++ g₁) :: groups, by simp [hfl], ?_, ?_, hgr⟩
    · intro g hg
      rcases List.mem_cons.1 hg with hg | hg
      · subst hg; simp
      · exact hgne g hg
    · rw [joinSp_singleton] at hfill
      simp only [fill, List.isEmpty_nil, ↓reduceIte, hfill, List.map_cons]

theorem fill_partition {w : Nat} (us : List (List α)) (hu : ∀ u ∈ us, u ≠ []) :
    ∃ groups : List (List (List α)), groups.flatten = us ∧ (∀ g ∈ groups, g ≠ []) ∧
      fill tk w us [] = groups.map (joinSp tk) := by
  obtain ⟨groups, h1, h2, h3, _⟩ := fill_partition_greedy tk (w := w) us hu
  exact ⟨groups, h1, h2, h3⟩

/-- items 10 + 11 for `wrapLines`, together with the width bound of item 8 -/
theorem wrapLines_partition {w : Nat} (hw : 2 ≤ w) (l : List α) (h : l ≠ []) :
    ∃ groups : List (List (List α)), groups.flatten = units tk w l ∧ (∀ g ∈ groups, g ≠ []) ∧
      wrapLines tk w l = groups.map (joinSp tk) ∧ Greedy tk w groups ∧
      (∀ g ∈ groups, (joinSp tk g).length ≤ w) := by
  obtain ⟨groups, h1, h2, h3, h4⟩ :=
    fill_partition_greedy tk (w := w) (units tk w l) (units_nonempty tk hw l)
  rw [← wrapLines_eq_fill_units tk w l h] at h3
  refine ⟨groups, h1, h2, h3, h4, ?_⟩
  intro g hg
  apply wrapLines_width tk hw l
  rw [h3]
  exact List.mem_map_of_mem hg

/-! ### 12.  idempotence -/

theorem joinSp_map_joinSp (groups : List (List (List α))) (h : ∀ g ∈ groups, g ≠ []) :
    joinSp tk (groups.map (joinSp tk)) = joinSp tk groups.flatten := by
  induction groups with
  | nil => rfl
  | cons g rest ih =>
    cases rest with
    | nil => simp
    | cons g' rest =>
      have hg : g ≠ [] := h g List.mem_cons_self
      have hg' : g' ≠ [] := h g' (by simp)
      have ih' := ih (fun x hx => h x (List.mem_cons_of_mem _ hx))
      simp only [List.map_cons] at ih' ⊢
      have e : (g :: g' :: rest).flatten = g ++ (g' :: rest).flatten := List.flatten_cons
      rw [joinSp_cons_cons, ih', e, joinSp_append tk hg (by simp [hg'])]

theorem wordsAux_append_no_ws (cur u rest : List α) (hu : ∀ c ∈ u, tk.ws c = false) :
    wordsAux tk cur (u ++ rest) = wordsAux tk (u.reverse ++ cur) rest := by
  induction u generalizing cur with
  | nil => rfl
  | cons c t ih =>
    have hc : tk.ws c = false := hu c List.mem_cons_self
    have := ih (c :: cur) (fun d hd => hu d (List.mem_cons_of_mem _ hd))
    simp only [List.cons_append, wordsAux, hc, Bool.false_eq_true, ↓reduceIte, this,
      List.reverse_cons, List.append_assoc, List.cons_append, List.nil_append]

/-- splitting a space-joined list of ws-free, non-empty units gives the units back -/
theorem words_joinSp (hsp : tk.ws tk.sp = true) (us : List (List α))
    (hne : ∀ u ∈ us, u ≠ []) (hws : ∀ u ∈ us, ∀ c ∈ u, tk.ws c = false) :
    words tk (joinSp tk us) = us := by
  induction us with
  | nil => rfl
  | cons u r ih =>
    have hune : u ≠ [] := hne u List.mem_cons_self
    have huws := hws u List.mem_cons_self
    have hrev : u.reverse.isEmpty = false := by
      cases u with
      | nil => exact absurd rfl hune
      | cons a t => simp
    cases r with
    | nil =>
      have := wordsAux_append_no_ws tk [] u [] huws
      simp only [List.append_nil] at this
      simp only [joinSp_singleton, words, this, wordsAux, hrev, Bool.false_eq_true, ↓reduceIte,
        List.reverse_reverse]
    | cons v r =>
      have ih' := ih (fun x hx => hne x (List.mem_cons_of_mem _ hx))
        (fun x hx => hws x (List.mem_cons_of_mem _ hx))
      have := wordsAux_append_no_ws tk [] u ([tk.sp] ++ joinSp tk (v :: r)) huws
      simp only [List.append_nil] at this
      unfold words at ih' ⊢
      rw [joinSp_cons_cons, List.append_assoc, this]
      simp only [List.singleton_append, wordsAux, hsp, ↓reduceIte, hrev, Bool.false_eq_true,
        List.reverse_reverse, ih']

theorem units_no_ws (hhy : tk.ws tk.hy = false) (w : Nat) (l : List α) :
    ∀ u ∈ units tk w l, ∀ c ∈ u, tk.ws c = false := by
  intro u hu c hc
  obtain ⟨wd, hwd, hp⟩ := List.mem_flatMap.1 hu
  rcases pieces_mem_tokens tk w wd wd.length u hp c hc with h | h
  · exact words_no_ws tk l wd hwd c h
  · subst h; exact hhy

theorem flatMap_pieces_of_short {w : Nat} (us : List (List α)) (h : ∀ u ∈ us, u.length ≤ w) :
    (us.flatMap fun wd => pieces tk w wd.length wd) = us := by
  induction us with
  | nil => rfl
  | cons u r ih =>
    rw [List.flatMap_cons, pieces_single tk u u.length (h u List.mem_cons_self),
      ih (fun x hx => h x (List.mem_cons_of_mem _ hx))]
    rfl

/-- the units of the re-joined units are the units -/
theorem units_joinSp_units {w : Nat} (hw : 2 ≤ w) (hsp : tk.ws tk.sp = true)
    (hhy : tk.ws tk.hy = false) (l : List α) :
    units tk w (joinSp tk (units tk w l)) = units tk w l := by
  have h1 := words_joinSp tk hsp (units tk w l) (units_nonempty tk hw l) (units_no_ws tk hhy w l)
  show ((words tk (joinSp tk (units tk w l))).flatMap fun wd => pieces tk w wd.length wd) = _
  rw [h1]
  exact flatMap_pieces_of_short tk _ (units_length_le tk hw l)

/-- joining the wrapped lines with spaces gives the units joined with spaces
(for any non-empty text) -/
theorem joinSp_wrapLines {w : Nat} (hw : 2 ≤ w) (l : List α) (h : l ≠ []) :
    joinSp tk (wrapLines tk w l) = joinSp tk (units tk w l) := by
  obtain ⟨groups, h1, h2, h3, _⟩ := wrapLines_partition tk hw l h
  rw [h3, joinSp_map_joinSp tk groups h2, h1]

/-- idempotence: re-wrapping the output lines (a line separator acts as a space) gives the same
lines, whenever the text has at least one word. -/
theorem wrapLines_idem {w : Nat} (hw : 2 ≤ w) (hsp : tk.ws tk.sp = true)
    (hhy : tk.ws tk.hy = false) (l : List α) (h : words tk l ≠ []) :
    wrapLines tk w (List.intercalate [tk.sp] (wrapLines tk w l)) = wrapLines tk w l := by
  have hl0 : l ≠ [] := by
    intro h0; subst h0; exact h rfl
  have hune : units tk w l ≠ [] := by
    cases hwl : words tk l with
    | nil => exact absurd hwl h
    | cons wd r =>
      have hp := pieces_ne_nil tk w wd.length wd
      intro h0
      simp only [units, hwl, List.flatMap_cons, List.append_eq_nil_iff] at h0
      exact hp h0.1
  have hj : joinSp tk (units tk w l) ≠ [] :=
    joinSp_ne_nil tk hune (units_nonempty tk hw l)
  show wrapLines tk w (joinSp tk (wrapLines tk w l)) = _
  rw [joinSp_wrapLines tk hw l hl0, wrapLines_eq_fill_units tk w _ hj,
    units_joinSp_units tk hw hsp hhy l, ← wrapLines_eq_fill_units tk w l hl0]

/-- without a word the statement fails: a whitespace-only text wraps to no lines at all, and
re-wrapping the (empty) join gives one empty line. -/
example : wrapLines (⟨(· == 0), 0, 99⟩ : Toks Nat) 5 [0, 0] = [] := by decide
example : wrapLines (⟨(· == 0), 0, 99⟩ : Toks Nat) 5
    (List.intercalate [0] (wrapLines (⟨(· == 0), 0, 99⟩ : Toks Nat) 5 [0, 0])) = [[]] := by decide

/-! ### concrete examples (tokens = Nat, ws = (· == 0), sp = 0, hy = 99) -/

section examples
def tkN : Toks Nat := ⟨(· == 0), 0, 99⟩

example : words tkN [1, 2, 3, 0, 4, 5, 6, 7, 8, 9, 0, 1] = [[1, 2, 3], [4, 5, 6, 7, 8, 9], [1]] := by
  decide
example : pieces tkN 5 6 [4, 5, 6, 7, 8, 9] = [[4, 5, 6, 7, 99], [8, 9]] := by decide
example : unhyphen (pieces tkN 5 6 [4, 5, 6, 7, 8, 9]) = [4, 5, 6, 7, 8, 9] := by decide
example : wrapLines tkN 5 [1, 2, 3, 0, 4, 5, 6, 7, 8, 9, 0, 1] =
    [[1, 2, 3], [4, 5, 6, 7, 99], [8, 9, 0, 1]] := by decide
example : wrapLines tkN 5 [0, 0, 1, 2, 0, 0, 3, 0, 4, 5, 0] = [[1, 2, 0, 3], [4, 5]] := by decide
example : wrapLines tkN 2 [1, 2, 3, 4, 5] = [[1, 99], [2, 99], [3, 99], [4, 5]] := by decide
example : wrapLines tkN 5 ([] : List Nat) = [[]] := by decide
example : wrapLines tkN 5 [0] = [] := by decide
example : wrapLines tkN 5 (List.intercalate [tkN.sp]
      (wrapLines tkN 5 [1, 2, 3, 0, 4, 5, 6, 7, 8, 9, 0, 1])) =
    wrapLines tkN 5 [1, 2, 3, 0, 4, 5, 6, 7, 8, 9, 0, 1] := by decide
example : joinSp tkN [[1, 2], [3], [4, 5]] = [1, 2, 0, 3, 0, 4, 5] := by decide
end examples

end RosedVerif.Spec
