/-
Specification level for the composite layouts over tokens (one token per cluster): two columns
(C14) and the definitions table (C15), written from the property statements, independently of the
model's code paths.  Built from `Spec.wrapLines`.
-/
import RosedVerif.Spec.Layout
import RosedVerif.Model.Ops
namespace RosedVerif.Spec

variable {α : Type} (tk : Toks α)

def padTo (n : Nat) (l : List α) : List α := l ++ List.replicate (n - l.length) tk.sp

/-- column widths: left = clamp(⌊(W' − gap)·p⌋, 2, W' − gap − 2), right = the rest; W' = max W (gap + 4) -/
def colWidths (gap width : Int) (pct : Pct) : Nat × Nat :=
  let width := if width < gap + 4 then gap + 4 else width
  let avail := width - gap
  let (num, exp) :=
    if pct.neg ∨ pct.num == 0 then (0, 0) else if pct.num > 2 ^ pct.exp then (1, 0) else (pct.num, pct.exp)
  let l : Int := mulRoundTrunc avail.toNat num exp
  let l := if l < 2 then 2 else l
  let l := if l > avail - 2 then avail - 2 else l
  (l.toNat, (avail - l).toNat)

/-- line i = i-th wrapped left line padded to the left width plus the gap, then the i-th wrapped
right line; max(left, right) lines in total -/
def twoColumns (left right : List α) (gap width : Int) (pct : Pct) : List (List α) :=
  let (lw, rw) := colWidths gap width pct
  let wl := wrapLines tk lw left
  let wr := wrapLines tk rw right
  (List.range (max wl.length wr.length)).map fun i =>
    padTo tk (lw + gap.toNat) (wl.getD i []) ++ wr.getD i []

/-- one definition paragraph: first line `  term<pad>  - first`, continuation lines indented to the
same column T + 6 -/
def defParagraph (T : Nat) (w : Int) (term defn : List α) : List (List α) :=
  let rightW : Int := w - (T + 2) - 2 - 2
  let ls := wrapLines tk (if rightW < 2 then 2 else rightW).toNat defn
  let ls := if ls.isEmpty then [[]] else ls     -- the marker is always rendered
  (List.range ls.length).map fun i =>
    if i == 0 then [tk.sp, tk.sp] ++ padTo tk T term ++ [tk.sp, tk.sp, tk.hy, tk.sp] ++ ls.getD 0 []
    else List.replicate (T + 6) tk.sp ++ ls.getD i []

def defTable (defs : List (List α × List α)) (w : Int) : List (List (List α)) :=
  let T := defs.foldl (fun m d => max m d.1.length) 0
  defs.map fun d => defParagraph tk T w d.1 d.2

end RosedVerif.Spec
