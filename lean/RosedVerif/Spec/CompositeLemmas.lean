/-
Clauses of C14 / C15 proved of the composite specifications (every token type).
-/
import RosedVerif.Spec.Composite
import RosedVerif.Spec.WrapLemmas
namespace RosedVerif.Spec
variable {α : Type} (tk : Toks α)

theorem length_padTo (n : Nat) (l : List α) : (padTo tk n l).length = max n l.length := by
  simp only [padTo, List.length_append, List.length_replicate]; omega

theorem padTo_take (n : Nat) (l : List α) (h : l.length ≤ n) (r : List α) :
    (padTo tk n l ++ r).take n = padTo tk n l := by
  have : (padTo tk n l).length = n := by rw [length_padTo]; omega
  rw [List.take_append_of_le_length (by omega), List.take_of_length_le (by omega)]

/-- both columns are at least 2 wide and, with the gap, fill exactly the (minimum-clamped) width —
for every percentage, every width, every gap ≥ 0 -/
theorem colWidths_spec (gap width : Int) (pct : Pct) (hg : 0 ≤ gap) :
    2 ≤ (colWidths gap width pct).1 ∧ 2 ≤ (colWidths gap width pct).2 ∧
    ((colWidths gap width pct).1 : Int) + gap + (colWidths gap width pct).2 = max width (gap + 4) := by
  unfold colWidths
  simp only
  generalize hl : (mulRoundTrunc _ _ _ : Nat) = m
  constructor
  · split <;> split <;> omega
  constructor
  · split <;> split <;> split <;> omega
  · split <;> split <;> split <;> omega

/-- number of lines = max(left, right) -/
theorem twoColumns_length (left right : List α) (gap width : Int) (pct : Pct) :
    (twoColumns tk left right gap width pct).length =
      max (wrapLines tk (colWidths gap width pct).1 left).length
          (wrapLines tk (colWidths gap width pct).2 right).length := by
  simp [twoColumns]

/-- the right column starts at the same cluster offset `leftWidth + gap` on every line, and no line
exceeds the (minimum-clamped) total width -/
theorem twoColumns_line (left right : List α) (gap width : Int) (pct : Pct) (hg : 0 ≤ gap) (i : Nat)
    (hi : i < (twoColumns tk left right gap width pct).length) :
    let lw := (colWidths gap width pct).1
    let rw := (colWidths gap width pct).2
    let wl := wrapLines tk lw left
    let wr := wrapLines tk rw right
    (twoColumns tk left right gap width pct)[i] = padTo tk (lw + gap.toNat) (wl.getD i []) ++ wr.getD i [] ∧
    ((twoColumns tk left right gap width pct)[i]).take (lw + gap.toNat) = padTo tk (lw + gap.toNat) (wl.getD i []) ∧
    (padTo tk (lw + gap.toNat) (wl.getD i [])).length = lw + gap.toNat ∧
    (((twoColumns tk left right gap width pct)[i]).length : Int) ≤ max width (gap + 4) := by
  intro lw rw wl wr
  have hw := colWidths_spec gap width pct hg
  have e : (twoColumns tk left right gap width pct)[i] =
      padTo tk (lw + gap.toNat) (wl.getD i []) ++ wr.getD i [] := by
    simp [twoColumns, lw, rw, wl, wr]
  have hl : (wl.getD i []).length ≤ lw := by
    by_cases h : i < wl.length
    · simp only [List.getD_eq_getElem?_getD, List.getElem?_eq_getElem h, Option.getD_some]
      exact wrapLines_width tk hw.1 left _ (List.getElem_mem h)
    · simp [List.getD_eq_getElem?_getD, List.getElem?_eq_none (Nat.le_of_not_lt h)]
  have hr : (wr.getD i []).length ≤ rw := by
    by_cases h : i < wr.length
    · simp only [List.getD_eq_getElem?_getD, List.getElem?_eq_getElem h, Option.getD_some]
      exact wrapLines_width tk hw.2.1 right _ (List.getElem_mem h)
    · simp [List.getD_eq_getElem?_getD, List.getElem?_eq_none (Nat.le_of_not_lt h)]
  refine ⟨e, ?_, ?_, ?_⟩
  · rw [e]; exact padTo_take tk _ _ (by omega) _
  · rw [length_padTo]; omega
  · rw [e, List.length_append, length_padTo]
    have := hw.2.2
    omega

end RosedVerif.Spec

namespace RosedVerif.Spec
variable {α : Type} (tk : Toks α)

/-- the wrapped lines of a definition (at least the one line that carries the marker) -/
def defLines (T : Nat) (w : Int) (defn : List α) : List (List α) :=
  let rightW : Int := w - (T + 2) - 2 - 2
  let ls := wrapLines tk (if rightW < 2 then 2 else rightW).toNat defn
  if ls.isEmpty then [[]] else ls

theorem defParagraph_length (T : Nat) (w : Int) (term defn : List α) :
    (defParagraph tk T w term defn).length = (defLines tk T w defn).length := by
  simp [defParagraph, defLines]

/-- in every line of a definition's paragraph the definition text starts at cluster column T + 6:
line 0 is `··term<pad>··-·` (T + 6 clusters when the term is at most T wide) followed by the first
wrapped line, every continuation line is T + 6 spaces followed by its wrapped line -/
theorem defParagraph_column (T : Nat) (w : Int) (term defn : List α) (ht : term.length ≤ T) (i : Nat)
    (hi : i < (defParagraph tk T w term defn).length) :
    ∃ pre, (defParagraph tk T w term defn)[i] = pre ++ (defLines tk T w defn).getD i [] ∧
      pre.length = T + 6 ∧
      (i = 0 → pre = [tk.sp, tk.sp] ++ padTo tk T term ++ [tk.sp, tk.sp, tk.hy, tk.sp]) ∧
      (i ≠ 0 → pre = List.replicate (T + 6) tk.sp) := by
  by_cases h0 : i = 0
  · subst h0
    refine ⟨[tk.sp, tk.sp] ++ padTo tk T term ++ [tk.sp, tk.sp, tk.hy, tk.sp], ?_, ?_, fun _ => rfl,
      fun h => absurd rfl h⟩
    · simp [defParagraph, defLines]
    · simp only [List.length_append, length_padTo, List.length_cons, List.length_nil]; omega
  · refine ⟨List.replicate (T + 6) tk.sp, ?_, by simp, fun h => absurd h h0, fun _ => rfl⟩
    have hne : (i == 0) = false := by simpa using h0
    simp only [defParagraph, defLines, List.getElem_map, List.getElem_range, hne]
    rfl

/-- paragraphs appear in input order, one per definition; an empty list produces none -/
theorem defTable_length (defs : List (List α × List α)) (w : Int) :
    (defTable tk defs w).length = defs.length := by simp [defTable]

theorem defTable_nil (w : Int) : defTable tk ([] : List (List α × List α)) w = [] := rfl

/-- every term fits the common term width T = the longest term -/
theorem term_le_T (defs : List (List α × List α)) : ∀ d ∈ defs, d.1.length ≤ defs.foldl (fun m d => max m d.1.length) 0 := by
  have gen : ∀ (l : List (List α × List α)) (m0 : Nat), m0 ≤ l.foldl (fun m d => max m d.1.length) m0 ∧
      ∀ d ∈ l, d.1.length ≤ l.foldl (fun m d => max m d.1.length) m0 := by
    intro l
    induction l with
    | nil => intro m0; exact ⟨Nat.le_refl _, by simp⟩
    | cons x t ih =>
      intro m0
      have := ih (max m0 x.1.length)
      refine ⟨by simp only [List.foldl_cons]; omega, ?_⟩
      intro d hd
      simp only [List.foldl_cons]
      rcases List.mem_cons.mp hd with h | h
      · subst h; omega
      · exact this.2 d h
  exact (gen defs 0).2

end RosedVerif.Spec
