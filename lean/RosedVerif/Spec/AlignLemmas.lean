/-
Theorems about the specification of Align (alignLeft / alignRight / alignCenter) and
CollapseSpace (collapse) over tokens.  Core Lean only.
-/
import RosedVerif.Spec.Layout
namespace RosedVerif.Spec

variable {α : Type} (tk : Toks α)

/-! ## generic helpers -/

theorem length_pad (n : Nat) : (pad tk n).length = n := by
  simp only [pad, List.length_replicate]

theorem filter_pad (hsp : tk.ws tk.sp = true) (n : Nat) :
    (pad tk n).filter (fun c => !tk.ws c) = [] := by
  simp only [pad, List.filter_eq_nil_iff, List.mem_replicate, Bool.not_eq_true, Bool.not_eq_false',
    and_imp]
  intro a _ ha
  rw [ha, hsp]

theorem mem_takeWhile_ws (p : α → Bool) : ∀ (l : List α) (c : α), c ∈ l.takeWhile p → p c = true
  | [], c, h => by simp only [List.takeWhile_nil, List.not_mem_nil] at h
  | a :: t, c, h => by
    cases ha : p a
    · simp only [List.takeWhile_cons, ha, Bool.false_eq_true, if_false, List.not_mem_nil] at h
    · simp only [List.takeWhile_cons, ha, if_true, List.mem_cons] at h
      rcases h with rfl | h
      · exact ha
      · exact mem_takeWhile_ws p t c h

theorem filter_dropWhile_ws (l : List α) :
    (l.dropWhile tk.ws).filter (fun c => !tk.ws c) = l.filter (fun c => !tk.ws c) := by
  induction l with
  | nil => rfl
  | cons a t ih =>
    cases ha : tk.ws a
    · simp only [List.dropWhile_cons, ha, Bool.false_eq_true, if_false]
    · simp only [List.dropWhile_cons, ha, if_true, List.filter_cons, Bool.not_true,
        Bool.false_eq_true, if_false, ih]

/-! ## 1(d) stripLeft removes exactly the leading whitespace -/

theorem stripLeft_suffix (l : List α) : stripLeft tk l <:+ l :=
  List.dropWhile_suffix _

/-- the removed prefix is `l.takeWhile tk.ws` -/
theorem stripLeft_decomp (l : List α) : l = l.takeWhile tk.ws ++ stripLeft tk l :=
  (List.takeWhile_append_dropWhile).symm

theorem stripLeft_removed_ws (l : List α) : ∀ c ∈ l.takeWhile tk.ws, tk.ws c = true :=
  mem_takeWhile_ws tk.ws l

theorem stripLeft_head_not_ws (l : List α) :
    ∀ c, (stripLeft tk l).head? = some c → tk.ws c = false := by
  intro c h
  have := List.head?_dropWhile_not tk.ws l
  simp only [stripLeft] at h
  rw [h] at this
  exact this

/-- 1(d), all three parts in one statement. -/
theorem stripLeft_spec (l : List α) :
    ∃ p, l = p ++ stripLeft tk l ∧ (∀ c ∈ p, tk.ws c = true) ∧
      (∀ c, (stripLeft tk l).head? = some c → tk.ws c = false) :=
  ⟨l.takeWhile tk.ws, stripLeft_decomp tk l, stripLeft_removed_ws tk l, stripLeft_head_not_ws tk l⟩

/-- "exactly": any decomposition into an all-whitespace prefix and a rest whose head is not
whitespace is the `stripLeft` decomposition. -/
theorem stripLeft_unique (p s : List α) (hp : ∀ c ∈ p, tk.ws c = true)
    (hs : ∀ c, s.head? = some c → tk.ws c = false) : stripLeft tk (p ++ s) = s := by
  induction p with
  | nil =>
    cases s with
    | nil => rfl
    | cons a t =>
      have := hs a rfl
      simp only [stripLeft, List.nil_append, List.dropWhile_cons, this, Bool.false_eq_true,
        if_false]
  | cons a t ih =>
    have ha := hp a List.mem_cons_self
    have := ih (fun c hc => hp c (List.mem_cons_of_mem _ hc))
    simp only [stripLeft] at this
    simp only [stripLeft, List.cons_append, List.dropWhile_cons, ha, if_true, this]

theorem stripLeft_idem (l : List α) : stripLeft tk (stripLeft tk l) = stripLeft tk l := by
  have := stripLeft_unique tk [] (stripLeft tk l) (fun _ h => by cases h)
    (stripLeft_head_not_ws tk l)
  simpa only [List.nil_append] using this

theorem stripLeft_length_le (l : List α) : (stripLeft tk l).length ≤ l.length :=
  (stripLeft_suffix tk l).length_le

theorem stripLeft_filter (l : List α) :
    (stripLeft tk l).filter (fun c => !tk.ws c) = l.filter (fun c => !tk.ws c) :=
  filter_dropWhile_ws tk l

/-! ## 2(d) stripRight removes exactly the trailing whitespace -/

theorem stripRight_eq (l : List α) : stripRight tk l = (stripLeft tk l.reverse).reverse := rfl

/-- the removed suffix is `(l.reverse.takeWhile tk.ws).reverse` -/
theorem stripRight_decomp (l : List α) :
    l = stripRight tk l ++ (l.reverse.takeWhile tk.ws).reverse := by
  have h := stripLeft_decomp tk l.reverse
  have h2 := congrArg List.reverse h
  simp only [List.reverse_reverse, List.reverse_append] at h2
  exact h2

theorem stripRight_prefix (l : List α) : stripRight tk l <+: l :=
  ⟨_, (stripRight_decomp tk l).symm⟩

theorem stripRight_removed_ws (l : List α) :
    ∀ c ∈ (l.reverse.takeWhile tk.ws).reverse, tk.ws c = true := by
  intro c hc
  exact mem_takeWhile_ws tk.ws l.reverse c (List.mem_reverse.mp hc)

theorem stripRight_last_not_ws (l : List α) :
    ∀ c, (stripRight tk l).getLast? = some c → tk.ws c = false := by
  intro c h
  simp only [stripRight_eq, List.getLast?_reverse] at h
  exact stripLeft_head_not_ws tk l.reverse c h

/-- 2(d), all three parts in one statement. -/
theorem stripRight_spec (l : List α) :
    ∃ q, l = stripRight tk l ++ q ∧ (∀ c ∈ q, tk.ws c = true) ∧
      (∀ c, (stripRight tk l).getLast? = some c → tk.ws c = false) :=
  ⟨_, stripRight_decomp tk l, stripRight_removed_ws tk l, stripRight_last_not_ws tk l⟩

theorem stripRight_unique (s q : List α) (hq : ∀ c ∈ q, tk.ws c = true)
    (hs : ∀ c, s.getLast? = some c → tk.ws c = false) : stripRight tk (s ++ q) = s := by
  have := stripLeft_unique tk q.reverse s.reverse
    (fun c hc => hq c (List.mem_reverse.mp hc))
    (fun c hc => hs c (by simpa only [List.head?_reverse] using hc))
  simp only [stripRight_eq, List.reverse_append, this, List.reverse_reverse]

theorem stripRight_idem (l : List α) : stripRight tk (stripRight tk l) = stripRight tk l := by
  have := stripRight_unique tk (stripRight tk l) [] (fun _ h => by cases h)
    (stripRight_last_not_ws tk l)
  simpa only [List.append_nil] using this

theorem stripRight_length_le (l : List α) : (stripRight tk l).length ≤ l.length :=
  (stripRight_prefix tk l).length_le

theorem stripRight_filter (l : List α) :
    (stripRight tk l).filter (fun c => !tk.ws c) = l.filter (fun c => !tk.ws c) := by
  simp only [stripRight, List.filter_reverse, filter_dropWhile_ws, List.reverse_reverse]

/-! ## 1 alignLeft -/

theorem alignLeft_length (w : Int) (l : List α) (h : ((stripLeft tk l).length : Int) ≤ w) :
    ((alignLeft tk w l).length : Int) = w := by
  simp only [alignLeft, List.length_append, length_pad]
  omega

theorem alignLeft_long (w : Int) (l : List α) (h : w ≤ (stripLeft tk l).length) :
    alignLeft tk w l = stripLeft tk l := by
  have h0 : (w - ((stripLeft tk l).length : Int)).toNat = 0 := by omega
  simp only [alignLeft, h0, pad, List.replicate_zero, List.append_nil]

theorem alignLeft_shape (w : Int) (l : List α) :
    ∃ n, alignLeft tk w l = stripLeft tk l ++ List.replicate n tk.sp :=
  ⟨_, rfl⟩

/-- the exact amount of padding -/
theorem alignLeft_eq (w : Int) (l : List α) :
    alignLeft tk w l =
      stripLeft tk l ++ List.replicate (w - ((stripLeft tk l).length : Int)).toNat tk.sp := rfl

/-- in all cases the length is `max w |stripLeft l|` -/
theorem alignLeft_length_max (w : Int) (l : List α) :
    ((alignLeft tk w l).length : Int) = max w (stripLeft tk l).length := by
  simp only [alignLeft, List.length_append, length_pad]
  omega

/-! ## 2 alignRight -/

theorem alignRight_length (w : Int) (l : List α) (h : ((stripRight tk l).length : Int) ≤ w) :
    ((alignRight tk w l).length : Int) = w := by
  simp only [alignRight, List.length_append, length_pad]
  omega

theorem alignRight_long (w : Int) (l : List α) (h : w ≤ (stripRight tk l).length) :
    alignRight tk w l = stripRight tk l := by
  have h0 : (w - ((stripRight tk l).length : Int)).toNat = 0 := by omega
  simp only [alignRight, h0, pad, List.replicate_zero, List.nil_append]

theorem alignRight_shape (w : Int) (l : List α) :
    ∃ n, alignRight tk w l = List.replicate n tk.sp ++ stripRight tk l :=
  ⟨_, rfl⟩

theorem alignRight_eq (w : Int) (l : List α) :
    alignRight tk w l =
      List.replicate (w - ((stripRight tk l).length : Int)).toNat tk.sp ++ stripRight tk l := rfl

theorem alignRight_length_max (w : Int) (l : List α) :
    ((alignRight tk w l).length : Int) = max w (stripRight tk l).length := by
  simp only [alignRight, List.length_append, length_pad]
  omega

/-! ## 3 alignCenter -/

/-- the fully explicit form: left pad `need - need/2`, right pad `need/2` where
`need = w - |t|`; when `need ≤ 0` both are `0` (since `toNat` clamps). -/
theorem alignCenter_eq (w : Int) (l : List α) :
    alignCenter tk w l =
      List.replicate ((w - ((stripRight tk (stripLeft tk l)).length : Int)) -
          (w - ((stripRight tk (stripLeft tk l)).length : Int)) / 2).toNat tk.sp
        ++ stripRight tk (stripLeft tk l) ++
      List.replicate ((w - ((stripRight tk (stripLeft tk l)).length : Int)) / 2).toNat tk.sp := by
  simp only [alignCenter, pad]
  split
  · next h =>
    have h1 : ((w - ((stripRight tk (stripLeft tk l)).length : Int)) -
          (w - ((stripRight tk (stripLeft tk l)).length : Int)) / 2).toNat = 0 := by omega
    have h2 : ((w - ((stripRight tk (stripLeft tk l)).length : Int)) / 2).toNat = 0 := by omega
    simp only [h1, h2, List.replicate_zero, List.nil_append, List.append_nil]
  · rfl

theorem alignCenter_length (w : Int) (l : List α)
    (h : ((stripRight tk (stripLeft tk l)).length : Int) ≤ w) :
    ((alignCenter tk w l).length : Int) = w := by
  simp only [alignCenter_eq, List.length_append, List.length_replicate]
  omega

theorem alignCenter_shape (w : Int) (l : List α) :
    ∃ a b, alignCenter tk w l =
        List.replicate a tk.sp ++ stripRight tk (stripLeft tk l) ++ List.replicate b tk.sp ∧
      (a = b ∨ a = b + 1) :=
  ⟨_, _, alignCenter_eq tk w l, by omega⟩

theorem alignCenter_long (w : Int) (l : List α)
    (h : w ≤ (stripRight tk (stripLeft tk l)).length) :
    alignCenter tk w l = stripRight tk (stripLeft tk l) := by
  have h0 : w - ((stripRight tk (stripLeft tk l)).length : Int) ≤ 0 := by omega
  simp only [alignCenter, h0, if_true]

/-- in all cases the length is `max w |t|` -/
theorem alignCenter_length_max (w : Int) (l : List α) :
    ((alignCenter tk w l).length : Int) = max w (stripRight tk (stripLeft tk l)).length := by
  simp only [alignCenter_eq, List.length_append, List.length_replicate]
  omega

/-! ## 4 non-whitespace content is preserved (C07) -/

theorem alignLeft_nonws (hsp : tk.ws tk.sp = true) (w : Int) (l : List α) :
    (alignLeft tk w l).filter (fun c => !tk.ws c) = l.filter (fun c => !tk.ws c) := by
  simp only [alignLeft, List.filter_append, filter_pad tk hsp, List.append_nil, stripLeft_filter]

theorem alignRight_nonws (hsp : tk.ws tk.sp = true) (w : Int) (l : List α) :
    (alignRight tk w l).filter (fun c => !tk.ws c) = l.filter (fun c => !tk.ws c) := by
  simp only [alignRight, List.filter_append, filter_pad tk hsp, List.nil_append,
    stripRight_filter]

theorem alignCenter_nonws (hsp : tk.ws tk.sp = true) (w : Int) (l : List α) :
    (alignCenter tk w l).filter (fun c => !tk.ws c) = l.filter (fun c => !tk.ws c) := by
  have hp := filter_pad tk hsp
  simp only [pad] at hp
  simp only [alignCenter_eq, List.filter_append, hp, List.append_nil, List.nil_append,
    stripRight_filter, stripLeft_filter]

/-! ## 5 collapse -/

theorem collapse_nil : collapse tk ([] : List α) = [] := rfl

theorem collapse_cons_nonws (c : α) (t : List α) (hc : tk.ws c = false) :
    collapse tk (c :: t) = c :: collapse tk t := by
  cases t with
  | nil => simp only [collapse, hc, Bool.false_eq_true, if_false]
  | cons d t => simp only [collapse, hc, Bool.false_and, Bool.false_eq_true, if_false]

theorem collapse_ws_ws (c d : α) (t : List α) (hc : tk.ws c = true) (hd : tk.ws d = true) :
    collapse tk (c :: d :: t) = collapse tk (d :: t) := by
  simp only [collapse, hc, hd, Bool.and_self, if_true]

theorem collapse_ws_nonws (c d : α) (t : List α) (hc : tk.ws c = true) (hd : tk.ws d = false) :
    collapse tk (c :: d :: t) = tk.sp :: d :: collapse tk t := by
  rw [← collapse_cons_nonws tk d t hd]
  simp only [collapse, hc, hd, Bool.and_false, Bool.false_eq_true, if_false, if_true]

theorem collapse_ws_single (c : α) (hc : tk.ws c = true) : collapse tk [c] = [tk.sp] := by
  simp only [collapse, hc, if_true]

/-- a whitespace head always yields a single `sp` at the head of the result -/
theorem collapse_head_ws (c : α) (t : List α) (hc : tk.ws c = true) :
    ∃ r, collapse tk (c :: t) = tk.sp :: r := by
  induction t generalizing c with
  | nil => exact ⟨[], collapse_ws_single tk c hc⟩
  | cons d t ih =>
    cases hd : tk.ws d
    · exact ⟨_, collapse_ws_nonws tk c d t hc hd⟩
    · rw [collapse_ws_ws tk c d t hc hd]
      exact ih d hd

/-- (a) -/
theorem collapse_nonws (hsp : tk.ws tk.sp = true) (l : List α) :
    (collapse tk l).filter (fun c => !tk.ws c) = l.filter (fun c => !tk.ws c) := by
  induction l with
  | nil => rfl
  | cons c t ih =>
    cases hc : tk.ws c
    · rw [collapse_cons_nonws tk c t hc]
      simp only [List.filter_cons, hc, Bool.not_false, if_true, ih]
    · cases t with
      | nil =>
        simp only [collapse_ws_single tk c hc, List.filter_cons, hsp, hc, Bool.not_true,
          Bool.false_eq_true, if_false]
      | cons d t =>
        cases hd : tk.ws d
        · rw [collapse_ws_nonws tk c d t hc hd]
          rw [collapse_cons_nonws tk d t hd] at ih
          simp only [List.filter_cons, hsp, hc, Bool.not_true, Bool.false_eq_true, if_false]
          simpa only [List.filter_cons] using ih
        · rw [collapse_ws_ws tk c d t hc hd, ih]
          simp only [List.filter_cons, hc, Bool.not_true, Bool.false_eq_true, if_false]

/-- (b); the hypothesis `hsp` is not actually needed, see `collapse_only_sp'`. -/
theorem collapse_only_sp' (l : List α) : ∀ c ∈ collapse tk l, tk.ws c = true → c = tk.sp := by
  induction l with
  | nil => intro c h; cases h
  | cons a t ih =>
    intro c hmem hws
    cases ha : tk.ws a
    · rw [collapse_cons_nonws tk a t ha, List.mem_cons] at hmem
      rcases hmem with rfl | hmem
      · rw [ha] at hws; cases hws
      · exact ih c hmem hws
    · cases t with
      | nil =>
        rw [collapse_ws_single tk a ha, List.mem_singleton] at hmem
        exact hmem
      | cons d t =>
        cases hd : tk.ws d
        · rw [collapse_ws_nonws tk a d t ha hd, List.mem_cons] at hmem
          rw [collapse_cons_nonws tk d t hd] at ih
          rcases hmem with rfl | hmem
          · rfl
          · exact ih c hmem hws
        · rw [collapse_ws_ws tk a d t ha hd] at hmem
          exact ih c hmem hws

theorem collapse_only_sp (_hsp : tk.ws tk.sp = true) (l : List α) :
    ∀ c ∈ collapse tk l, tk.ws c = true → c = tk.sp :=
  collapse_only_sp' tk l

/-- structural form of "no two adjacent whitespace tokens" (core Lean has no `List.IsChain`) -/
def NoDoubleWs : List α → Prop
  | a :: b :: t => ¬(tk.ws a = true ∧ tk.ws b = true) ∧ NoDoubleWs (b :: t)
  | _ => True

theorem noDoubleWs_cons_cons (a b : α) (t : List α) :
    NoDoubleWs tk (a :: b :: t) ↔
      ¬(tk.ws a = true ∧ tk.ws b = true) ∧ NoDoubleWs tk (b :: t) := by
  simp only [NoDoubleWs]

theorem noDoubleWs_cons_nonws (a : α) (t : List α) (ha : tk.ws a = false)
    (h : NoDoubleWs tk t) : NoDoubleWs tk (a :: t) := by
  cases t with
  | nil => simp only [NoDoubleWs]
  | cons b t =>
    rw [noDoubleWs_cons_cons]
    refine ⟨?_, h⟩
    rintro ⟨h1, _⟩
    rw [ha] at h1; cases h1

theorem noDoubleWs_tail (a : α) (t : List α) (h : NoDoubleWs tk (a :: t)) : NoDoubleWs tk t := by
  cases t with
  | nil => simp only [NoDoubleWs]
  | cons b t => exact ((noDoubleWs_cons_cons tk a b t).mp h).2

/-- the structural form is equivalent to the explicit index formulation -/
theorem noDoubleWs_iff_index (l : List α) :
    NoDoubleWs tk l ↔
      ∀ (i : Nat) (h : i + 1 < l.length), ¬(tk.ws l[i] = true ∧ tk.ws l[i + 1] = true) := by
  induction l with
  | nil =>
    simp only [NoDoubleWs, true_iff]
    intro i h
    simp only [List.length_nil] at h
    omega
  | cons a t ih =>
    cases t with
    | nil =>
      simp only [NoDoubleWs, List.length_singleton, true_iff]
      intro i h; omega
    | cons b t =>
      rw [noDoubleWs_cons_cons, ih]
      constructor
      · rintro ⟨h0, hs⟩ i hi
        cases i with
        | zero => exact h0
        | succ i =>
          have hi' : i + 1 < (b :: t).length := by
            simp only [List.length_cons] at hi ⊢; omega
          exact hs i hi'
      · intro h
        refine ⟨h 0 (by simp only [List.length_cons]; omega), ?_⟩
        intro i hi
        have hi' : (i + 1) + 1 < (a :: b :: t).length := by
          simp only [List.length_cons] at hi ⊢; omega
        exact h (i + 1) hi'

theorem collapse_noDoubleWs (l : List α) : NoDoubleWs tk (collapse tk l) := by
  induction l with
  | nil => simp only [collapse, NoDoubleWs]
  | cons a t ih =>
    cases ha : tk.ws a
    · rw [collapse_cons_nonws tk a t ha]
      exact noDoubleWs_cons_nonws tk a _ ha ih
    · cases t with
      | nil =>
        rw [collapse_ws_single tk a ha]
        simp only [NoDoubleWs]
      | cons d t =>
        cases hd : tk.ws d
        · rw [collapse_ws_nonws tk a d t ha hd]
          rw [collapse_cons_nonws tk d t hd] at ih
          rw [noDoubleWs_cons_cons]
          refine ⟨?_, ih⟩
          rintro ⟨_, h2⟩
          rw [hd] at h2; cases h2
        · rw [collapse_ws_ws tk a d t ha hd]
          exact ih

/-- (c) no two adjacent elements of `collapse tk l` are both whitespace (index formulation).
No `hsp` needed. -/
theorem collapse_no_double (l : List α) :
    ∀ (i : Nat) (h : i + 1 < (collapse tk l).length),
      ¬(tk.ws (collapse tk l)[i] = true ∧ tk.ws (collapse tk l)[i + 1] = true) :=
  (noDoubleWs_iff_index tk _).mp (collapse_noDoubleWs tk l)

/-- `collapse` is the identity on lists whose whitespace tokens are all `sp` and never
adjacent. -/
theorem collapse_fixed (l : List α) (h1 : ∀ c ∈ l, tk.ws c = true → c = tk.sp)
    (h2 : NoDoubleWs tk l) : collapse tk l = l := by
  induction l with
  | nil => rfl
  | cons a t ih =>
    have iht := ih (fun c hc => h1 c (List.mem_cons_of_mem _ hc)) (noDoubleWs_tail tk a t h2)
    cases ha : tk.ws a
    · rw [collapse_cons_nonws tk a t ha, iht]
    · have hasp : a = tk.sp := h1 a List.mem_cons_self ha
      cases t with
      | nil => rw [collapse_ws_single tk a ha, hasp]
      | cons d t =>
        cases hd : tk.ws d
        · rw [collapse_ws_nonws tk a d t ha hd]
          rw [collapse_cons_nonws tk d t hd] at iht
          rw [← hasp]
          exact congrArg (a :: ·) iht
        · exact absurd ⟨ha, hd⟩ ((noDoubleWs_cons_cons tk a d t).mp h2).1

/-- (d); `hsp` is not actually needed, see `collapse_idem'`. -/
theorem collapse_idem' (l : List α) : collapse tk (collapse tk l) = collapse tk l :=
  collapse_fixed tk _ (collapse_only_sp' tk l) (collapse_noDoubleWs tk l)

theorem collapse_idem (_hsp : tk.ws tk.sp = true) (l : List α) :
    collapse tk (collapse tk l) = collapse tk l :=
  collapse_idem' tk l

/-- (e) -/
theorem collapse_length_le (l : List α) : (collapse tk l).length ≤ l.length := by
  induction l with
  | nil => exact Nat.le_refl _
  | cons a t ih =>
    cases ha : tk.ws a
    · rw [collapse_cons_nonws tk a t ha]
      simp only [List.length_cons]; omega
    · cases t with
      | nil => rw [collapse_ws_single tk a ha]; exact Nat.le_refl _
      | cons d t =>
        cases hd : tk.ws d
        · rw [collapse_ws_nonws tk a d t ha hd]
          rw [collapse_cons_nonws tk d t hd] at ih
          simp only [List.length_cons] at ih ⊢; omega
        · rw [collapse_ws_ws tk a d t ha hd]
          simp only [List.length_cons] at ih ⊢; omega

/-! ## examples: tokens = Nat, ws = (· == 0), sp = 0 -/

section Examples

def exTk : Toks Nat := { ws := (· == 0), sp := 0, hy := 99 }

example : stripLeft exTk [0, 0, 1, 0, 2, 0] = [1, 0, 2, 0] := by decide
example : stripRight exTk [0, 0, 1, 0, 2, 0, 0] = [0, 0, 1, 0, 2] := by decide
example : alignLeft exTk 6 [0, 0, 1, 0, 2] = [1, 0, 2, 0, 0, 0] := by decide
example : alignLeft exTk 2 [0, 0, 1, 0, 2] = [1, 0, 2] := by decide
example : alignLeft exTk (-3) [0, 0, 1, 0, 2] = [1, 0, 2] := by decide
example : alignLeft exTk 2 [0, 0, 0] = [0, 0] := by decide
example : alignRight exTk 6 [1, 0, 2, 0, 0] = [0, 0, 0, 1, 0, 2] := by decide
example : alignRight exTk 3 [1, 0, 2, 0, 0] = [1, 0, 2] := by decide
example : alignCenter exTk 6 [0, 1, 0, 2, 0] = [0, 0, 1, 0, 2, 0] := by decide
example : alignCenter exTk 7 [0, 1, 0, 2, 0] = [0, 0, 1, 0, 2, 0, 0] := by decide
example : alignCenter exTk 3 [0, 1, 0, 2, 0] = [1, 0, 2] := by decide
example : alignCenter exTk 0 [0, 0] = [] := by decide
example : alignCenter exTk (-1) [] = [] := by decide
example : alignCenter exTk 3 [0, 0] = [0, 0, 0] := by decide
example : collapse exTk [0, 0, 1, 0, 0, 0, 2, 3, 0] = [0, 1, 0, 2, 3, 0] := by decide
example : collapse exTk [0, 0, 0] = [0] := by decide
example : collapse exTk (collapse exTk [0, 0, 1, 0, 0, 2]) = collapse exTk [0, 0, 1, 0, 0, 2] := by
  decide

/-- without `hsp` the non-whitespace content is NOT preserved: here `sp = 7` is not
whitespace, so padding / collapsing introduces non-whitespace tokens. -/
def badTk : Toks Nat := { ws := (· == 0), sp := 7, hy := 99 }

example : (alignLeft badTk 3 [1]).filter (fun c => !badTk.ws c) ≠
    [1].filter (fun c => !badTk.ws c) := by decide
example : (collapse badTk [0, 1]).filter (fun c => !badTk.ws c) ≠
    [0, 1].filter (fun c => !badTk.ws c) := by decide

end Examples

end RosedVerif.Spec
