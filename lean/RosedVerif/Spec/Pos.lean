/-
Specification level for the position family (C04, C05, C09, C10): the simplest
possible description of selections and edits in terms of the CLUSTER list of a
text.  Generic in the context like the model; deliberately independent of the
model's code paths (no byte offsets, no RangeToIndexes).
-/
import RosedVerif.Model.Ops
namespace RosedVerif.Spec
open RosedVerif

variable {α : Type} [DecidableEq α] (cx : Ctx α)

/-- documented normalisation of one position over `n` items: End ↦ n, negative counts from the
end, then clamp to [0, n] -/
def normPosRaw (n p : Int) : Int :=
  let p := if p < 0 then p + n else p
  if p < 0 then 0 else if p > n then n else p

def normPos (n p : Int) : Int := normPosRaw n (if p == Gen.endSentinel then n else p)

/-- util.RangeToIndexes' contract (no End sentinel at that level) -/
def normRangeRaw (n s e : Int) : Int × Int :=
  let s' := normPosRaw n s
  let e' := normPosRaw n e
  (s', if e' < s' then s' else e')

/-- documented normalisation of a range: an end before the start gives the empty range at the start -/
def normRange (n s e : Int) : Int × Int :=
  let s' := normPos n s
  let e' := normPos n e
  (s', if e' < s' then s' else e')

def joinL (l : List (List α)) : List α := l.flatten

/-- selection of clusters [s, e): (before, selected, after) -/
def selectClusters (text : List α) (s e : Int) : List α × List α × List α :=
  let cl := clusters cx text
  let (s', e') := normRange cl.length s e
  (joinL (cl.take s'.toNat), joinL ((cl.drop s'.toNat).take (e' - s').toNat), joinL (cl.drop e'.toNat))

/-- Insert: clusters[0:p] + new + clusters[p:] -/
def insert (text : List α) (p : Int) (x : List α) : List α :=
  let cl := clusters cx text
  let p' := normPos cl.length p
  joinL (cl.take p'.toNat) ++ x ++ joinL (cl.drop p'.toNat)

/-- Delete: clusters[0:s] + clusters[e:] -/
def delete (text : List α) (s e : Int) : List α :=
  let (b, _, a) := selectClusters cx text s e
  b ++ a

/-- Overtype: clusters[0:p] + new + clusters[min(p + len(new), n):] -/
def overtype (text : List α) (p : Int) (x : List α) : List α :=
  let cl := clusters cx text
  let n : Int := cl.length
  let p' := normPos n p
  let k : Int := gLen cx x
  let e := if p' + k > n then n else p' + k
  joinL (cl.take p'.toNat) ++ x ++ joinL (cl.drop e.toNat)

/-- the line decomposition: each line WITH its terminator.  `parts` = leftmost split on `sep`.
Default policy: a text ending in `sep` has no further (empty) line. -/
def linePieces (text sep : List α) (noTrailing : Bool) : List (List α) :=
  let parts := splitOn text sep
  let k := parts.length - 1
  let terminated := (parts.take k).map (· ++ sep)
  let last := parts.getLastD []
  if !noTrailing && last.isEmpty then terminated else terminated ++ [last]

/-- lines without terminators, as an Apply callback sees them -/
def bareLines (text sep : List α) (noTrailing : Bool) : List (List α) :=
  let parts := splitOn text sep
  if !noTrailing && (parts.getLastD []).isEmpty then parts.dropLast else parts

/-- selection of lines [s, e): (before, selected, after) -/
def selectLines (text sep : List α) (noTrailing : Bool) (s e : Int) : List α × List α × List α :=
  let ps := linePieces text sep noTrailing
  let (s', e') := normRange ps.length s e
  (joinL (ps.take s'.toNat), joinL ((ps.drop s'.toNat).take (e' - s').toNat), joinL (ps.drop e'.toNat))

/-- Apply: the callback's outputs spliced in place, trailing separator kept iff the input had one
(default policy) — "had one" in the sense of the decomposition itself: the last piece of the split
is empty (`bareLines` dropped it).  For a separator that overlaps itself this is NOT the same as
"the text ends with the separator's characters": in `a---` with separator `--` the last line `-`
is unterminated. -/
def apply (text sep : List α) (noTrailing : Bool) (f : Nat → List α → List (List α)) : List α :=
  let ls := bareLines text sep noTrailing
  let out := ((List.range ls.length).map fun i => f i (ls.getD i [])).flatten
  let out := if !noTrailing && ((splitOn text sep).getLastD []).isEmpty then out ++ [[]] else out
  joinWith sep out

end RosedVerif.Spec
