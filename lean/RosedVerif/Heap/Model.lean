/-
Layer H: gem.String with its shared, lazily filled cache cell (pointer identity).
Every exported method is a function  Heap → args → Heap × result × write events,
mirroring which cell is read, filled, cloned, cleared or returned.
(internal/gem/string.go, gem.go)
-/
import RosedVerif.Model.Basic
import RosedVerif.Gem.Rules
import RosedVerif.Gen.Consts
namespace RosedVerif.H

/-- a gem.String value: rune content and the cache cell it points to (`none`: gc == nil) -/
structure GStr where
  runes : List Int
  cell : Option Nat
  deriving Repr, DecidableEq

/-- cell contents: `none` = nil slice, `some ends` = cached boundaries. Cell 0 is gem.Zero's. -/
structure Heap where
  cells : List (Option (List Nat))
  deriving Repr

inductive Wr
  | alloc (c : Nat)
  | fill (c : Nat)
  | clear (c : Nat)
  deriving Repr, DecidableEq

def Heap.init : Heap := ⟨[if Gen.zeroCachePrefilled then some [] else none]⟩

def zero : GStr := ⟨[], some 0⟩

def Heap.get (h : Heap) (c : Nat) : Option (List Nat) := (h.cells.getD c none)

def Heap.set (h : Heap) (c : Nat) (v : Option (List Nat)) : Heap := ⟨h.cells.set c v⟩

def Heap.alloc (h : Heap) (v : Option (List Nat)) : Heap × Nat := (⟨h.cells ++ [v]⟩, h.cells.length)

abbrev M (α : Type) := Heap → Heap × α × List Wr

/-- String.initialized: a zero-value String gets a fresh cell on the local copy -/
def initialized (s : GStr) : M GStr := fun h =>
  match s.cell with
  | some _ => (h, s, [])
  | none => let (h', c) := h.alloc none; (h', ⟨s.runes, some c⟩, [.alloc c])

def cellOf (s : GStr) : Nat := s.cell.getD 0

/-- `if *str.gc == nil { *str.gc = Split(str.r) }` -/
def ensure (s : GStr) : M (List Nat) := fun h =>
  match h.get (cellOf s) with
  | some e => (h, e, [])
  | none => let e := splitRunes s.runes; (h.set (cellOf s) (some e), e, [.fill (cellOf s)])

/-- gem.New / VerifFromRunes -/
def new (rs : List Int) : M GStr := fun h =>
  let (h', c) := h.alloc none; (h', ⟨rs, some c⟩, [.alloc c])

/-- String.clone -/
def clone (s : GStr) : M GStr := fun h =>
  let (h1, s1, w1) := initialized s h
  let (h2, c) := h1.alloc (h1.get (cellOf s1))
  (h2, ⟨s1.runes, some c⟩, w1 ++ [.alloc c])

/-- String.Len -/
def len (s : GStr) : M Nat := fun h =>
  let (h1, s1, w1) := initialized s h
  match h1.get (cellOf s1) with
  | some e => (h1, e.length, w1)
  | none =>
    if s1.runes.isEmpty then (h1, 0, w1)
    else let (h2, e, w2) := ensure s1 h1; (h2, e.length, w1 ++ w2)

/-- String.CharAt -/
def charAt (s : GStr) (idx : Int) : M (R (List Int)) := fun h =>
  let (h1, s1, w1) := initialized s h
  let (h2, e, w2) := ensure s1 h1
  let r : R (List Int) :=
    if idx < 0 ∨ idx ≥ e.length then throw .index
    else let (a, b) := clusterSpan e idx.toNat; pure (sliceRunes s1.runes a b)
  (h2, r, w1 ++ w2)

/-- String.GraphemeIndexes: the cached ends -/
def graphemeIndexes (s : GStr) : M (List Nat) := fun h =>
  let (h1, s1, w1) := initialized s h
  let (h2, e, w2) := ensure s1 h1
  (h2, e, w1 ++ w2)

/-- String.Runes (no cache access) -/
def runes (s : GStr) : M (List Int) := fun h =>
  let (h1, s1, w1) := initialized s h
  (h1, s1.runes, w1)

/-- String.Add -/
def add (s t : GStr) : M GStr := fun h =>
  let (h1, s1, w1) := initialized s h
  let (h2, r2, w2) := clone s1 h1
  let h3 := h2.set (cellOf r2) none
  let (h4, tr, w4) := runes t h3
  (h4, ⟨r2.runes ++ tr, r2.cell⟩, w1 ++ w2 ++ [.clear (cellOf r2)] ++ w4)

/-- String.Sub -/
def sub (s : GStr) (start end_ : Int) : M GStr := fun h =>
  let (h1, s1, w1) := initialized s h
  let (h2, n, w2) := len s1 h1
  let (st, en) := rangeToIndexes n start end_
  if st == en then (h2, zero, w1 ++ w2)
  else
    let (h3, _, w3) := ensure s1 h2
    let (h4, c, w4) := clone s1 h3
    let e := (h4.get (cellOf c)).getD []
    let a := if st > 0 then e.getD (st.toNat - 1) 0 else 0
    let b := e.getD (en.toNat - 1) 0
    let ends := ((e.drop st.toNat).take (en - st).toNat).map (· - a)
    (h4.set (cellOf c) (some ends), ⟨sliceRunes c.runes a b, c.cell⟩, w1 ++ w2 ++ w3 ++ w4 ++ [.fill (cellOf c)])

/-- String.SetCharAt -/
def setCharAt (s : GStr) (idx : Int) (r : List Int) : M (R GStr) := fun h =>
  let (h1, s1, w1) := initialized s h
  if r.isEmpty then (h1, throw .explicit, w1)
  else
    let (h2, c, w2) := clone s1 h1
    let (h3, e, w3) := ensure c h2
    if idx < 0 ∨ idx ≥ e.length then (h3, throw .index, w1 ++ w2 ++ w3)
    else
      let (a, b) := clusterSpan e idx.toNat
      (h3.set (cellOf c) none, pure ⟨c.runes.take a ++ r ++ c.runes.drop b, c.cell⟩,
        w1 ++ w2 ++ w3 ++ [.clear (cellOf c)])

/-- String.Reverse: the result's cell holds the ends of the ORIGINAL clusters in reverse order -/
def reverse (s : GStr) : M GStr := fun h =>
  let (h1, s1, w1) := initialized s h
  let (h2, e, w2) := ensure s1 h1
  let (h3, c, w3) := clone s1 h2
  let cl := (clustersFrom s1.runes 0 e).reverse
  let ends := (cl.foldl (fun (acc : List Nat × Nat) x => (acc.1 ++ [acc.2 + x.length], acc.2 + x.length)) ([], 0)).1
  (h3.set (cellOf c) (some ends), ⟨cl.flatten, c.cell⟩, w1 ++ w2 ++ w3 ++ [.fill (cellOf c)])

/-- gem.Repeat -/
def repeatN (s : GStr) : Nat → GStr → M GStr
  | 0, acc => fun h => (h, acc, [])
  | n + 1, acc => fun h =>
    let (h1, acc', w1) := add acc s h
    let (h2, r, w2) := repeatN s n acc' h1
    (h2, r, w1 ++ w2)

def «repeat» (s : GStr) (count : Int) : M GStr := repeatN s count.toNat zero

/-- String.IndexFunc with `!unicode.IsSpace(gc[0])`-style predicates over the cached clusters -/
def indexFunc (f : List Int → Bool) (s : GStr) : M Int := fun h =>
  let (h1, s1, w1) := initialized s h
  let (h2, n, w2) := len s1 h1
  if n == 0 then (h2, -1, w1 ++ w2)
  else
    let (h3, e, w3) := ensure s1 h2
    (h3, findIdxInt f (clustersFrom s1.runes 0 e), w1 ++ w2 ++ w3)

/-- String.LastIndexFunc -/
def lastIndexFunc (f : List Int → Bool) (s : GStr) : M Int := fun h =>
  let (h1, rev, w1) := reverse s h
  let (h2, ri, w2) := indexFunc f rev h1
  if ri == -1 then (h2, -1, w1 ++ w2)
  else
    let (h3, n, w3) := len s h2
    (h3, ((n : Int) - 1) - ri, w1 ++ w2 ++ w3)

end RosedVerif.H
