/-
Layer H, "for all histories" (C19/C20).

`Heap/Lemmas.lean` proves, per single call, that the pool invariant `Inv` is preserved and that the
write events have a small footprint.  The properties C19/C20 quantify over ALL HISTORIES: any
sequence of `New`, `Add`, `Sub`, `SetCharAt`, `Repeat` and of the observers `Len`, `CharAt`,
`GraphemeIndexes`, `Runes`, over a pool of values that includes the shared package-level zero value.

This file defines that pool machine (`Op`, `step`, `run`) and lifts the single-call lemmas to every
history by induction over the list of operations.

Pool order: as in the `inv_*` lemmas the newest value is consed in FRONT (`r :: pool`).  Operands
are named by their CREATION NUMBER (`pick`): index `i` is the `i`-th value ever pushed, so indexes
stay stable while the pool grows; any index ≥ the pool length denotes the shared `zero` value.
-/
import RosedVerif.Model.InstAFacts
namespace RosedVerif.H

/-! ## 1. The pool machine -/

/-- one exported operation, operands given as pool indexes (creation numbers) -/
inductive Op
  | new (rs : List Int)
  | add (i j : Nat)
  | sub (i : Nat) (st en : Int)
  | setCharAt (i : Nat) (idx : Int) (r : List Int)
  | «repeat» (i : Nat) (count : Int)
  | len (i : Nat)
  | charAt (i : Nat) (idx : Int)
  | graphemeIndexes (i : Nat)
  | runes (i : Nat)
  deriving Repr, DecidableEq

/-- operand number `i`: the `i`-th value ever pushed; out of range: the shared zero value -/
def pick (pool : List GStr) (i : Nat) : GStr := (pool.reverse[i]?).getD zero

theorem pick_mem (pool : List GStr) (i : Nat) : pick pool i ∈ zero :: pool := by
  unfold pick
  cases h : pool.reverse[i]? with
  | none => exact List.mem_cons_self
  | some v =>
    have := List.mem_of_getElem? h
    exact List.mem_cons_of_mem _ (List.mem_reverse.1 this)

theorem pick_of_le (pool : List GStr) (i : Nat) (hi : pool.length ≤ i) : pick pool i = zero := by
  unfold pick
  rw [List.getElem?_eq_none (by simpa using hi)]; rfl

/-- every pool member is some operand -/
theorem mem_pick {pool : List GStr} {v : GStr} (hv : v ∈ pool) : ∃ i, i < pool.length ∧ pick pool i = v := by
  obtain ⟨i, hi, e⟩ := List.getElem_of_mem (List.mem_reverse.2 hv)
  refine ⟨i, by simpa using hi, ?_⟩
  unfold pick
  rw [List.getElem?_eq_getElem hi, e]; rfl

/-- value-producing operations push their result in front of the pool (`setCharAt` only when it
does not panic); observers only thread the heap -/
def step (s : Heap × List GStr) : Op → Heap × List GStr
  | .new rs => ((H.new rs s.1).1, (H.new rs s.1).2.1 :: s.2)
  | .add i j =>
    ((H.add (pick s.2 i) (pick s.2 j) s.1).1, (H.add (pick s.2 i) (pick s.2 j) s.1).2.1 :: s.2)
  | .sub i st en =>
    ((H.sub (pick s.2 i) st en s.1).1, (H.sub (pick s.2 i) st en s.1).2.1 :: s.2)
  | .setCharAt i idx r =>
    match (H.setCharAt (pick s.2 i) idx r s.1).2.1 with
    | .ok res => ((H.setCharAt (pick s.2 i) idx r s.1).1, res :: s.2)
    | .error _ => ((H.setCharAt (pick s.2 i) idx r s.1).1, s.2)
  | .repeat i n =>
    ((H.repeat (pick s.2 i) n s.1).1, (H.repeat (pick s.2 i) n s.1).2.1 :: s.2)
  | .len i => ((H.len (pick s.2 i) s.1).1, s.2)
  | .charAt i idx => ((H.charAt (pick s.2 i) idx s.1).1, s.2)
  | .graphemeIndexes i => ((H.graphemeIndexes (pick s.2 i) s.1).1, s.2)
  | .runes i => ((H.runes (pick s.2 i) s.1).1, s.2)

/-- a history continued from an arbitrary state -/
def runFrom (s : Heap × List GStr) (ops : List Op) : Heap × List GStr := ops.foldl step s

/-- a history from program start: initial heap (only gem.Zero's cell), empty pool -/
def run (ops : List Op) : Heap × List GStr := ops.foldl step (Heap.init, [])

theorem run_eq_runFrom (ops : List Op) : run ops = runFrom (Heap.init, []) ops := rfl

theorem run_nil : run [] = (Heap.init, []) := rfl

theorem runFrom_append (s) (ops ops' : List Op) : runFrom s (ops ++ ops') = runFrom (runFrom s ops) ops' :=
  List.foldl_append

theorem run_append (ops ops' : List Op) : run (ops ++ ops') = runFrom (run ops) ops' := List.foldl_append

theorem run_snoc (ops : List Op) (op : Op) : run (ops ++ [op]) = step (run ops) op := by
  rw [run_append]; rfl

/-- the `Call` (of `Heap/Lemmas.lean`) an operation stands for in a given pool -/
def Op.call (pool : List GStr) : Op → Call
  | .new rs => .new rs
  | .add i j => .add (pick pool i) (pick pool j)
  | .sub i st en => .sub (pick pool i) st en
  | .setCharAt i idx r => .setCharAt (pick pool i) idx r
  | .repeat i n => .repeat (pick pool i) n
  | .len i => .len (pick pool i)
  | .charAt i idx => .charAt (pick pool i) idx
  | .graphemeIndexes i => .graphemeIndexes (pick pool i)
  | .runes i => .runes (pick pool i)

/-- the write events the operation reports when executed in state `s` -/
def writes (s : Heap × List GStr) (op : Op) : List Wr := ((op.call s.2).run s.1).2

/-- the heap component of `step` is the heap after the corresponding `Call` -/
theorem step_heap (s : Heap × List GStr) (op : Op) : (step s op).1 = ((op.call s.2).run s.1).1 := by
  cases op with
  | setCharAt i idx r =>
    simp only [step, Op.call, Call.run]
    split <;> rfl
  | _ => rfl

/-- every receiver whose cell a call may fill is a pool member or `zero` -/
theorem Op.recv_mem (pool : List GStr) (op : Op) : ∀ r, (op.call pool).recv = some r → r ∈ zero :: pool := by
  intro r hr
  cases op <;> simp only [Op.call, Call.recv] at hr <;> first
    | (cases hr; exact pick_mem _ _)
    | (cases hr)

/-- the pool after a step is the old pool with at most one new value in front -/
theorem step_pool (s : Heap × List GStr) (op : Op) : (step s op).2 = s.2 ∨ ∃ r, (step s op).2 = r :: s.2 := by
  cases op with
  | setCharAt i idx r =>
    simp only [step]
    split
    · exact .inr ⟨_, rfl⟩
    · exact .inl rfl
  | new rs => exact .inr ⟨_, rfl⟩
  | add i j => exact .inr ⟨_, rfl⟩
  | sub i st en => exact .inr ⟨_, rfl⟩
  | «repeat» i n => exact .inr ⟨_, rfl⟩
  | len i => exact .inl rfl
  | charAt i idx => exact .inl rfl
  | graphemeIndexes i => exact .inl rfl
  | runes i => exact .inl rfl

theorem step_pool_mem (s : Heap × List GStr) (op : Op) {v : GStr} (hv : v ∈ zero :: s.2) :
    v ∈ zero :: (step s op).2 := by
  rcases step_pool s op with e | ⟨r, e⟩ <;> rw [e]
  · exact hv
  · rcases List.mem_cons.1 hv with rfl | hv
    · exact List.mem_cons_self
    · exact List.mem_cons_of_mem _ (List.mem_cons_of_mem _ hv)

theorem runFrom_pool_mem (s : Heap × List GStr) (ops : List Op) {v : GStr} (hv : v ∈ zero :: s.2) :
    v ∈ zero :: (runFrom s ops).2 := by
  induction ops generalizing s with
  | nil => exact hv
  | cons op ops ih => exact ih (step s op) (step_pool_mem s op hv)

/-- operand numbers are stable: old operands keep their number when the pool grows -/
theorem pick_step (s : Heap × List GStr) (op : Op) (i : Nat) (hi : i < s.2.length) :
    pick (step s op).2 i = pick s.2 i := by
  rcases step_pool s op with e | ⟨r, e⟩ <;> rw [e]
  unfold pick
  rw [List.reverse_cons, List.getElem?_append_left (by simpa using hi)]

/-! ## 2. The invariant holds in every history -/

theorem step_inv (s : Heap × List GStr) (op : Op) (hi : Inv s.1 s.2) : Inv (step s op).1 (step s op).2 := by
  cases op with
  | new rs => exact inv_new _ _ rs hi
  | add i j => exact inv_add _ _ _ _ hi
  | sub i st en => exact inv_sub' sliceOK _ _ _ st en hi (pick_mem _ _)
  | setCharAt i idx r =>
    have := inv_setCharAt s.1 s.2 (pick s.2 i) idx r hi
    simp only [step]
    split
    · rename_i res hres; rw [hres] at this; exact this
    · rename_i e hres; rw [hres] at this; exact this
  | «repeat» i n => exact inv_repeat _ _ _ n hi
  | len i => exact inv_len' _ _ _ hi (pick_mem _ _)
  | charAt i idx => exact inv_charAt' _ _ _ idx hi (pick_mem _ _)
  | graphemeIndexes i => exact inv_graphemeIndexes' _ _ _ hi (pick_mem _ _)
  | runes i => exact inv_runes _ _ _ hi

/-- from ANY state satisfying the invariant (e.g. a pool holding never-initialized values,
`cell = none`), every continuation satisfies it -/
theorem runFrom_inv (s : Heap × List GStr) (ops : List Op) (hi : Inv s.1 s.2) :
    Inv (runFrom s ops).1 (runFrom s ops).2 := by
  induction ops generalizing s with
  | nil => exact hi
  | cons op ops ih => exact ih (step s op) (step_inv s op hi)

/-- **C19, all histories**: after any sequence of operations no pool value (nor the shared zero
value) has a stale cache, cells are shared only between equal contents, and only empty values
point at the package-level cell. -/
theorem histories_inv (ops : List Op) : Inv (run ops).1 (run ops).2 :=
  runFrom_inv _ ops inv_init

/-! ## 3. Every value of every history is a pure value -/

/-- under the invariant all observers of a pool value (or `zero`) answer as the pure layer-A
functions of its content do — the shape of `C19_len_pure`/`C19_boundaries_pure`/`C19_charAt_pure` -/
theorem pool_pure {h : Heap} {pool : List GStr} {v : GStr} (hi : Inv h pool) (hv : v ∈ zero :: pool) :
    (len v h).2.1 = gLen cxA v.runes ∧
    (graphemeIndexes v h).2.1 = splitRunes v.runes ∧
    (∀ i : Int, (charAt v i h).2.1 = gCharAt cxA v.runes i) ∧
    (runes v h).2.1 = v.runes :=
  ⟨len_pure cxA cxA_ends hi hv, graphemeIndexes_pure cxA cxA_ends hi hv,
    fun i => charAt_pure cxA cxA_ends i hi hv, runes_pure v h⟩

/-- **C19, all histories**: len, cluster boundaries, every charAt and the runes of every pool value
(and of `zero`), evaluated in the heap reached by the history, are the observers of a value freshly
built from the same content (`cxA.ends = splitRunes` is the fresh segmentation). -/
theorem histories_pure (ops : List Op) : ∀ v ∈ zero :: (run ops).2,
    (len v (run ops).1).2.1 = gLen cxA v.runes ∧
    (graphemeIndexes v (run ops).1).2.1 = splitRunes v.runes ∧
    (∀ i : Int, (charAt v i (run ops).1).2.1 = gCharAt cxA v.runes i) ∧
    (runes v (run ops).1).2.1 = v.runes :=
  fun _ hv => pool_pure (histories_inv ops) hv

/-- the same, against a LITERALLY fresh value: `New(v.runes)` executed at the end of any other
history `ops'` (in particular `ops' = []`: at program start) -/
theorem histories_pure_fresh (ops ops' : List Op) : ∀ v ∈ zero :: (run ops).2,
    (len v (run ops).1).2.1 = (len (new v.runes (run ops').1).2.1 (new v.runes (run ops').1).1).2.1 ∧
    (graphemeIndexes v (run ops).1).2.1 =
      (graphemeIndexes (new v.runes (run ops').1).2.1 (new v.runes (run ops').1).1).2.1 ∧
    (∀ i : Int, (charAt v i (run ops).1).2.1 =
      (charAt (new v.runes (run ops').1).2.1 i (new v.runes (run ops').1).1).2.1) ∧
    (runes v (run ops).1).2.1 = (runes (new v.runes (run ops').1).2.1 (new v.runes (run ops').1).1).2.1 := by
  intro v hv
  have P := pool_pure (histories_inv ops) hv
  have I := inv_new _ _ v.runes (histories_inv ops')
  have F := pool_pure I (List.mem_cons_of_mem _ List.mem_cons_self)
  rw [new_pure] at F
  exact ⟨P.1.trans F.1.symm, P.2.1.trans F.2.1.symm, fun i => (P.2.2.1 i).trans (F.2.2.1 i).symm,
    P.2.2.2.trans F.2.2.2.symm⟩

/-- two pool values with the same content are indistinguishable, wherever in whichever history each
of them lives -/
theorem histories_pure_ext (ops ops' : List Op) : ∀ v ∈ zero :: (run ops).2, ∀ w ∈ zero :: (run ops').2,
    v.runes = w.runes →
    (len v (run ops).1).2.1 = (len w (run ops').1).2.1 ∧
    (graphemeIndexes v (run ops).1).2.1 = (graphemeIndexes w (run ops').1).2.1 ∧
    (∀ i : Int, (charAt v i (run ops).1).2.1 = (charAt w i (run ops').1).2.1) ∧
    (runes v (run ops).1).2.1 = (runes w (run ops').1).2.1 := by
  intro v hv w hw e
  have P := pool_pure (histories_inv ops) hv
  have Q := pool_pure (histories_inv ops') hw
  rw [← e] at Q
  exact ⟨P.1.trans Q.1.symm, P.2.1.trans Q.2.1.symm, fun i => (P.2.2.1 i).trans (Q.2.2.1 i).symm,
    P.2.2.2.trans Q.2.2.2.symm⟩

/-! ## 4. No operand is altered -/

/-- a filled cell keeps its content across a step -/
theorem step_frame (s : Heap × List GStr) (op : Op) (c : Nat) (x : List Nat) (hx : s.1.get c = some x) :
    (step s op).1.get c = some x := by
  rw [step_heap]; exact frame _ _ c x hx

/-- **C19, all histories**: the pool after the next step is the old pool with at most one new
value in front — old values are literally the same `GStr`s (same runes, same cell, same operand
number) — and every observer of every old value (and of `zero`) answers in the new heap exactly as
in the old heap; an old value's cache, once filled, is the same list afterwards. -/
theorem histories_operands_unchanged (ops : List Op) (op : Op) :
    ((step (run ops) op).2 = (run ops).2 ∨ ∃ r, (step (run ops) op).2 = r :: (run ops).2) ∧
    (∀ i, i < (run ops).2.length → pick (step (run ops) op).2 i = pick (run ops).2 i) ∧
    (∀ v ∈ zero :: (run ops).2,
      (len v (step (run ops) op).1).2.1 = (len v (run ops).1).2.1 ∧
      (graphemeIndexes v (step (run ops) op).1).2.1 = (graphemeIndexes v (run ops).1).2.1 ∧
      (∀ i : Int, (charAt v i (step (run ops) op).1).2.1 = (charAt v i (run ops).1).2.1) ∧
      (runes v (step (run ops) op).1).2.1 = (runes v (run ops).1).2.1 ∧
      (∀ c x, v.cell = some c → (run ops).1.get c = some x → (step (run ops) op).1.get c = some x)) := by
  refine ⟨step_pool _ op, pick_step _ op, fun v hv => ?_⟩
  have P := pool_pure (histories_inv ops) hv
  have Q := pool_pure (step_inv _ op (histories_inv ops)) (step_pool_mem _ op hv)
  exact ⟨Q.1.trans P.1.symm, Q.2.1.trans P.2.1.symm, fun i => (Q.2.2.1 i).trans (P.2.2.1 i).symm,
    Q.2.2.2.trans P.2.2.2.symm, fun c x _ hx => step_frame _ op c x hx⟩

/-- the same over any number of later steps -/
theorem histories_operands_unchanged_later (ops ops' : List Op) : ∀ v ∈ zero :: (run ops).2,
    v ∈ zero :: (run (ops ++ ops')).2 ∧
    (len v (run (ops ++ ops')).1).2.1 = (len v (run ops).1).2.1 ∧
    (graphemeIndexes v (run (ops ++ ops')).1).2.1 = (graphemeIndexes v (run ops).1).2.1 ∧
    (∀ i : Int, (charAt v i (run (ops ++ ops')).1).2.1 = (charAt v i (run ops).1).2.1) ∧
    (runes v (run (ops ++ ops')).1).2.1 = (runes v (run ops).1).2.1 := by
  intro v hv
  have hv' : v ∈ zero :: (run (ops ++ ops')).2 := by
    rw [run_append]; exact runFrom_pool_mem _ ops' hv
  have P := pool_pure (histories_inv ops) hv
  have Q := pool_pure (histories_inv (ops ++ ops')) hv'
  exact ⟨hv', Q.1.trans P.1.symm, Q.2.1.trans P.2.1.symm, fun i => (Q.2.2.1 i).trans (P.2.2.1 i).symm,
    Q.2.2.2.trans P.2.2.2.symm⟩

/-! ## 5. Boundaries partition the code points -/

/-- **C19, all histories**: for every pool value the boundaries are strictly increasing, end at the
length, and there is no empty cluster. -/
theorem histories_partition (ops : List Op) : ∀ v ∈ (run ops).2, Part (splitRunes v.runes) v.runes.length :=
  fun v _ => part_splitRunes v.runes

/-- … and this is true of what the value's cache cell actually HOLDS and of what
`GraphemeIndexes` actually RETURNS in the heap reached by the history (also for `zero`) -/
theorem histories_partition_cached (ops : List Op) : ∀ v ∈ zero :: (run ops).2,
    Part (graphemeIndexes v (run ops).1).2.1 v.runes.length ∧
    ∀ c e, v.cell = some c → (run ops).1.get c = some e → Part e v.runes.length := by
  intro v hv
  have I := histories_inv ops
  refine ⟨?_, fun c e hc he => ?_⟩
  · rw [(pool_pure I hv).2.1]; exact part_splitRunes _
  · have ok := (cellOK_some hc).1 (I.ok' hv)
    rcases ok.2 with k | k
    · rw [k] at he; cases he
    · rw [k] at he; cases he; exact part_splitRunes _

/-! ## 6. C20 over histories -/

/-- **C20, all histories**: in the state reached by ANY history, the next call leaves the
package-level cell 0 equal to `some []` and no write event mentions cell 0. -/
theorem histories_zero_never_written (hz : Gen.zeroCachePrefilled = true) (ops : List Op) (op : Op) :
    (run ops).1.get 0 = some [] ∧
    (step (run ops) op).1.get 0 = some [] ∧
    ¬ Mentions (writes (run ops) op) 0 := by
  have Z := zero_never_written_inv hz (op.call (run ops).2) (histories_inv ops)
  exact ⟨(histories_inv ops).zero_filled hz, by rw [step_heap]; exact Z.1, Z.2⟩

theorem runFrom_frame (s : Heap × List GStr) (ops : List Op) (c : Nat) (x : List Nat)
    (hx : s.1.get c = some x) : (runFrom s ops).1.get c = some x := by
  induction ops generalizing s with
  | nil => exact hx
  | cons op ops ih => exact ih (step s op) (step_frame s op c x hx)

/-- **C20, all histories**: a cell that is filled at any point of a history has the same content
at every later point, and no later call reports a write event for it. -/
theorem histories_filled_never_written (ops ops' : List Op) (c : Nat) (x : List Nat)
    (hx : (run ops).1.get c = some x) :
    (run (ops ++ ops')).1.get c = some x ∧ ∀ op, ¬ Mentions (writes (run (ops ++ ops')) op) c := by
  have h' : (run (ops ++ ops')).1.get c = some x := by
    rw [run_append]; exact runFrom_frame _ ops' c x hx
  exact ⟨h', fun op => filled_not_written _ _ c x h'⟩

/-- footprint of every call of every history: a write goes to a cell allocated by the same call or
is the first fill of the cell of the receiver — which is a pool value or `zero` -/
theorem histories_footprint (ops : List Op) (op : Op) :
    (∀ w ∈ writes (run ops) op, Footprint (run ops).1 (op.call (run ops).2).recv w) ∧
    (∀ r, (op.call (run ops).2).recv = some r → r ∈ zero :: (run ops).2) :=
  ⟨footprint _ _, Op.recv_mem _ op⟩

/-- the heap only grows along a history -/
theorem histories_heap_grows (ops ops' : List Op) :
    (run ops).1.cells.length ≤ (run (ops ++ ops')).1.cells.length := by
  rw [run_append]
  generalize run ops = s
  induction ops' generalizing s with
  | nil => exact Nat.le_refl _
  | cons op ops ih =>
    refine Nat.le_trans ?_ (ih (step s op))
    rw [step_heap]; exact heap_grows _ _

/-! ## 7. A concrete history -/

/-- new "e"; new [U+0301]; add #0 #1 ("é" as two code points, one cluster); len #2;
sub #2 [0,1); setCharAt #2 0 "a" -/
def exHistory : List Op :=
  [.new [0x65], .new [0x301], .add 0 1, .len 2, .sub 2 0 1, .setCharAt 2 0 [0x61]]

/-- pool (newest first): setCharAt result "a", sub result "é", add result "é", U+0301, "e" -/
example : (run exHistory).2 =
    [⟨[0x61], some 5⟩, ⟨[0x65, 0x301], some 4⟩, ⟨[0x65, 0x301], some 3⟩, ⟨[0x301], some 2⟩, ⟨[0x65], some 1⟩] := by
  decide +kernel

/-- heap: cell 0 (gem.Zero) prefilled; cells 1, 2 never observed; cell 3 filled by `len`;
cell 4 filled by `sub` with the rebased ends; cell 5 cleared by `setCharAt` -/
example : (run exHistory).1.cells = [some [], none, none, some [2], some [2], none] := by
  decide +kernel

/-- the write events of the `len` step: the first fill of the receiver's own cell 3 -/
example : writes (run (exHistory.take 3)) (.len 2) = [.fill 3] := by decide +kernel

/-- the write events of the `sub` step: a fresh cell 4 is allocated and filled -/
example : writes (run (exHistory.take 4)) (.sub 2 0 1) = [.alloc 4, .fill 4] := by decide +kernel

/-- a `sub` with an empty range yields the SHARED zero value (cell 0) as a pool member -/
example : (run (exHistory ++ [.sub 2 1 1])).2.head? = some zero := by decide +kernel

/-- an out-of-range operand is the shared zero value -/
example : pick (run exHistory).2 7 = zero := by decide +kernel

/-- operand numbers are creation numbers -/
example : pick (run exHistory).2 2 = ⟨[0x65, 0x301], some 3⟩ := by decide +kernel

/-- a failing `setCharAt` (index out of range) pushes nothing -/
example : (run (exHistory ++ [.setCharAt 2 5 [0x61]])).2 = (run exHistory).2 := by decide +kernel

/-! the theorems instantiated on the concrete history (their hypotheses are met) -/

example : Inv (run exHistory).1 (run exHistory).2 := histories_inv exHistory

example : (⟨[0x65, 0x301], some 4⟩ : GStr) ∈ zero :: (run exHistory).2 := by decide +kernel

/-- the `sub` result (cache pre-filled by slicing + rebasing) observes as a fresh "é" -/
example : (len ⟨[0x65, 0x301], some 4⟩ (run exHistory).1).2.1 = gLen cxA [0x65, 0x301] :=
  (histories_pure exHistory _ (by decide +kernel)).1

example : (len ⟨[0x65, 0x301], some 4⟩ (run exHistory).1).2.1 = 1 := by decide +kernel

/-- `add`'s operands #0, #1 and every other old value observe the same before and after the `add` -/
example : ∀ v ∈ zero :: (run (exHistory.take 2)).2,
    (graphemeIndexes v (step (run (exHistory.take 2)) (.add 0 1)).1).2.1 =
      (graphemeIndexes v (run (exHistory.take 2)).1).2.1 :=
  fun v hv => ((histories_operands_unchanged (exHistory.take 2) (.add 0 1)).2.2 v hv).2.1

example : Part (splitRunes [0x65, 0x301]) 2 :=
  histories_partition exHistory ⟨[0x65, 0x301], some 3⟩ (by decide +kernel)

/-- `Gen.zeroCachePrefilled = true` holds by `rfl` -/
example : (step (run exHistory) (.len 99)).1.get 0 = some [] ∧ ¬ Mentions (writes (run exHistory) (.len 99)) 0 :=
  (histories_zero_never_written rfl exHistory (.len 99)).2

/-- the hypothesis `hz` is NECESSARY: were gem.Zero's cell not filled at start-up, the history
consisting of the single observer call `GraphemeIndexes` (or `CharAt`) on the zero value would write
the package-level cell -/
example : writes (⟨[none]⟩, []) (.graphemeIndexes 0) = [.fill 0] := by decide +kernel

/-- cell 3 is filled after 4 steps (by `len`), hence unchanged by the two later steps -/
example : (run (exHistory.take 4)).1.get 3 = some [2] := by decide +kernel

example : (run (exHistory.take 4 ++ exHistory.drop 4)).1.get 3 = some [2] :=
  (histories_filled_never_written (exHistory.take 4) (exHistory.drop 4) 3 [2] (by decide +kernel)).1

/-- a never-initialized value (`var s gem.String`, `cell = none`) is a legal starting pool member -/
example : Inv Heap.init [⟨[0x65], none⟩] :=
  ⟨fun v hv => by rw [List.mem_singleton.1 hv]; exact .of_none rfl,
   fun v hv w hw e hn => by rw [List.mem_singleton.1 hv] at hn; exact absurd rfl hn,
   inv_init.zero_ok,
   fun v hv e => by (rw [List.mem_singleton.1 hv] at e; cases e),
   inv_init.zero_filled⟩

/-- … and every history continued from it keeps the invariant -/
example (ops : List Op) : Inv (runFrom (Heap.init, [⟨[0x65], none⟩]) ops).1 (runFrom (Heap.init, [⟨[0x65], none⟩]) ops).2 :=
  runFrom_inv _ ops (by
    exact ⟨fun v hv => by rw [List.mem_singleton.1 hv]; exact .of_none rfl,
      fun v hv w hw e hn => by rw [List.mem_singleton.1 hv] at hn; exact absurd rfl hn,
      inv_init.zero_ok,
      fun v hv e => by (rw [List.mem_singleton.1 hv] at e; cases e),
      inv_init.zero_filled⟩)

end RosedVerif.H
