/-
Layer H lemmas (C19/C20): gem.String values with shared, lazily filled cache cells are pure
values (caches never stale), filled cells never change, and writes have a small footprint.

Structure: every operation is summarised, unconditionally, by a transition record `Tr`
(heap growth, what may happen to pre-existing cells, footprint of the write events, completeness
of the write events).  `Tr` composes (`Tr.comp`), so each operation is a short composition of
`initialized` / `ensure` / `clone` / alloc / set steps.  The pool invariant `Inv`, the pure-value
results and the footprint theorems are all consequences of `Tr` plus per-operation result facts.
-/
import RosedVerif.Heap.Model
namespace RosedVerif.H

theorem splitRunes_nil : splitRunes [] = [] := by rfl

theorem Heap.get_set (h : Heap) (c c' : Nat) (v) :
    (h.set c v).get c' = if c = c' ∧ c < h.cells.length then v else h.get c' := by
  unfold Heap.get Heap.set
  grind

theorem Heap.size_set (h : Heap) (c : Nat) (v) : (h.set c v).cells.length = h.cells.length := by
  simp [Heap.set]

theorem Heap.get_alloc (h : Heap) (v) (c : Nat) :
    (h.alloc v).1.get c = if c = h.cells.length then v else h.get c := by
  unfold Heap.get Heap.alloc
  grind

theorem Heap.size_alloc (h : Heap) (v) : (h.alloc v).1.cells.length = h.cells.length + 1 := by
  simp [Heap.alloc]

theorem Heap.alloc_snd (h : Heap) (v) : (h.alloc v).2 = h.cells.length := rfl

theorem Heap.get_of_le (h : Heap) (c : Nat) (hc : h.cells.length ≤ c) : h.get c = none := by
  unfold Heap.get; grind

theorem Heap.get_eq_of_cells (h h' : Heap) (c : Nat) (e : h'.cells[c]? = h.cells[c]?) :
    h'.get c = h.get c := by
  unfold Heap.get; grind

/-- footprint of one write event, relative to the first `n` (pre-existing) cells, for a receiver
with cell `rc`. -/
def WrOK (n : Nat) (rc : Option Nat) (h : Heap) : Wr → Prop
  | .alloc c => n ≤ c
  | .clear c => n ≤ c
  | .fill c => n ≤ c ∨ (rc = some c ∧ h.get c = none)

def Mentions (ws : List Wr) (c : Nat) : Prop := Wr.alloc c ∈ ws ∨ Wr.fill c ∈ ws ∨ Wr.clear c ∈ ws

/-- Transition summary. -/
structure Tr (n : Nat) (rc : Option Nat) (rr : List Int) (h h' : Heap) (ws : List Wr) : Prop where
  mono : h.cells.length ≤ h'.cells.length
  old : ∀ c, c < n → h'.get c = h.get c ∨
      (rc = some c ∧ h.get c = none ∧ h'.get c = some (splitRunes rr))
  foot : ∀ w ∈ ws, WrOK n rc h w
  agree : ∀ c, ¬ Mentions ws c → h'.cells[c]? = h.cells[c]?

theorem Tr.refl (n rc rr h) : Tr n rc rr h h [] :=
  ⟨Nat.le_refl _, fun _ _ => .inl rfl, by simp, fun _ _ => rfl⟩

theorem Tr.anti {n n' rc rr h h' ws} (t : Tr n rc rr h h' ws) (hn : n' ≤ n) : Tr n' rc rr h h' ws := by
  refine ⟨t.mono, fun c hc => t.old c (by omega), fun w hw => ?_, t.agree⟩
  have := t.foot w hw
  cases w <;> simp only [WrOK] at this ⊢ <;> grind

theorem Tr.comp {n rc rr rc2 rr2 h h1 h2 w1 w2}
    (t1 : Tr n rc rr h h1 w1) (t2 : Tr n rc2 rr2 h1 h2 w2)
    (hc : (rc2 = rc ∧ rr2 = rr) ∨ ∀ c, rc2 = some c → n ≤ c) :
    Tr n rc rr h h2 (w1 ++ w2) := by
  have key : ∀ c, c < n → rc2 = some c → h1.get c = none → rc = some c ∧ rr2 = rr ∧ h.get c = none := by
    intro c hcn e1 e2
    rcases hc with ⟨rfl, rfl⟩ | hc
    · refine ⟨e1, rfl, ?_⟩
      rcases t1.old c hcn with e | ⟨_, _, e⟩
      · rw [← e]; exact e2
      · rw [e2] at e; cases e
    · have := hc c e1; omega
  refine ⟨Nat.le_trans t1.mono t2.mono, fun c hcn => ?_, fun w hw => ?_, fun c hm => ?_⟩
  · rcases t2.old c hcn with e | ⟨e1, e2, e3⟩
    · rw [e]; exact t1.old c hcn
    · obtain ⟨k1, k2, k3⟩ := key c hcn e1 e2
      exact .inr ⟨k1, k3, k2 ▸ e3⟩
  · rcases List.mem_append.1 hw with hw | hw
    · exact t1.foot w hw
    · have := t2.foot w hw
      cases w with
      | alloc c => exact this
      | clear c => exact this
      | fill c =>
        simp only [WrOK] at this ⊢
        rcases this with l | ⟨e1, e2⟩
        · exact .inl l
        · by_cases hcn : c < n
          · obtain ⟨k1, _, k3⟩ := key c hcn e1 e2
            exact .inr ⟨k1, k3⟩
          · exact .inl (by omega)
  · have m1 : ¬ Mentions w1 c := by simp only [Mentions, List.mem_append] at hm ⊢; grind
    have m2 : ¬ Mentions w2 c := by simp only [Mentions, List.mem_append] at hm ⊢; grind
    rw [t2.agree c m2, t1.agree c m1]

/-- a computation that never fills an old cell can be composed under any receiver -/
theorem Tr.comp_none {n rc rr rr2 h h1 h2 w1 w2}
    (t1 : Tr n rc rr h h1 w1) (t2 : Tr n none rr2 h1 h2 w2) : Tr n rc rr h h2 (w1 ++ w2) :=
  t1.comp t2 (.inr (by simp))

theorem Tr.comp_same {n rc rr h h1 h2 w1 w2}
    (t1 : Tr n rc rr h h1 w1) (t2 : Tr n rc rr h1 h2 w2) : Tr n rc rr h h2 (w1 ++ w2) :=
  t1.comp t2 (.inl ⟨rfl, rfl⟩)

theorem Tr.of_none {n rc rr rr' h h' ws} (t : Tr n none rr' h h' ws) : Tr n rc rr h h' ws := by
  simpa using (Tr.refl n rc rr h).comp_none t

/-- filled cells never change -/
theorem Tr.frame {rc rr h h' ws} (t : Tr h.cells.length rc rr h h' ws) (c : Nat) (x)
    (hx : h.get c = some x) : h'.get c = some x := by
  by_cases hc : c < h.cells.length
  · rcases t.old c hc with e | ⟨_, e, _⟩
    · rw [e, hx]
    · rw [hx] at e; cases e
  · rw [Heap.get_of_le h c (by omega)] at hx; cases hx

/-- primitive steps -/
theorem Tr.alloc (n h v) (hn : n ≤ h.cells.length) :
    Tr n none [] h (h.alloc v).1 [.alloc (h.alloc v).2] := by
  refine ⟨by simp [Heap.alloc], fun c hc => .inl ?_, ?_, ?_⟩
  · rw [Heap.get_alloc]; grind
  · simp [WrOK, Heap.alloc]; omega
  · intro c hm
    simp [Mentions, Heap.alloc] at hm ⊢
    grind

theorem Tr.set_fresh (n h c v) (hn : n ≤ c) (k : Nat → Wr) (hk : k = .fill ∨ k = .clear) :
    Tr n none [] h (h.set c v) [k c] := by
  refine ⟨by simp [Heap.set], fun c' hc => .inl ?_, ?_, ?_⟩
  · rw [Heap.get_set]; grind
  · rcases hk with rfl | rfl <;> simp [WrOK] <;> omega
  · intro c' hm
    have : c' ≠ c := by rcases hk with rfl | rfl <;> simp [Mentions] at hm <;> exact hm
    simp [Heap.set]; grind

/-! ### the invariant on single values -/

/-- "a cached value is never stale" -/
def CellOK (h : Heap) (v : GStr) : Prop :=
  match v.cell with
  | none => True
  | some c => c < h.cells.length ∧ (h.get c = none ∨ h.get c = some (splitRunes v.runes))

theorem CellOK.of_none {h v} (hv : v.cell = none) : CellOK h v := by
  simp [CellOK, hv]

theorem cellOK_some {h v c} (hv : v.cell = some c) :
    CellOK h v ↔ c < h.cells.length ∧ (h.get c = none ∨ h.get c = some (splitRunes v.runes)) := by
  simp [CellOK, hv]

/-- a transition whose receiver (if it shares `v`'s cell) has `v`'s content keeps `v` valid -/
theorem CellOK.step {h h' v rc rr ws} (ok : CellOK h v) (t : Tr h.cells.length rc rr h h' ws)
    (hr : rc = v.cell → rc ≠ none → rr = v.runes) : CellOK h' v := by
  cases hv : v.cell with
  | none => exact .of_none hv
  | some c =>
    rw [cellOK_some hv] at ok ⊢
    refine ⟨Nat.lt_of_lt_of_le ok.1 t.mono, ?_⟩
    rcases t.old c ok.1 with e | ⟨e1, _, e3⟩
    · rw [e]; exact ok.2
    · rw [← hr (by rw [e1, hv]) (by simp [e1])]; exact .inr e3

/-! ### `initialized` -/

theorem initialized_some {s : GStr} {c} (hs : s.cell = some c) (h : Heap) :
    initialized s h = (h, s, []) := by
  simp [initialized, hs]

theorem initialized_none {s : GStr} (hs : s.cell = none) (h : Heap) :
    initialized s h = ((h.alloc none).1, ⟨s.runes, some h.cells.length⟩, [.alloc h.cells.length]) := by
  simp [initialized, hs, Heap.alloc]

/-- everything the callers need to know about `initialized s h = (h1, s1, w1)` -/
structure InitSpec (s : GStr) (h h1 : Heap) (s1 : GStr) (w1 : List Wr) : Prop where
  tr : Tr h.cells.length none [] h h1 w1
  runes : s1.runes = s.runes
  cell : ∃ c, s1.cell = some c ∧
    ((s.cell = some c ∧ h1 = h ∧ w1 = []) ∨
     (s.cell = none ∧ c = h.cells.length ∧ c < h1.cells.length ∧ h1.get c = none))

theorem initSpec (s : GStr) (h : Heap) :
    InitSpec s h (initialized s h).1 (initialized s h).2.1 (initialized s h).2.2 := by
  cases hs : s.cell with
  | some c =>
    rw [initialized_some hs]
    exact ⟨Tr.refl _ _ _ _, rfl, c, hs, .inl ⟨hs, rfl, rfl⟩⟩
  | none =>
    rw [initialized_none hs]
    refine ⟨Tr.alloc _ h none (Nat.le_refl _), rfl, h.cells.length, rfl, .inr ⟨hs, rfl, ?_, ?_⟩⟩
    · simp [Heap.alloc]
    · simp [Heap.get_alloc]

theorem InitSpec.ok {s h h1 s1 w1} (i : InitSpec s h h1 s1 w1) (ok : CellOK h s) : CellOK h1 s1 := by
  obtain ⟨c, hc, h' | h'⟩ := i.cell
  · obtain ⟨e1, rfl, _⟩ := h'
    rw [cellOK_some hc, i.runes]; rwa [cellOK_some e1] at ok
  · rw [cellOK_some hc]; exact ⟨h'.2.2.1, .inl h'.2.2.2⟩

/-- the local copy is already initialized -/
theorem InitSpec.idem {s h h1 s1 w1} (i : InitSpec s h h1 s1 w1) (h' : Heap) :
    initialized s1 h' = (h', s1, []) := by
  obtain ⟨c, hc, _⟩ := i.cell
  exact initialized_some hc h'

/-- glue: a transition of the initialized copy is a transition of the receiver -/
theorem InitSpec.glue {s h h1 s1 w1 h2 w2} (i : InitSpec s h h1 s1 w1)
    (t : Tr h1.cells.length s1.cell s1.runes h1 h2 w2) :
    Tr h.cells.length s.cell s.runes h h2 (w1 ++ w2) := by
  refine (i.tr.of_none).comp (t.anti i.tr.mono) ?_
  obtain ⟨c, hc, h' | h'⟩ := i.cell
  · exact .inl ⟨by rw [hc, h'.1], i.runes⟩
  · refine .inr fun c' e => ?_
    rw [hc] at e; cases e; omega

/-! ### `ensure` -/

theorem tr_ensure (s : GStr) (h : Heap) :
    Tr h.cells.length (some (cellOf s)) s.runes h (ensure s h).1 (ensure s h).2.2 := by
  unfold ensure
  split
  · exact Tr.refl _ _ _ _
  · rename_i hn
    refine ⟨by simp [Heap.set], fun c hc => ?_, ?_, ?_⟩
    · simp only [Heap.get_set]
      by_cases e : cellOf s = c
      · subst e; simp [hc, hn]
      · simp [e]
    · simp [WrOK, hn]
    · intro c hm
      have : c ≠ cellOf s := by simp [Mentions] at hm; exact hm
      simp [Heap.set]; grind

theorem ensure_val {s : GStr} {h : Heap}
    (ok : h.get (cellOf s) = none ∨ h.get (cellOf s) = some (splitRunes s.runes)) :
    (ensure s h).2.1 = splitRunes s.runes := by
  unfold ensure
  rcases ok with e | e <;> simp [e]

theorem ensure_get {s : GStr} {h : Heap} (hc : cellOf s < h.cells.length)
    (ok : h.get (cellOf s) = none ∨ h.get (cellOf s) = some (splitRunes s.runes)) :
    (ensure s h).1.get (cellOf s) = some (splitRunes s.runes) := by
  unfold ensure
  rcases ok with e | e <;> simp [e, Heap.get_set, hc]

theorem cellOf_some {s : GStr} {c} (hs : s.cell = some c) : cellOf s = c := by simp [cellOf, hs]

@[simp] theorem cellOf_mk (r : List Int) (c : Nat) : cellOf ⟨r, some c⟩ = c := rfl

/-- `ensure` on a valid value with a cell -/
theorem ensure_spec {s : GStr} {h : Heap} {c} (hs : s.cell = some c) (ok : CellOK h s) :
    (ensure s h).2.1 = splitRunes s.runes ∧ (ensure s h).1.get c = some (splitRunes s.runes) ∧
    Tr h.cells.length s.cell s.runes h (ensure s h).1 (ensure s h).2.2 := by
  have t := tr_ensure s h
  rw [cellOK_some hs] at ok
  rw [cellOf_some hs, ← hs] at t
  have ok' : h.get (cellOf s) = none ∨ h.get (cellOf s) = some (splitRunes s.runes) := by
    rw [cellOf_some hs]; exact ok.2
  refine ⟨ensure_val ok', ?_, t⟩
  have := ensure_get (by rw [cellOf_some hs]; exact ok.1) ok'
  rwa [cellOf_some hs] at this

theorem tr_ensure' {s : GStr} {h : Heap} {c} (hs : s.cell = some c) :
    Tr h.cells.length s.cell s.runes h (ensure s h).1 (ensure s h).2.2 := by
  have t := tr_ensure s h
  rwa [cellOf_some hs, ← hs] at t

/-! ### `new` -/

theorem new_eq (rs : List Int) (h : Heap) :
    new rs h = ((h.alloc none).1, ⟨rs, some h.cells.length⟩, [.alloc h.cells.length]) := rfl

theorem tr_new (rs : List Int) (h : Heap) :
    Tr h.cells.length none [] h (new rs h).1 (new rs h).2.2 := by
  rw [new_eq]; exact Tr.alloc _ h none (Nat.le_refl _)

/-! ### `clone` (only ever called on an initialized copy) -/

theorem clone_some {s : GStr} {c} (hs : s.cell = some c) (h : Heap) :
    clone s h = ((h.alloc (h.get c)).1, ⟨s.runes, some h.cells.length⟩, [.alloc h.cells.length]) := by
  simp [clone, initialized_some hs, cellOf_some hs, Heap.alloc]

theorem tr_clone {s : GStr} {c} (hs : s.cell = some c) (h : Heap) :
    Tr h.cells.length none [] h (clone s h).1 (clone s h).2.2 := by
  rw [clone_some hs]; exact Tr.alloc _ h _ (Nat.le_refl _)

/-! ### `len` -/

theorem tr_len (s : GStr) (h : Heap) :
    Tr h.cells.length s.cell s.runes h (len s h).1 (len s h).2.2 := by
  unfold len
  have I := initSpec s h
  rcases hi : initialized s h with ⟨h1, s1, w1⟩
  simp only [hi] at I ⊢
  obtain ⟨c, hc, -⟩ := I.cell
  split
  · exact I.tr.of_none
  · split
    · exact I.tr.of_none
    · exact I.glue (tr_ensure' hc)

theorem len_val {s : GStr} {h : Heap} (ok : CellOK h s) :
    (len s h).2.1 = (splitRunes s.runes).length := by
  unfold len
  have I := initSpec s h
  rcases hi : initialized s h with ⟨h1, s1, w1⟩
  simp only [hi] at I ⊢
  obtain ⟨c, hc, -⟩ := I.cell
  have ok1 := I.ok ok
  rw [← I.runes]
  rw [cellOK_some hc] at ok1
  rw [cellOf_some hc]
  split
  · rename_i e he
    rcases ok1.2 with k | k
    · rw [k] at he; cases he
    · rw [k] at he; cases he; rfl
  · split
    · rename_i hr
      have : s1.runes = [] := by simpa using hr
      rw [this, splitRunes_nil]; rfl
    · rename_i hn _
      show (ensure s1 h1).2.1.length = _
      rw [ensure_val (by rw [cellOf_some hc]; exact .inl hn)]

/-! ### `charAt`, `graphemeIndexes`, `runes` -/

theorem tr_charAt (s : GStr) (i : Int) (h : Heap) :
    Tr h.cells.length s.cell s.runes h (charAt s i h).1 (charAt s i h).2.2 := by
  unfold charAt
  have I := initSpec s h
  rcases hi : initialized s h with ⟨h1, s1, w1⟩
  simp only [hi] at I ⊢
  obtain ⟨c, hc, -⟩ := I.cell
  exact I.glue (tr_ensure' hc)

theorem charAt_val {s : GStr} (i : Int) {h : Heap} (ok : CellOK h s) :
    (charAt s i h).2.1 =
      (let e := splitRunes s.runes
       if i < 0 ∨ i ≥ e.length then throw .index
       else let (a, b) := clusterSpan e i.toNat; pure (sliceRunes s.runes a b)) := by
  unfold charAt
  have I := initSpec s h
  rcases hi : initialized s h with ⟨h1, s1, w1⟩
  simp only [hi] at I ⊢
  obtain ⟨c, hc, -⟩ := I.cell
  rw [(ensure_spec hc (I.ok ok)).1, I.runes]

theorem tr_graphemeIndexes (s : GStr) (h : Heap) :
    Tr h.cells.length s.cell s.runes h (graphemeIndexes s h).1 (graphemeIndexes s h).2.2 := by
  unfold graphemeIndexes
  have I := initSpec s h
  rcases hi : initialized s h with ⟨h1, s1, w1⟩
  simp only [hi] at I ⊢
  obtain ⟨c, hc, -⟩ := I.cell
  exact I.glue (tr_ensure' hc)

theorem graphemeIndexes_val {s : GStr} {h : Heap} (ok : CellOK h s) :
    (graphemeIndexes s h).2.1 = splitRunes s.runes := by
  unfold graphemeIndexes
  have I := initSpec s h
  rcases hi : initialized s h with ⟨h1, s1, w1⟩
  simp only [hi] at I ⊢
  obtain ⟨c, hc, -⟩ := I.cell
  rw [(ensure_spec hc (I.ok ok)).1, I.runes]

theorem tr_runes (s : GStr) (h : Heap) :
    Tr h.cells.length none [] h (runes s h).1 (runes s h).2.2 := by
  unfold runes
  exact (initSpec s h).tr

theorem runes_val (s : GStr) (h : Heap) : (runes s h).2.1 = s.runes := by
  unfold runes
  exact (initSpec s h).runes

/-! ### `add` -/

/-- a result value living in a cell allocated by this very call -/
def FreshIn (h h' : Heap) (r : GStr) : Prop :=
  ∃ c, r.cell = some c ∧ h.cells.length ≤ c ∧ c < h'.cells.length

theorem add_spec (s t : GStr) (h : Heap) :
    Tr h.cells.length none [] h (add s t h).1 (add s t h).2.2 ∧
    (add s t h).2.1.runes = s.runes ++ t.runes ∧
    ∃ c, (add s t h).2.1.cell = some c ∧ h.cells.length ≤ c ∧ c < (add s t h).1.cells.length ∧
      (add s t h).1.get c = none := by
  unfold add
  have I := initSpec s h
  rcases hi : initialized s h with ⟨h1, s1, w1⟩
  simp only [hi] at I ⊢
  obtain ⟨c, hc, -⟩ := I.cell
  rw [clone_some hc]
  simp only [cellOf_mk]
  have T := tr_runes t ((h1.alloc (h1.get c)).1.set h1.cells.length none)
  have V := runes_val t ((h1.alloc (h1.get c)).1.set h1.cells.length none)
  rcases hr : runes t ((h1.alloc (h1.get c)).1.set h1.cells.length none) with ⟨h4, tr, w4⟩
  simp only [hr] at T V ⊢
  have m := I.tr.mono
  have sz : ((h1.alloc (h1.get c)).1.set h1.cells.length none).cells.length = h1.cells.length + 1 := by
    rw [Heap.size_set, Heap.size_alloc]
  refine ⟨?_, by rw [V, I.runes], h1.cells.length, rfl, m, ?_, ?_⟩
  · have t2 : Tr h.cells.length none [] h1 (h1.alloc (h1.get c)).1 [.alloc h1.cells.length] :=
      (Tr.alloc _ h1 _ (Nat.le_refl _)).anti m
    have t3 := Tr.set_fresh h.cells.length (h1.alloc (h1.get c)).1 h1.cells.length none m .clear (.inr rfl)
    have t4 := T.anti (n' := h.cells.length) (by rw [sz]; omega)
    exact ((I.tr.comp_none t2).comp_none t3).comp_none t4
  · have := T.mono; rw [sz] at this; omega
  · rcases T.old h1.cells.length (by rw [sz]; omega) with e | ⟨e, _⟩
    · rw [e, Heap.get_set]; simp [Heap.size_alloc]
    · cases e

/-- a result value living in a cell allocated by this very call, still unfilled -/
def FreshNone (h h' : Heap) (r : GStr) : Prop :=
  ∃ c, r.cell = some c ∧ h.cells.length ≤ c ∧ c < h'.cells.length ∧ h'.get c = none

theorem add_fresh (s t : GStr) (h : Heap) : FreshNone h (add s t h).1 (add s t h).2.1 :=
  (add_spec s t h).2.2

/-! ### `setCharAt` -/

theorem setCharAt_spec (s : GStr) (i : Int) (r : List Int) (h : Heap) :
    Tr h.cells.length none [] h (setCharAt s i r h).1 (setCharAt s i r h).2.2 ∧
    (∀ v, (setCharAt s i r h).2.1 = .ok v → FreshNone h (setCharAt s i r h).1 v) ∧
    (CellOK h s → (setCharAt s i r h).2.1.map GStr.runes =
      (if r.isEmpty then throw .explicit
       else
        let e := splitRunes s.runes
        if i < 0 ∨ i ≥ e.length then throw .index
        else let (a, b) := clusterSpan e i.toNat; pure (s.runes.take a ++ r ++ s.runes.drop b))) := by
  unfold setCharAt
  have I := initSpec s h
  rcases hi : initialized s h with ⟨h1, s1, w1⟩
  simp only [hi] at I ⊢
  obtain ⟨c, hc, -⟩ := I.cell
  have m := I.tr.mono
  split
  · rename_i hr
    refine ⟨I.tr, fun v hv => (by cases hv), fun _ => ?_⟩
    simp; rfl
  · rename_i hr
    rw [clone_some hc]
    simp only [cellOf_mk]
    have t2 : Tr h.cells.length none [] h1 (h1.alloc (h1.get c)).1 [.alloc h1.cells.length] :=
      (Tr.alloc _ h1 _ (Nat.le_refl _)).anti m
    have T := tr_ensure ⟨s1.runes, some h1.cells.length⟩ (h1.alloc (h1.get c)).1
    have V : CellOK h s → (ensure ⟨s1.runes, some h1.cells.length⟩ (h1.alloc (h1.get c)).1).2.1
        = splitRunes s.runes := by
      intro ok
      have ok1 := I.ok ok
      rw [cellOK_some hc] at ok1
      rw [← I.runes]
      apply ensure_val (s := ⟨s1.runes, some h1.cells.length⟩)
      simpa [Heap.get_alloc] using ok1.2
    rcases he : ensure ⟨s1.runes, some h1.cells.length⟩ (h1.alloc (h1.get c)).1 with ⟨h3, e, w3⟩
    simp only [he, cellOf_mk] at T V ⊢
    have sz : (h1.alloc (h1.get c)).1.cells.length = h1.cells.length + 1 := Heap.size_alloc _ _
    have t3 : Tr h.cells.length none [] h (h3) (w1 ++ [.alloc h1.cells.length] ++ w3) :=
      (I.tr.comp_none t2).comp (T.anti (by rw [sz]; omega)) (.inr (by intro c' e; cases e; exact m))
    have m3 := T.mono
    split
    · refine ⟨t3, fun v hv => (by cases hv), fun ok => ?_⟩
      rename_i hidx
      rw [V ok] at hidx
      simp [hidx]; rfl
    · rename_i hidx
      refine ⟨t3.comp_none (Tr.set_fresh _ h3 h1.cells.length none m .clear (.inr rfl)), ?_, fun ok => ?_⟩
      · intro v hv
        cases hv
        refine ⟨h1.cells.length, rfl, m, ?_, ?_⟩
        · rw [Heap.size_set]; omega
        · rw [Heap.get_set]; simp; omega
      · rw [V ok] at hidx ⊢
        simp [hidx, I.runes, Except.map]; rfl

/-! ### `repeat` -/

theorem repeatN_spec (s : GStr) (n : Nat) (acc : GStr) (h : Heap) :
    Tr h.cells.length none [] h (repeatN s n acc h).1 (repeatN s n acc h).2.2 ∧
    (repeatN s n acc h).2.1.runes = acc.runes ++ (List.replicate n s.runes).flatten ∧
    ((n = 0 ∧ (repeatN s n acc h).2.1 = acc ∧ (repeatN s n acc h).1 = h) ∨
      FreshNone h (repeatN s n acc h).1 (repeatN s n acc h).2.1) := by
  induction n generalizing acc h with
  | zero => exact ⟨Tr.refl _ _ _ _, by simp [repeatN], .inl ⟨rfl, rfl, rfl⟩⟩
  | succ n ih =>
    unfold repeatN
    obtain ⟨A1, A2, c, A3, A4, A5, A6⟩ := add_spec acc s h
    rcases ha : add acc s h with ⟨h1, acc', w1⟩
    simp only [ha] at A1 A2 A3 A4 A5 A6 ⊢
    obtain ⟨B1, B2, B3⟩ := ih acc' h1
    rcases hb : repeatN s n acc' h1 with ⟨h2, r, w2⟩
    simp only [hb] at B1 B2 B3 ⊢
    refine ⟨A1.comp_none (B1.anti A1.mono), ?_, .inr ?_⟩
    · rw [B2, A2, List.replicate_succ, List.flatten_cons, List.append_assoc]
    · rcases B3 with ⟨_, rfl, rfl⟩ | ⟨c', C1, C2, C3, C4⟩
      · exact ⟨c, A3, A4, A5, A6⟩
      · exact ⟨c', C1, Nat.le_trans A1.mono C2, C3, C4⟩

/-! ### `sub` -/

theorem rangeToIndexes_bounds (n s e : Int) (hn : 0 ≤ n) :
    0 ≤ (rangeToIndexes n s e).1 ∧ (rangeToIndexes n s e).1 ≤ (rangeToIndexes n s e).2 ∧
      (rangeToIndexes n s e).2 ≤ n := by
  unfold rangeToIndexes
  simp only
  repeat' split
  all_goals omega

/-- the slice property of the segmentation (proved elsewhere): a slice between two cluster
boundaries segments exactly as inside the whole string -/
def SliceOK : Prop :=
  ∀ (s : List Int) (st en : Int), let e := splitRunes s
    0 ≤ st → st < en → en ≤ e.length →
    let a := if st > 0 then e.getD (st.toNat - 1) 0 else 0
    let b := e.getD (en.toNat - 1) 0
    splitRunes (sliceRunes s a b) = ((e.drop st.toNat).take (en - st).toNat).map (· - a)

/-- rune offset of the start of cluster `st` -/
def subA (e : List Nat) (st : Int) : Nat := if st > 0 then e.getD (st.toNat - 1) 0 else 0
/-- rune offset of the end of cluster `en - 1` -/
def subB (e : List Nat) (en : Int) : Nat := e.getD (en.toNat - 1) 0
/-- the boundaries `Sub` stores in the fresh cell -/
def subEnds (e : List Nat) (st en : Int) : List Nat :=
  ((e.drop st.toNat).take (en - st).toNat).map (· - subA e st)

theorem tr_sub (s : GStr) (st en : Int) (h : Heap) :
    Tr h.cells.length s.cell s.runes h (sub s st en h).1 (sub s st en h).2.2 := by
  unfold sub
  have I := initSpec s h
  rcases hi : initialized s h with ⟨h1, s1, w1⟩
  simp only [hi] at I ⊢
  obtain ⟨c, hc, -⟩ := I.cell
  have T2 := tr_len s1 h1
  rcases hl : len s1 h1 with ⟨h2, n, w2⟩
  simp only [hl] at T2 ⊢
  rcases hrt : rangeToIndexes (↑n) st en with ⟨a, b⟩
  simp only
  split
  · simpa only [List.append_assoc] using I.glue T2
  · have T3 := tr_ensure' (h := h2) hc
    rcases he : ensure s1 h2 with ⟨h3, e, w3⟩
    simp only [he] at T3 ⊢
    rw [clone_some hc]
    simp only [cellOf_mk]
    have m2 := T2.mono
    have m3 := T3.mono
    have t4 : Tr h1.cells.length none [] h3 (h3.alloc (h3.get c)).1 [.alloc h3.cells.length] :=
      (Tr.alloc _ h3 _ (Nat.le_refl _)).anti (by omega)
    have t5 := Tr.set_fresh h1.cells.length (h3.alloc (h3.get c)).1 h3.cells.length
    simpa only [List.append_assoc] using
      I.glue ((((T2.comp_same (T3.anti m2)).comp_none t4).comp_none
        (t5 _ (by omega) .fill (.inl rfl))))

/-- the result of `sub` on a valid value: either the shared `zero`, or a fresh value whose cell is
already filled with `subEnds`. -/
theorem sub_spec {s : GStr} (start end_ : Int) {h : Heap} (ok : CellOK h s) :
    let e := splitRunes s.runes
    let st := (rangeToIndexes e.length start end_).1
    let en := (rangeToIndexes e.length start end_).2
    if st = en then (sub s start end_ h).2.1 = zero
    else
      (sub s start end_ h).2.1.runes = sliceRunes s.runes (subA e st) (subB e en) ∧
      ∃ c, (sub s start end_ h).2.1.cell = some c ∧ h.cells.length ≤ c ∧
        c < (sub s start end_ h).1.cells.length ∧
        (sub s start end_ h).1.get c = some (subEnds e st en) := by
  unfold sub
  have I := initSpec s h
  rcases hi : initialized s h with ⟨h1, s1, w1⟩
  simp only [hi] at I ⊢
  obtain ⟨c, hc, -⟩ := I.cell
  have ok1 := I.ok ok
  have T2 := tr_len s1 h1
  have V2 := len_val ok1
  rcases hl : len s1 h1 with ⟨h2, n, w2⟩
  simp only [hl] at T2 V2 ⊢
  subst V2
  rw [I.runes]
  rcases hrt : rangeToIndexes (↑(splitRunes s.runes).length) start end_ with ⟨a, b⟩
  simp only [beq_iff_eq]
  split
  · rfl
  · have ok2 : CellOK h2 s1 := ok1.step T2 (fun _ _ => rfl)
    obtain ⟨-, G3, T3⟩ := ensure_spec hc ok2
    rcases he : ensure s1 h2 with ⟨h3, e, w3⟩
    simp only [he] at T3 G3 ⊢
    rw [clone_some hc]
    simp only [cellOf_mk]
    have m1 := I.tr.mono
    have m2 := T2.mono
    have m3 := T3.mono
    have g : (h3.alloc (h3.get c)).1.get h3.cells.length = some (splitRunes s.runes) := by
      rw [Heap.get_alloc, I.runes] at *; simpa using G3
    refine ⟨?_, h3.cells.length, rfl, by omega, ?_, ?_⟩
    · rw [g, I.runes]; rfl
    · rw [Heap.size_set, Heap.size_alloc]; omega
    · rw [Heap.get_set, if_pos ⟨rfl, by rw [Heap.size_alloc]; omega⟩, g]; rfl

theorem sub_cellOK (hs : SliceOK) {s : GStr} (start end_ : Int) {h : Heap} (ok : CellOK h s) :
    (sub s start end_ h).2.1 = zero ∨
    ((∃ c, (sub s start end_ h).2.1.cell = some c ∧ h.cells.length ≤ c) ∧
      CellOK (sub s start end_ h).1 (sub s start end_ h).2.1) := by
  have S := sub_spec start end_ ok
  simp only at S
  split at S
  · exact .inl S
  · rename_i hne
    obtain ⟨S1, c, S2, S3, S4, S5⟩ := S
    refine .inr ⟨⟨c, S2, S3⟩, ?_⟩
    rw [cellOK_some S2]
    refine ⟨S4, .inr ?_⟩
    rw [S5, S1]
    have B := rangeToIndexes_bounds (splitRunes s.runes).length start end_ (by omega)
    exact congrArg some (hs s.runes _ _ B.1 (by omega) B.2.2).symm

/-! ### `reverse`, `indexFunc`, `lastIndexFunc` (outside `Inv`, inside the footprint) -/

theorem reverse_spec (s : GStr) (h : Heap) :
    Tr h.cells.length s.cell s.runes h (reverse s h).1 (reverse s h).2.2 ∧
    ∃ c, (reverse s h).2.1.cell = some c ∧ h.cells.length ≤ c ∧ c < (reverse s h).1.cells.length := by
  unfold reverse
  have I := initSpec s h
  rcases hi : initialized s h with ⟨h1, s1, w1⟩
  simp only [hi] at I ⊢
  obtain ⟨c, hc, -⟩ := I.cell
  have T2 := tr_ensure' (h := h1) hc
  rcases he : ensure s1 h1 with ⟨h2, e, w2⟩
  simp only [he] at T2 ⊢
  rw [clone_some hc]
  simp only [cellOf_mk]
  have m1 := I.tr.mono
  have m2 := T2.mono
  have t3 : Tr h1.cells.length none [] h2 (h2.alloc (h2.get c)).1 [.alloc h2.cells.length] :=
    (Tr.alloc _ h2 _ (Nat.le_refl _)).anti m2
  have t4 := Tr.set_fresh h1.cells.length (h2.alloc (h2.get c)).1 h2.cells.length
  refine ⟨?_, h2.cells.length, rfl, by omega, ?_⟩
  · simpa only [List.append_assoc] using
      I.glue ((T2.comp_none t3).comp_none (t4 _ m2 .fill (.inl rfl)))
  · rw [Heap.size_set, Heap.size_alloc]; omega

theorem tr_indexFunc (f : List Int → Bool) (s : GStr) (h : Heap) :
    Tr h.cells.length s.cell s.runes h (indexFunc f s h).1 (indexFunc f s h).2.2 := by
  unfold indexFunc
  have I := initSpec s h
  rcases hi : initialized s h with ⟨h1, s1, w1⟩
  simp only [hi] at I ⊢
  obtain ⟨c, hc, -⟩ := I.cell
  have T2 := tr_len s1 h1
  rcases hl : len s1 h1 with ⟨h2, n, w2⟩
  simp only [hl] at T2 ⊢
  split
  · simpa only [List.append_assoc] using I.glue T2
  · have T3 := tr_ensure' (h := h2) hc
    rcases he : ensure s1 h2 with ⟨h3, e, w3⟩
    simp only [he] at T3 ⊢
    simpa only [List.append_assoc] using I.glue (T2.comp_same (T3.anti T2.mono))

theorem tr_lastIndexFunc (f : List Int → Bool) (s : GStr) (h : Heap) :
    Tr h.cells.length s.cell s.runes h (lastIndexFunc f s h).1 (lastIndexFunc f s h).2.2 := by
  unfold lastIndexFunc
  obtain ⟨T1, c, F1, F2, -⟩ := reverse_spec s h
  rcases hr : reverse s h with ⟨h1, rev, w1⟩
  simp only [hr] at T1 F1 F2 ⊢
  have T2 := tr_indexFunc f rev h1
  rcases hx : indexFunc f rev h1 with ⟨h2, ri, w2⟩
  simp only [hx] at T2 ⊢
  have t12 : Tr h.cells.length s.cell s.runes h h2 (w1 ++ w2) :=
    T1.comp (T2.anti T1.mono) (.inr (by intro c' e; rw [F1] at e; cases e; exact F2))
  split
  · exact t12
  · have T3 := tr_len s h2
    rcases hl : len s h2 with ⟨h3, n, w3⟩
    simp only [hl] at T3 ⊢
    exact t12.comp_same (T3.anti t12.mono)

/-! ## 1. The invariant -/

/-- Pool invariant.
* `ok`: no pool member has a stale cache;
* `noshare`: a cell is shared only between values with the same content;
* `zero_ok`, `zero_only`: the package-level `zero` value behaves as an (implicit) pool member:
  its cell 0 exists, is unfilled or holds `splitRunes []`, and only empty values point to it;
* `zero_filled`: if cell 0 starts filled, it stays filled. -/
structure Inv (h : Heap) (pool : List GStr) : Prop where
  ok : ∀ v ∈ pool, CellOK h v
  noshare : ∀ v ∈ pool, ∀ w ∈ pool, v.cell = w.cell → v.cell ≠ none → v.runes = w.runes
  zero_ok : CellOK h zero
  zero_only : ∀ v ∈ pool, v.cell = some 0 → v.runes = []
  zero_filled : Gen.zeroCachePrefilled = true → h.get 0 = some []

theorem inv_init : Inv Heap.init [] := by
  refine ⟨by simp, by simp, ?_, by simp, ?_⟩
  · rw [cellOK_some (c := 0) rfl]
    cases hz : Gen.zeroCachePrefilled <;> simp [Heap.init, Heap.get, hz, splitRunes_nil, zero]
  · intro hz; simp [Heap.init, Heap.get, hz]

theorem Inv.size_pos {h pool} (i : Inv h pool) : 0 < h.cells.length :=
  ((cellOK_some (v := zero) rfl).1 i.zero_ok).1

theorem Inv.get_zero {h pool} (i : Inv h pool) : h.get 0 = none ∨ h.get 0 = some [] := by
  have := ((cellOK_some (v := zero) rfl).1 i.zero_ok).2
  simpa [zero, splitRunes_nil] using this

/-- `zero` is an implicit pool member -/
theorem Inv.ok' {h pool} (i : Inv h pool) {v} (hv : v ∈ zero :: pool) : CellOK h v := by
  rcases List.mem_cons.1 hv with rfl | hv
  · exact i.zero_ok
  · exact i.ok v hv

theorem Inv.noshare' {h pool} (i : Inv h pool) {v w} (hv : v ∈ zero :: pool) (hw : w ∈ zero :: pool)
    (e : v.cell = w.cell) (hn : v.cell ≠ none) : v.runes = w.runes := by
  rcases List.mem_cons.1 hv with rfl | hv <;> rcases List.mem_cons.1 hw with rfl | hw
  · rfl
  · exact (i.zero_only w hw e.symm).symm
  · exact i.zero_only v hv e
  · exact i.noshare v hv w hw e hn

theorem Inv.mono {h pool pool'} (i : Inv h pool) (hs : ∀ v ∈ pool', v ∈ zero :: pool) :
    Inv h pool' :=
  ⟨fun v hv => i.ok' (hs v hv), fun v hv w hw => i.noshare' (hs v hv) (hs w hw), i.zero_ok,
    fun v hv e => i.noshare' (hs v hv) (List.mem_cons_self) e (by simp [e]), i.zero_filled⟩

/-- a transition whose receiver is `zero` or a pool member (or touches no old cell) preserves `Inv` -/
theorem Inv.step {h h' pool rc rr ws} (i : Inv h pool) (t : Tr h.cells.length rc rr h h' ws)
    (hr : rc = none ∨ ∃ v ∈ zero :: pool, v.cell = rc ∧ v.runes = rr) : Inv h' pool := by
  have key : ∀ w ∈ zero :: pool, rc = w.cell → rc ≠ none → rr = w.runes := by
    intro w hw e hn
    rcases hr with hr | ⟨v, hv, e1, e2⟩
    · exact absurd hr hn
    · rw [← e2]; exact i.noshare' hv hw (by rw [e1, e]) (by rw [e1]; exact hn)
  refine ⟨fun v hv => (i.ok v hv).step t (key v (List.mem_cons_of_mem _ hv)), i.noshare,
    i.zero_ok.step t (key zero List.mem_cons_self), i.zero_only, fun hz => ?_⟩
  exact t.frame 0 _ (i.zero_filled hz)

/-- appending a value that lives in a cell allocated after `h` -/
theorem Inv.push {h h' pool r} (i : Inv h pool) (i' : Inv h' pool)
    (hf : ∃ c, r.cell = some c ∧ h.cells.length ≤ c) (ok : CellOK h' r) : Inv h' (r :: pool) := by
  obtain ⟨c, hc, hle⟩ := hf
  have sp := i.size_pos
  have sep : ∀ w ∈ pool, r.cell ≠ w.cell := by
    intro w hw e
    have := i.ok w hw
    rw [cellOK_some (by rw [← e, hc])] at this
    omega
  refine ⟨?_, ?_, i'.zero_ok, ?_, i'.zero_filled⟩
  · intro v hv
    rcases List.mem_cons.1 hv with rfl | hv
    · exact ok
    · exact i'.ok v hv
  · intro v hv w hw e hn
    rcases List.mem_cons.1 hv with e1 | hv1 <;> rcases List.mem_cons.1 hw with e2 | hw1
    · rw [e1, e2]
    · exact absurd (e1 ▸ e) (sep w hw1)
    · exact absurd (e2 ▸ e.symm) (sep v hv1)
    · exact i'.noshare v hv1 w hw1 e hn
  · intro v hv e
    rcases List.mem_cons.1 hv with rfl | hv
    · rw [hc] at e; cases e; omega
    · exact i'.zero_only v hv e

theorem Inv.push_zero {h pool} (i : Inv h pool) : Inv h (zero :: pool) :=
  i.mono (fun v hv => by
    rcases List.mem_cons.1 hv with rfl | hv
    · exact List.mem_cons_self
    · exact List.mem_cons_of_mem _ hv)

theorem FreshNone.cellOK {h h' r} (f : FreshNone h h' r) : CellOK h' r := by
  obtain ⟨c, hc, _, h2, h3⟩ := f
  rw [cellOK_some hc]; exact ⟨h2, .inl h3⟩

theorem FreshNone.fresh {h h' r} (f : FreshNone h h' r) : ∃ c, r.cell = some c ∧ h.cells.length ≤ c := by
  obtain ⟨c, hc, h1, _⟩ := f
  exact ⟨c, hc, h1⟩

/-- receiver condition of `Inv.step` for an implicit-or-explicit pool member -/
theorem recv_ok {pool : List GStr} {v : GStr} (hv : v ∈ zero :: pool) :
    v.cell = none ∨ ∃ w ∈ zero :: pool, w.cell = v.cell ∧ w.runes = v.runes :=
  .inr ⟨v, hv, rfl, rfl⟩

/-! ### one preservation theorem per operation (receivers: pool members or `zero`) -/

theorem inv_new (h : Heap) (pool : List GStr) (rs : List Int) (hi : Inv h pool) :
    Inv (new rs h).1 ((new rs h).2.1 :: pool) := by
  have i' := hi.step (tr_new rs h) (.inl rfl)
  refine hi.push i' ⟨h.cells.length, rfl, Nat.le_refl _⟩ ?_
  rw [new_eq, cellOK_some rfl]
  simp [Heap.size_alloc, Heap.get_alloc]

theorem inv_len' (h : Heap) (pool : List GStr) (v : GStr) (hi : Inv h pool) (hv : v ∈ zero :: pool) :
    Inv (len v h).1 pool := hi.step (tr_len v h) (recv_ok hv)

theorem inv_charAt' (h : Heap) (pool : List GStr) (v : GStr) (i : Int) (hi : Inv h pool)
    (hv : v ∈ zero :: pool) : Inv (charAt v i h).1 pool := hi.step (tr_charAt v i h) (recv_ok hv)

theorem inv_graphemeIndexes' (h : Heap) (pool : List GStr) (v : GStr) (hi : Inv h pool)
    (hv : v ∈ zero :: pool) : Inv (graphemeIndexes v h).1 pool :=
  hi.step (tr_graphemeIndexes v h) (recv_ok hv)

/-- `runes` never looks at the cache: no membership hypothesis needed -/
theorem inv_runes (h : Heap) (pool : List GStr) (v : GStr) (hi : Inv h pool) :
    Inv (runes v h).1 pool := hi.step (tr_runes v h) (.inl rfl)

/-- `add` never fills an old cell: no membership hypothesis needed -/
theorem inv_add (h : Heap) (pool : List GStr) (v w : GStr) (hi : Inv h pool) :
    Inv (add v w h).1 ((add v w h).2.1 :: pool) :=
  hi.push (hi.step (add_spec v w h).1 (.inl rfl)) (add_fresh v w h).fresh (add_fresh v w h).cellOK

theorem inv_setCharAt (h : Heap) (pool : List GStr) (v : GStr) (i : Int) (r : List Int)
    (hi : Inv h pool) :
    match (setCharAt v i r h).2.1 with
    | .ok res => Inv (setCharAt v i r h).1 (res :: pool)
    | .error _ => Inv (setCharAt v i r h).1 pool := by
  obtain ⟨T, F, -⟩ := setCharAt_spec v i r h
  have i' := hi.step T (.inl rfl)
  split
  · rename_i res hres
    exact hi.push i' (F res hres).fresh (F res hres).cellOK
  · exact i'

theorem inv_repeat (h : Heap) (pool : List GStr) (v : GStr) (count : Int) (hi : Inv h pool) :
    Inv («repeat» v count h).1 ((«repeat» v count h).2.1 :: pool) := by
  unfold «repeat»
  obtain ⟨T, -, F⟩ := repeatN_spec v count.toNat zero h
  have i' := hi.step T (.inl rfl)
  rcases F with ⟨_, e, _⟩ | F
  · rw [e]; exact i'.push_zero
  · exact hi.push i' F.fresh F.cellOK

theorem inv_sub' (hs : SliceOK) (h : Heap) (pool : List GStr) (v : GStr) (st en : Int)
    (hi : Inv h pool) (hv : v ∈ zero :: pool) :
    Inv (sub v st en h).1 ((sub v st en h).2.1 :: pool) := by
  have i' := hi.step (tr_sub v st en h) (recv_ok hv)
  rcases sub_cellOK hs st en (hi.ok' hv) with e | ⟨F, ok⟩
  · rw [e]; exact i'.push_zero
  · exact hi.push i' F ok

theorem inv_len (h : Heap) (pool : List GStr) (v : GStr) (hi : Inv h pool) (hv : v ∈ pool) :
    Inv (len v h).1 pool := inv_len' h pool v hi (List.mem_cons_of_mem _ hv)

theorem inv_charAt (h : Heap) (pool : List GStr) (v : GStr) (i : Int) (hi : Inv h pool)
    (hv : v ∈ pool) : Inv (charAt v i h).1 pool :=
  inv_charAt' h pool v i hi (List.mem_cons_of_mem _ hv)

theorem inv_graphemeIndexes (h : Heap) (pool : List GStr) (v : GStr) (hi : Inv h pool)
    (hv : v ∈ pool) : Inv (graphemeIndexes v h).1 pool :=
  inv_graphemeIndexes' h pool v hi (List.mem_cons_of_mem _ hv)

theorem inv_sub (hs : SliceOK) (h : Heap) (pool : List GStr) (v : GStr) (st en : Int)
    (hi : Inv h pool) (hv : v ∈ pool) :
    Inv (sub v st en h).1 ((sub v st en h).2.1 :: pool) :=
  inv_sub' hs h pool v st en hi (List.mem_cons_of_mem _ hv)

/-! ## 2. Pure-value consequences (C19)

`cx` is any layer-A context whose segmentation is the real one (`cxA` in `Model/InstA.lean`). -/

section pure
variable (cx : Ctx Int) (hcx : cx.ends = splitRunes)
include hcx

theorem len_pure {h pool v} (hi : Inv h pool) (hv : v ∈ zero :: pool) :
    (len v h).2.1 = gLen cx v.runes := by
  rw [len_val (hi.ok' hv), gLen, hcx]

theorem graphemeIndexes_pure {h pool v} (hi : Inv h pool) (hv : v ∈ zero :: pool) :
    (graphemeIndexes v h).2.1 = cx.ends v.runes := by
  rw [graphemeIndexes_val (hi.ok' hv), hcx]

theorem charAt_pure {h pool v} (i : Int) (hi : Inv h pool) (hv : v ∈ zero :: pool) :
    (charAt v i h).2.1 = gCharAt cx v.runes i := by
  rw [charAt_val i (hi.ok' hv), gCharAt, hcx]

theorem sub_pure {h pool v} (st en : Int) (hi : Inv h pool) (hv : v ∈ zero :: pool) :
    (sub v st en h).2.1.runes = gSub cx v.runes st en := by
  have S := sub_spec st en (hi.ok' hv)
  unfold gSub
  rw [hcx]
  simp only [beq_iff_eq] at S ⊢
  split at S
  · rename_i e; rw [if_pos e, S]; rfl
  · rename_i e; rw [if_neg e, S.1]; rfl

theorem setCharAt_pure {h pool v} (i : Int) (r : List Int) (hi : Inv h pool) (hv : v ∈ zero :: pool) :
    (setCharAt v i r h).2.1.map GStr.runes = gSetCharAt cx v.runes i r := by
  rw [(setCharAt_spec v i r h).2.2 (hi.ok' hv), gSetCharAt, hcx]

end pure

theorem len_pure' {h pool v} (hi : Inv h pool) (hv : v ∈ zero :: pool) :
    (len v h).2.1 = (splitRunes v.runes).length := len_val (hi.ok' hv)

theorem graphemeIndexes_pure' {h pool v} (hi : Inv h pool) (hv : v ∈ zero :: pool) :
    (graphemeIndexes v h).2.1 = splitRunes v.runes := graphemeIndexes_val (hi.ok' hv)

theorem charAt_pure' {h pool v} (i : Int) (hi : Inv h pool) (hv : v ∈ zero :: pool) :
    (charAt v i h).2.1 =
      (let e := splitRunes v.runes
       if i < 0 ∨ i ≥ e.length then throw .index
       else let (a, b) := clusterSpan e i.toNat; pure (sliceRunes v.runes a b)) :=
  charAt_val i (hi.ok' hv)

theorem runes_pure (v : GStr) (h : Heap) : (runes v h).2.1 = v.runes := runes_val v h

theorem new_pure (rs : List Int) (h : Heap) : (new rs h).2.1.runes = rs := rfl

theorem add_pure (v w : GStr) (h : Heap) : (add v w h).2.1.runes = v.runes ++ w.runes :=
  (add_spec v w h).2.1

theorem repeat_pure (v : GStr) (count : Int) (h : Heap) :
    («repeat» v count h).2.1.runes = gRepeat v.runes count := by
  unfold «repeat» gRepeat
  rw [(repeatN_spec v count.toNat zero h).2.1]; rfl

/-- operands are not altered: the old pool is still valid after the result has been appended -/
theorem Inv.tail {h pool r} (i : Inv h (r :: pool)) : Inv h pool :=
  i.mono (fun _ hv => List.mem_cons_of_mem _ (List.mem_cons_of_mem _ hv))

/-! ## 3. Footprint (C20) and frame, uniformly for every exported operation -/

/-- one call of an exported operation -/
inductive Call
  | new (rs : List Int)
  | len (s : GStr)
  | charAt (s : GStr) (i : Int)
  | graphemeIndexes (s : GStr)
  | runes (s : GStr)
  | add (s t : GStr)
  | sub (s : GStr) (st en : Int)
  | setCharAt (s : GStr) (i : Int) (r : List Int)
  | reverse (s : GStr)
  | «repeat» (s : GStr) (count : Int)
  | indexFunc (f : List Int → Bool) (s : GStr)
  | lastIndexFunc (f : List Int → Bool) (s : GStr)

/-- heap after the call and the write events it reports -/
def Call.run : Call → Heap → Heap × List Wr
  | .new rs, h => ((H.new rs h).1, (H.new rs h).2.2)
  | .len s, h => ((H.len s h).1, (H.len s h).2.2)
  | .charAt s i, h => ((H.charAt s i h).1, (H.charAt s i h).2.2)
  | .graphemeIndexes s, h => ((H.graphemeIndexes s h).1, (H.graphemeIndexes s h).2.2)
  | .runes s, h => ((H.runes s h).1, (H.runes s h).2.2)
  | .add s t, h => ((H.add s t h).1, (H.add s t h).2.2)
  | .sub s st en, h => ((H.sub s st en h).1, (H.sub s st en h).2.2)
  | .setCharAt s i r, h => ((H.setCharAt s i r h).1, (H.setCharAt s i r h).2.2)
  | .reverse s, h => ((H.reverse s h).1, (H.reverse s h).2.2)
  | .repeat s n, h => ((H.repeat s n h).1, (H.repeat s n h).2.2)
  | .indexFunc f s, h => ((H.indexFunc f s h).1, (H.indexFunc f s h).2.2)
  | .lastIndexFunc f s, h => ((H.lastIndexFunc f s h).1, (H.lastIndexFunc f s h).2.2)

/-- the receiver whose own cell the call may fill (`none`: the call fills no pre-existing cell) -/
def Call.recv : Call → Option GStr
  | .new _ => none
  | .len s => some s
  | .charAt s _ => some s
  | .graphemeIndexes s => some s
  | .runes _ => none
  | .add _ _ => none
  | .sub s _ _ => some s
  | .setCharAt _ _ _ => none
  | .reverse s => some s
  | .repeat _ _ => none
  | .indexFunc _ s => some s
  | .lastIndexFunc _ s => some s

theorem Call.tr (k : Call) (h : Heap) :
    Tr h.cells.length (k.recv.bind (·.cell)) ((k.recv.map (·.runes)).getD []) h (k.run h).1 (k.run h).2 := by
  cases k with
  | new rs => exact tr_new rs h
  | len s => exact tr_len s h
  | charAt s i => exact tr_charAt s i h
  | graphemeIndexes s => exact tr_graphemeIndexes s h
  | runes s => exact tr_runes s h
  | add s t => exact (add_spec s t h).1
  | sub s st en => exact tr_sub s st en h
  | setCharAt s i r => exact (setCharAt_spec s i r h).1
  | reverse s => exact (reverse_spec s h).1
  | «repeat» s n => exact (repeatN_spec s n.toNat zero h).1
  | indexFunc f s => exact tr_indexFunc f s h
  | lastIndexFunc f s => exact tr_lastIndexFunc f s h

/-- C20 footprint of a single write event: a fresh allocation, a fill/clear of a cell allocated by
this call, or the first fill of the receiver's own cell. -/
def Footprint (h : Heap) (recv : Option GStr) : Wr → Prop
  | .alloc c => h.cells.length ≤ c
  | .clear c => h.cells.length ≤ c
  | .fill c => h.cells.length ≤ c ∨ (∃ s, recv = some s ∧ s.cell = some c ∧ c = cellOf s ∧ h.get c = none)

theorem footprint (k : Call) (h : Heap) : ∀ w ∈ (k.run h).2, Footprint h k.recv w := by
  intro w hw
  have := (k.tr h).foot w hw
  cases w with
  | alloc c => exact this
  | clear c => exact this
  | fill c =>
    rcases this with l | ⟨e1, e2⟩
    · exact .inl l
    · refine .inr ?_
      cases hr : k.recv with
      | none => rw [hr] at e1; cases e1
      | some s =>
        rw [hr] at e1
        exact ⟨s, rfl, e1, (cellOf_some e1).symm, e2⟩

/-- the write events really describe the heap change: a cell index not mentioned by any event is
untouched (in particular it is not allocated by the call) -/
theorem writes_complete (k : Call) (h : Heap) (c : Nat) (hm : ¬ Mentions (k.run h).2 c) :
    (k.run h).1.cells[c]? = h.cells[c]? := (k.tr h).agree c hm

/-- frame: a filled cell never changes -/
theorem frame (k : Call) (h : Heap) (c : Nat) (x : List Nat) (hx : h.get c = some x) :
    (k.run h).1.get c = some x := (k.tr h).frame c x hx

/-- existing cells are never cleared and the heap only grows -/
theorem heap_grows (k : Call) (h : Heap) : h.cells.length ≤ (k.run h).1.cells.length := (k.tr h).mono

/-- a filled cell is not mentioned by any write event -/
theorem filled_not_written (k : Call) (h : Heap) (c : Nat) (x : List Nat) (hx : h.get c = some x) :
    ¬ Mentions (k.run h).2 c := by
  have hc : c < h.cells.length := by
    apply Classical.byContradiction; intro hn
    rw [Heap.get_of_le h c (by omega)] at hx; cases hx
  rintro (hm | hm | hm)
  · have := (k.tr h).foot _ hm; simp only [WrOK] at this; omega
  · rcases (k.tr h).foot _ hm with l | ⟨_, e⟩
    · omega
    · rw [hx] at e; cases e
  · have := (k.tr h).foot _ hm; simp only [WrOK] at this; omega

/-- the package-level cell is never written (whenever it is filled, which `Inv.zero_filled`
guarantees for ever if `Gen.zeroCachePrefilled`) -/
theorem zero_never_written (k : Call) (h : Heap) (h0 : h.get 0 = some []) :
    (k.run h).1.get 0 = some [] ∧ ¬ Mentions (k.run h).2 0 :=
  ⟨frame k h 0 [] h0, filled_not_written k h 0 [] h0⟩

theorem zero_never_written_inv (hz : Gen.zeroCachePrefilled = true) (k : Call) {h : Heap} {pool}
    (hi : Inv h pool) : (k.run h).1.get 0 = some [] ∧ ¬ Mentions (k.run h).2 0 :=
  zero_never_written k h (hi.zero_filled hz)

/-- no operand is altered by ANY call (including `reverse`/`indexFunc`/`lastIndexFunc`, whose
results are outside the invariant): the old pool stays valid -/
theorem inv_call (k : Call) {h : Heap} {pool : List GStr} (hi : Inv h pool)
    (hr : ∀ s, k.recv = some s → s ∈ zero :: pool) : Inv (k.run h).1 pool := by
  refine hi.step (k.tr h) ?_
  cases hk : k.recv with
  | none => exact .inl rfl
  | some s => exact .inr ⟨s, hr s hk, rfl, rfl⟩

/-! sanity: the uniform statements specialise definitionally to the individual operations, and the
projection form of the `inv_*` theorems is the `let (h', r, _) := …` form -/

example (hs : SliceOK) (h pool v st en) (hi : Inv h pool) (hv : v ∈ pool) :
    (let (h', r, _) := sub v st en h; Inv h' (r :: pool)) := inv_sub hs h pool v st en hi hv

example (s t : GStr) (h : Heap) (c x) (hx : h.get c = some x) : (add s t h).1.get c = some x :=
  frame (.add s t) h c x hx

example (s : GStr) (st en : Int) (h : Heap) : ∀ w ∈ (sub s st en h).2.2, Footprint h (some s) w :=
  footprint (.sub s st en) h

example (f) (s : GStr) (h : Heap) (h0 : h.get 0 = some []) :
    (lastIndexFunc f s h).1.get 0 = some [] ∧ ¬ Mentions (lastIndexFunc f s h).2.2 0 :=
  zero_never_written (.lastIndexFunc f s) h h0

end RosedVerif.H
