/-
Shape of the regenerated pointer-write sites (`Gen.heapWrites`, harness/facts.go: every assignment of the library that
goes through a pointer or into an element of a parameter / receiver / package-level slice, as
(package, function, kind, target as written)).  Used by `Props/C20.lean`: instead of enumerating the sites (which makes
every harmless refactoring that moves a site into a helper an alarm), the property theorem states what matters about
each of them:

* a site in package `gem` stores into a String's cache cell — its target is `*x.gc` or `(*x.gc)[…]` — and lies in a
  function whose pointer-level behaviour (heap, result, write events) is the subject of the regenerated tie
  (`Gen.GemCode.tiedFunctions`: translated by harness/goheap.go and proved equal to layer H in `Model/GenEq/Gem*`,
  or a helper inlined into such functions);
* a site in package `tb` stores into a Block's line list — `x.Lines` or `x.Lines[…]` in a method of `Block`;
* there is no site anywhere else.
Plain structural recursion over `List Char`, so that `decide` evaluates it in the kernel.
-/
import RosedVerif.Gen.Facts
import RosedVerif.Gen.GemCode
namespace RosedVerif.H

/-- a Go identifier -/
def isIdent (cs : List Char) : Bool := !cs.isEmpty && cs.all (fun c => c.isAlphanum || c == '_')

/-- `cs = x ++ suffix` for an identifier `x` -/
def identThen (suffix : List Char) (cs : List Char) : Bool :=
  suffix.isSuffixOf cs && isIdent (cs.take (cs.length - suffix.length))

/-- `[…]` with something between the brackets -/
def isIndex (cs : List Char) : Bool :=
  match cs with
  | '[' :: rest => rest.length ≥ 2 && rest.getLast? == some ']'
  | _ => false

/-- `*x.gc`, or `(*x.gc)[…]` -/
def gcCellTarget (s : String) : Bool :=
  match s.toList with
  | '*' :: rest => identThen ".gc".toList rest
  | '(' :: '*' :: rest =>
    (List.range rest.length).any fun k => identThen ".gc".toList (rest.take k) && (rest.drop k).head? == some ')' &&
      isIndex ((rest.drop k).drop 1)
  | _ => false

/-- `x.Lines`, or `x.Lines[…]` -/
def linesTarget (s : String) : Bool :=
  let cs := s.toList
  identThen ".Lines".toList cs ||
    (List.range cs.length).any fun k => identThen ".Lines".toList (cs.take k) && isIndex (cs.drop k)

/-- what matters about one pointer-write site -/
def writeSiteOK (w : String × String × String × String) : Bool :=
  (w.1 == "gem" && w.2.2.1 == "ptr" && gcCellTarget w.2.2.2 && Gen.GemCode.tiedFunctions.contains w.2.1) ||
  (w.1 == "tb" && "Block.".toList.isPrefixOf w.2.1.toList && linesTarget w.2.2.2)

end RosedVerif.H
