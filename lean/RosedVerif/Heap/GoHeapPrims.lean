/-
The TRUSTED semantic mapping  Go construct ↦ layer-H primitive  used by the pointer-level Go → Lean
translator (harness/goheap.go, output: Gen/GemCode.lean) for package internal/gem (string.go, gem.go).
One definition per primitive, each a one-liner over `H.Heap.get / set / alloc`, the list primitives of
Model/GoPrims.lean and the model functions `rangeToIndexes`, `brk`, `classOf`.  Core only.

Conventions
* `gem.String` ↦ `H.GStr`; its pointer field `gc *[]int` ↦ the cell index (`Option Nat`, `none` = nil
  pointer); `*p` ↦ `load`; `*p = e` ↦ `store` (event `.fill c` when a non-nil slice is stored, `.clear c` when
  nil is stored); `new([]int)` ↦ `newCell`, `&local` ↦ `newCellOf` (event `.alloc c`); `Zero` ↦ `H.zero`.
* `[]rune`, `string` ↦ `List Int` (code points; nil and empty are not distinguished — the translator
  refuses every comparison of such a slice with nil except the idiom `if x == nil { x = []T{} }`, which is
  the identity on lists); `[]int` ↦ `Option (List Int)` (`none` = nil: the cache type, whose nil-ness the
  code tests); `int`, `rune` ↦ unbounded `Int`.
* a Go panic ↦ `Except.error` INSIDE the heap monad `HM`: the heap and the events written so far survive.
* loops ↦ fuel-bounded combinators (`Err.fuel` when the fuel runs out).

Documented limits (what this layer does NOT model)
* SLICES ARE VALUES: every `make`, `append`, slice expression yields a fresh immutable list; there is no
  backing array, no capacity, no aliasing between slices.  An element write through a cell,
  `(*p)[i] = v` or `copy(*p, src)`, replaces the list held by the cell (`update`) and records NO event (the
  events of layer H are writes of the cell itself, i.e. of the slice header `*p`); the change is visible
  in the heap component that the equality theorems compare.
* A cell stores `List Nat`; storing a negative `int` is outside the model and yields `Err.fuel` (layer H
  never returns `Err.fuel`, so an equality theorem with it shows that no such store happens).
* DEAD ALLOCATIONS: the translator does not materialise a `new(T)` whose pointer is stored in a local
  (or a field of a local) and overwritten by a plain assignment before any use of it; all other
  allocations are materialised at the next effect, join or return (allocation commutes with pure code and
  reads).  So cells that were never reachable ("garbage from birth", also after a panic between the
  `new` and the first use) do not exist in the model.  `String.clone` needs this: it allocates
  `new([]int)` and, when the cache is filled, immediately replaces it by `&newCloneGC`.
* `int` is unbounded; callbacks `func([]rune) bool` are pure functions.
-/
import RosedVerif.Heap.Model
import RosedVerif.Model.GoPrims
namespace RosedVerif.HGo
open RosedVerif RosedVerif.H

/-- heap monad of the generated code: heap × (result or panic) × write events -/
def HM (α : Type) : Type := Heap → Heap × R α × List Wr

/-- `return a` -/
def hpure {α : Type} (a : α) : HM α := fun h => (h, .ok a, [])

/-- sequencing: a panic stops the computation, heap and events so far are kept -/
def hbind {α β : Type} (m : HM α) (f : α → HM β) : HM β := fun h =>
  match m h with
  | (h1, .ok a, w1) => ((f a h1).1, (f a h1).2.1, w1 ++ (f a h1).2.2)
  | (h1, .error e, w1) => (h1, .error e, w1)

instance : Monad HM where
  pure := hpure
  bind := hbind

/-- a pure computation that may panic (indexing, slicing, `make`) -/
def liftR {α : Type} (r : R α) : HM α := fun h => (h, r, [])
/-- `panic(..)` -/
def panic {α : Type} (e : Err) : HM α := liftR (.error e)

/-! ### cells -/
/-- a cell's content as a Go `[]int` -/
def ofCell (v : Option (List Nat)) : Option (List Int) := v.map (·.map Int.ofNat)
/-- a Go `[]int` as a cell's content (a negative element is outside the model) -/
def toCell : Option (List Int) → R (Option (List Nat))
  | none => pure none
  | some l => if l.all (0 ≤ ·) then pure (some (l.map Int.toNat)) else throw .fuel
/-- `new([]int)` -/
def newCell : HM (Option Nat) := fun h => ((h.alloc none).1, .ok (some (h.alloc none).2), [.alloc (h.alloc none).2])
/-- `&x` for a local `x []int` that is not used afterwards: a fresh cell holding `x` -/
def newCellOf (v : Option (List Int)) : HM (Option Nat) := fun h =>
  match toCell v with
  | .ok v' => ((h.alloc v').1, .ok (some (h.alloc v').2), [.alloc (h.alloc v').2])
  | .error e => (h, .error e, [])
/-- `*p` (read) -/
def load : Option Nat → HM (Option (List Int))
  | none => panic .explicit
  | some c => fun h => (h, .ok (ofCell (h.get c)), [])
/-- `*p = v` -/
def store : Option Nat → Option (List Int) → HM Unit
  | none, _ => panic .explicit
  | some c, v => fun h =>
    match toCell v with
    | .ok v' => (h.set c v', .ok (), [if v'.isSome then .fill c else .clear c])
    | .error e => (h, .error e, [])
/-- element writes through `p` (`(*p)[i] = x`, `copy(*p, src)`): the cell's list is replaced, no event -/
def update : Option Nat → Option (List Int) → HM Unit
  | none, _ => panic .explicit
  | some c, v => fun h =>
    match toCell v with
    | .ok v' => (h.set c v', .ok (), [])
    | .error e => (h, .error e, [])

/-! ### `[]int` (nil-tracked) -/
/-- the elements (`len`, `range`, `copy` treat nil as empty) -/
@[reducible] def olist {β : Type} (x : Option (List β)) : List β := x.getD []
/-- `len(x)` -/
@[reducible] def olen {β : Type} (x : Option (List β)) : Int := (olist x).length
/-- `x[i]` -/
@[reducible] def oidx {β : Type} (x : Option (List β)) (i : Int) : R β := Go.idx (olist x) i
/-- `x[i] = v` (never changes nil-ness: indexing nil panics) -/
def osliceSet {β : Type} (x : Option (List β)) (i : Int) (v : β) : R (Option (List β)) := some <$> Go.sliceSet (olist x) i v
/-- `make([]int, n)` -/
def omake (n : Int) : R (Option (List Int)) := some <$> Go.makeSlice n (0 : Int)
/-- `append(x, v)` with at least one element: never nil -/
@[reducible] def oappend {β : Type} (x : Option (List β)) (vs : List β) : Option (List β) := some (olist x ++ vs)
/-- `copy(x, src)`: the new value of `x` (nil stays nil) -/
def ocopy {β : Type} (x src : Option (List β)) : Option (List β) := x.map fun l => Go.copySlice l (olist src)
/-- `xs[a:b]` (`xs[:b]` is `xs[0:b]`, `xs[a:]` is `xs[a:len(xs)]`; bounds: the length, capacity not modelled) -/
def slice {β : Type} (xs : List β) (a b : Int) : R (List β) :=
  if 0 ≤ a ∧ a ≤ b ∧ b.toNat ≤ xs.length then pure ((xs.drop a.toNat).take (b.toNat - a.toNat)) else throw .slice
/-- `x[a:b]` on a nil-tracked slice: slicing nil gives nil, slicing non-nil never gives nil -/
def oslice {β : Type} (x : Option (List β)) (a b : Int) : R (Option (List β)) :=
  match x with
  | none => (fun _ => none) <$> slice ([] : List β) a b
  | some l => some <$> slice l a b

/-! ### callees that are not translated by goheap.go -/
/-- `util.RangeToIndexes(size, start, end)` (regenerated and proved separately: Gen/IntFns, C04) -/
@[reducible] def rangeToIndexes (size start end_ : Int) : Int × Int := RosedVerif.rangeToIndexes size start end_
/-- `shouldBreakAfter(r, chars, i)` for `r = chars[i]` (rule chain regenerated and proved separately:
Gen/Rules, C01): the runes before `i` in reverse order, the rune itself, the next rune if any -/
def shouldBreakAfter (r : Int) (chars : List Int) (i : Int) : Bool :=
  brk clsPreds ((chars.take i.toNat).map classOf).reverse (classOf r) ((chars.drop (i.toNat + 1)).head?.map classOf)

/-! ### loops -/
/-- `for cond { body }` over the tuple of variables the loop assigns -/
def whileM {σ : Type} (fuel : Nat) (cond : σ → HM Bool) (body : σ → HM σ) (s : σ) : HM σ :=
  match fuel with
  | 0 => panic .fuel
  | n + 1 => do if (← cond s) then whileM n cond body (← body s) else pure s

/-- `whileM` for a loop with `break`/`return`: the final state and the returned value, if any -/
def whileCtlM {σ ρ : Type} (fuel : Nat) (cond : σ → HM Bool) (body : σ → HM (σ × Go.Ctl ρ)) (s : σ) : HM (σ × Option ρ) :=
  match fuel with
  | 0 => panic .fuel
  | n + 1 => do
    if (← cond s) then do
      let r ← body s
      match r.2 with
      | .next => whileCtlM n cond body r.1
      | .brk => pure (r.1, none)
      | .ret v => pure (r.1, some v)
    else pure (s, none)

def forRangeAux {β σ : Type} (body : Int → β → σ → HM σ) : Int → List β → σ → HM σ
  | _, [], s => pure s
  | i, x :: xs, s => do forRangeAux body (i + 1) xs (← body i x s)

/-- `for i, x := range xs { body }` (the range expression is evaluated once; the translator refuses a body
that uses the VALUE variable while writing to the elements of `xs`) -/
def forRangeM {β σ : Type} (xs : List β) (body : Int → β → σ → HM σ) (s : σ) : HM σ := forRangeAux body 0 xs s

end RosedVerif.HGo
