/-
gem.String histories (layer H): evaluation on the heap model, canonical snapshots.
-/
import Driver.Proto
import RosedVerif.Heap.Model
namespace RosedVerif.Driver
open RosedVerif RosedVerif.H

def notSpaceHeadA (gc : List Int) : Bool :=
  match gc with
  | [] => false
  | c :: _ => !isSpaceRune c

def snapshot (h : Heap) (pool : Array GStr) : String :=
  -- canonical cell tags by first appearance
  let (tags, _) := pool.foldl (fun (acc : Array String × List (Nat × String)) v =>
    let (out, seen) := acc
    match v.cell with
    | none => (out.push "n", seen)
    | some 0 => (out.push "Z", seen)
    | some c =>
      match seen.find? (·.1 == c) with
      | some (_, t) => (out.push t, seen)
      | none => let t := s!"c{seen.length}"; (out.push t, (c, t) :: seen)) (#[], [])
  let vals := (pool.toList.zip tags.toList).map fun (v, t) =>
    let (filled, ends) := match v.cell with
      | none => ("0", "-")
      | some c => match h.get c with
        | none => ("0", "-")
        | some e => ("1", showInts e)
    s!"{showText v.runes}^{t}^{filled}^{ends}"
  let zf := match h.get 0 with | some _ => "1" | none => "0"
  "+".intercalate vals ++ "!" ++ zf

def parseRunesH (t : String) : Option (List Int) :=
  if t == "-" then some []
  else (t.splitOn ".").mapM fun h =>
    if h.startsWith "-" then (hexToNat? (h.drop 1).toString).map (fun n => -(Int.ofNat n))
    else (hexToNat? h).map Int.ofNat

/-- one history step: (heap, pool) → (heap, pool, observation) -/
def histStep (h : Heap) (pool : Array GStr) (step : String) : Heap × Array GStr × String :=
  let a := step.splitOn ","
  let get (s : String) : Option GStr := do pool[(← s.toNat?)]?
  let fail := (h, pool.push ⟨[], none⟩, "X~parse")
  match a with
  | ["new", t] => match parseRunesH t with
    | some rs => let (h', v, _) := new rs h; (h', pool.push v, "V")
    | none => fail
  | ["zero"] => (h, pool.push zero, "V")
  | ["zv"] => (h, pool.push ⟨[], none⟩, "V")
  | ["add", i, j] => match get i, get j with
    | some x, some y => let (h', v, _) := add x y h; (h', pool.push v, "V")
    | _, _ => fail
  | ["sub", i, s, e] => match get i, s.toInt?, e.toInt? with
    | some x, some s, some e => let (h', v, _) := sub x s e h; (h', pool.push v, "V")
    | _, _, _ => fail
  | ["setcharat", i, k, t] => match get i, k.toInt?, parseRunesH t with
    | some x, some k, some rs =>
      let (h', r, _) := setCharAt x k rs h
      (match r with
       | .ok v => (h', pool.push v, "V")
       | .error _ => (h', pool.push x, "X~panic"))
    | _, _, _ => fail
  | ["repeat", i, n] => match get i, n.toInt? with
    | some x, some n => let (h', v, _) := H.repeat x n h; (h', pool.push v, "V")
    | _, _ => fail
  | ["reverse", i] => match get i with
    | some x => let (h', v, _) := reverse x h; (h', pool.push v, "V")
    | none => fail
  | ["len", i] => match get i with
    | some x => let (h', n, _) := len x h; (h', pool.push x, s!"I~{n}")
    | none => fail
  | ["charat", i, k] => match get i, k.toInt? with
    | some x, some k =>
      let (h', r, _) := charAt x k h
      (match r with
       | .ok c => (h', pool.push x, s!"R~{showText c}")
       | .error _ => (h', pool.push x, "X~panic"))
    | _, _ => fail
  | ["gi", i] => match get i with
    | some x => let (h', e, _) := graphemeIndexes x h; (h', pool.push x, s!"L~{showInts e}")
    | none => fail
  | ["runes", i] => match get i with
    | some x => let (h', r, _) := runes x h; (h', pool.push x, s!"R~{showText r}")
    | none => fail
  | ["indexfunc", i] => match get i with
    | some x => let (h', n, _) := indexFunc notSpaceHeadA x h; (h', pool.push x, s!"I~{n}")
    | none => fail
  | ["lastindexfunc", i] => match get i with
    | some x => let (h', n, _) := lastIndexFunc notSpaceHeadA x h; (h', pool.push x, s!"I~{n}")
    | none => fail
  | _ => fail

def evalHist (steps : String) : String :=
  let (_, _, outs) := (steps.splitOn ";").foldl (fun (acc : Heap × Array GStr × Array String) st =>
    let (h, pool, outs) := acc
    let (h', pool', obs) := histStep h pool st
    (h', pool', outs.push (obs ++ "#" ++ snapshot h' pool'))) (Heap.init, #[], #[])
  ";".intercalate outs.toList

end RosedVerif.Driver
