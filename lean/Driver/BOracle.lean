/-
Layer-B oracles: the SAME model functions instantiated with "one token per
cluster, trivial segmentation" (cxB) give the cluster-level expectation for the
composite layouts (C14 two columns, C15 definitions table, C16 table) on stable
vocabularies; plus clause-level checks that need no stability.
-/
import Driver.LayoutOracle
import RosedVerif.Spec.Composite
namespace RosedVerif.Driver
open RosedVerif

def tokOpts (o : Options Int) : Options Tok :=
  { indentStr := toks o.indentStr, lineSep := toks o.lineSep, paraSep := toks o.paraSep,
    charset := toks o.charset, noTrailing := o.noTrailing, preservePara := o.preservePara,
    justifyLast := o.justifyLast, borders := o.borders, headers := o.headers }

def flat (l : List Tok) : List Int := l.flatten

/-- all output lines have the same number of clusters -/
def rectangular (ls : List (List Int)) : Option Nat :=
  match ls with
  | [] => some 0
  | l :: rest => let n := (toks l).length; if rest.all (fun x => (toks x).length == n) then some n else none

/-- the raw (not defaulted) options of the call, tokenised -/
def rawOpts (src : Options Int) (o : String) : Option (Options Tok) :=
  (if o == "=" then some src else parseOpts o).map tokOpts

/-- Block.Join of the spec lines, inserted at the normalised cluster position -/
def insertBlock (text : List Int) (p : Int) (lines : List (List Int)) (sep : List Int) (trailing : Bool) : List Int :=
  let block := if lines.isEmpty then (if trailing then sep else []) else joinWith sep lines ++ (if trailing then sep else [])
  Spec.insert cxA text p block

def specTwoCol (text : List Int) (p : Int) (l r : List Int) (gap w : Int) (pct : Pct) (od : Options Int) : List Int :=
  if l.isEmpty ∧ r.isEmpty then text
  else
    -- a negative minimum distance means "no minimum" (documented after repair D17)
    let gap := if gap < 0 then 0 else gap
    let lines := Spec.twoColumns tkA (toks (flatText l od.lineSep)) (toks (flatText r od.lineSep)) gap w pct
    insertBlock text p (lines.map joinToks) od.lineSep (!od.noTrailing)

def specDefTable (text : List Int) (p : Int) (d : List (List Int × List Int)) (w : Int) (od : Options Int) : List Int :=
  if d.isEmpty then text
  else
    let paras := Spec.defTable tkA (d.map fun x => (toks x.1, toks (flatText x.2 od.lineSep))) w
    let body := joinWith od.paraSep (paras.map fun ls => joinWith od.lineSep (ls.map joinToks))
    Spec.insert cxA text p (body ++ (if !od.noTrailing then od.lineSep else []))

def compositeStep (pid : String) (a : List String) (src res : Obs) : String :=
  match src, res with
  | .ed text so _ _, .ed out _ _ _ =>
    match a with
    | ["twocol", _, p, l, r, gap, w, pct, o] =>
      match parseInt p, parseText l, parseText r, parseInt gap, parseInt w, parsePct pct, effOpts so o with
      | some p, some l, some r, some gap, some w, some pct, some od =>
        if !stableDom [text, l, r] [od.lineSep] then "skip:unstable"
        else
          match (Editor.root (toks text) (tokOpts od)).insertTwoColumnsOpts cxB p (toks l) (toks r) gap w pct ((rawOpts so o).getD (tokOpts od)) with
          | .ok e =>
            if flat e.text != out then s!"fail:C14 differs from the cluster-level layout; expected {showText (flat e.text)}"
            else if specTwoCol text p l r gap w pct od != out then
              s!"fail:C14 is not the aligned juxtaposition of the two wrapped texts; expected {showText (specTwoCol text p l r gap w pct od)}"
            else "ok"
          | .error _ => "fail:C14 cluster-level model is not total here"
      | _, _, _, _, _, _, _ => "skip:parse"
    | ["deftable", _, p, d, w, o] =>
      match parseInt p, parseDefs d, parseInt w, effOpts so o with
      | some p, some d, some w, some od =>
        if !stableDom ([text] ++ d.flatMap fun x => [x.1, x.2]) [od.lineSep, od.paraSep] then "skip:unstable"
        else
          match (Editor.root (toks text) (tokOpts od)).insertDefTableOpts cxB p (d.map fun x => (toks x.1, toks x.2)) w ((rawOpts so o).getD (tokOpts od)) with
          | .ok e =>
            let blank := d.any fun x => !x.2.isEmpty && (toks (flatText x.2 od.lineSep)).all tkA.ws
            if flat e.text != out then s!"fail:C15 differs from the cluster-level layout; expected {showText (flat e.text)}"
            else if specDefTable text p d w od != out then
              (if blank then "fail:C15 a definition that consists of whitespace only is rendered without the '- ' marker"
               else s!"fail:C15 is not the specified definitions layout; expected {showText (specDefTable text p d w od)}")
            else "ok"
          | .error _ => "fail:C15 cluster-level model is not total here"
      | _, _, _, _ => "skip:parse"
    | ["table", _, p, d, w, o] =>
      match parseInt p, parseTable d, parseInt w, effOpts so o with
      | some p, some d, some w, some od =>
        let upperOk := d.headD [] |>.all fun c => (toks (c.map upperRune)).length == (toks c).length
        let rawCs := ((if o == "=" then some so else parseOpts o).map (·.charset)).getD []
        if !stableDom ([text, od.charset, rawCs] ++ d.flatten ++ (d.headD []).map (·.map upperRune)) [od.lineSep] then "skip:unstable"
        else if !upperOk then "skip:upper-changes-length"
        else
          match (Editor.root (toks text) (tokOpts od)).insertTableOpts cxB p (d.map (·.map toks)) w ((rawOpts so o).getD (tokOpts od)) with
          | .ok e => if flat e.text == out then "ok" else s!"fail:C16 differs from the cluster-level layout; expected {showText (flat e.text)}"
          | .error _ => "fail:C16 cluster-level model is not total here"
      | _, _, _, _ => "skip:parse"
    | _ => "skip:op"
  | .ed _ _ _ _, .err k => s!"fail:C18 operation failed ({k})"
  | _, _ => "skip:src"

def walkComposite (pid : String) (want : String) (steps goAll : String) : String := Id.run do
  let ss := steps.splitOn ";"
  let gs := (goAll.splitOn ";").map fun g => (g.splitOn "#").headD ""
  if ss.length != gs.length then return "fail:observation count differs"
  let obs := gs.map parseObs
  let mut verdict := "skip:no-step-in-scope"
  for (st, k) in ss.zipIdx do
    let a := st.splitOn ","
    if a.headD "" == want then
      match (a.getD 1 "").toNat? with
      | some si =>
        let r := compositeStep pid a (obs.getD si (.err "dep")) (obs.getD k (.err "dep"))
        if r.startsWith "fail" then return r ++ s!" (step {k})"
        if r == "ok" then verdict := "ok"
        else if verdict != "ok" then verdict := r
      | none => pure ()
  return verdict

/-- C18: no panic, no timeout, valid UTF-8, anywhere -/
def totalityVerdict (go : String) : String :=
  if (go.splitOn "X~panic").length > 1 then "fail:C18 panic"
  else if (go.splitOn "X~timeout").length > 1 then "fail:C18 did not terminate within the watchdog"
  else if (go.splitOn "X~crash").length > 1 then "fail:C18 crashed the process"
  else if (go.splitOn "X~invalid").length > 1 then "fail:C18 result is not valid UTF-8"
  else "ok"

/-- C08: every previously obtained editor still reports the same digest after each later step;
identical steps give identical observations -/
def poolVerdict (steps goAll : String) : String := Id.run do
  let ss := steps.splitOn ";"
  let gs := goAll.splitOn ";"
  if ss.length != gs.length then return "fail:observation count differs"
  let mut prev : List String := []
  let mut seen : List (String × String) := []
  for (st, g) in ss.zip gs do
    match g.splitOn "#" with
    | [obs, dg] =>
      let ds := dg.splitOn "+"
      if ds.take prev.length != prev then
        return s!"fail:C08 an earlier editor reports a different state after step ({st})"
      prev := ds
      match seen.find? (·.1 == st) with
      | some (_, o) => if o != obs then return s!"fail:C08 same operation, same editor, different result ({st})"
      | none => seen := (st, obs) :: seen
    | _ => return "skip:no-digest"
  return "ok"

end RosedVerif.Driver
