/-
C11 oracle: paragraph decomposition (callback arguments) and the paragraph-mode
homomorphism, evaluated on the REAL code's observations.
-/
import Driver.BOracle
namespace RosedVerif.Driver
open RosedVerif

/-- `paraSep` is `lineSep` repeated k ≥ 1 times -/
def madeOfLineSeps (paraSep lineSep : List Int) : Bool :=
  !lineSep.isEmpty && !paraSep.isEmpty && paraSep.length % lineSep.length == 0 &&
    (List.replicate (paraSep.length / lineSep.length) lineSep).flatten == paraSep

def parseCalls (s : String) : Option (List (List Int × List Int × List Int)) :=
  if s.isEmpty then some []
  else (s.splitOn "/").mapM fun c =>
    match c.splitOn "_" with
    | [p, a, b] => do pure (← parseText p, ← parseText a, ← parseText b)
    | _ => none

def checkParaCalls (text : List Int) (od : Options Int) (fid : Nat) (out : List Int) (calls : String) : String :=
  match parseCalls calls with
  | none => "skip:parse-calls"
  | some cs =>
    let k1 := (splitOn text od.paraSep).length
    if cs.length != k1 then s!"fail:C11 callback invoked {cs.length} times for {k1} pieces"
    else if joinWith od.paraSep (cs.map (·.1)) != text then "fail:C11 pieces do not rejoin to the text"
    else
      let parts := splitOn od.paraSep od.lineSep
      let prevSuffix := parts.headD []
      let nextPrefix := if parts.length > 1 then parts.getLastD [] else []
      let affOk := (List.range cs.length).all fun i =>
        let (_, pre, suf) := cs.getD i ([], [], [])
        pre == (if i == 0 then [] else nextPrefix) && suf == (if i + 1 == cs.length then [] else prevSuffix)
      if !affOk then "fail:C11 separator prefix/suffix passed to the callback are not the documented ones"
      else if fid == 0 ∧ out != text then "fail:C11 identity callback does not reproduce the text"
      else
        let exp := joinWith od.paraSep ((List.range cs.length).flatMap fun i =>
          let (p, a, b) := cs.getD i ([], [], [])
          paraFn fid i p a b)
        if exp != out then "fail:C11 returned paragraphs are not spliced in place with the separator" else "ok"

/-- the per-paragraph operation X₁ (non-paragraph mode, on the model) -/
def perPara (op : String) (args : List String) (od : Options Int) (para : List Int)
    (paraMode : Bool := false) : Option (List Int) :=
  -- `paraMode`: the single paragraph is run through the same paragraph-mode operation (used under
  -- NoTrailingLineSeparators, where the non-paragraph operation treats an empty text as one line
  -- while paragraph mode has no line to work on; seeded change C11l)
  let o1 := { od with preservePara := paraMode }
  let ed : Ed := .root para o1
  match op, args with
  | "wrap", [w] => do
    let w ← parseInt w
    -- the result for the single paragraph is the non-paragraph operation on it, trailing-separator
    -- rule included (C11: "equals the separator-join of the results for the single paragraphs")
    match ed.wrapOpts cxA w o1 with | .ok e => some e.text | .error _ => none
  | "justify", [w] => do
    let w ← parseInt w
    match ed.justifyOpts cxA w o1 with | .ok e => some e.text | .error _ => none
  | "align", [al, w] => do
    let al ← parseInt al; let w ← parseInt w
    match ed.alignOpts cxA al w o1 with | .ok e => some e.text | .error _ => none
  | "indent", [lv] => do
    let lv ← parseInt lv
    match ed.indentOpts cxA lv o1 with | .ok e => some e.text | .error _ => none
  | _, _ => none

/-- outside the homomorphism's domain (a paragraph separator with affixes): all separators are kept and
every paragraph is still treated on its own — the non-whitespace clusters of the k-th piece of the
result are those of the k-th paragraph, plus the continuation hyphens of Wrap (defect D18: the text of
a paragraph was deleted in place of the stand-ins for the separator's affixes).  Causes that C07
reports as known findings (text that is not WsStable, a word that does not fit next to an affix) are
not reported a second time. -/
def checkOwnParagraphs (op : String) (args : List String) (text : List Int) (od : Options Int)
    (out : List Int) : String :=
  let ps := splitOn text od.paraSep
  let qs := splitOn out od.paraSep
  if qs.length < ps.length then "fail:C11 a paragraph separator was lost"
  -- no unique decomposition into pieces / lines: a self-overlapping or blank line separator
  -- (`bordered`), a self-overlapping paragraph separator next to a fragment of itself (`cleanSplit`),
  -- separators that overlap one another, a result that spells further separators
  else if op == "indent" ∨ qs.length != ps.length ∨ bordered od.lineSep ∨ !cleanSplit od.paraSep (ps ++ qs) ∨
      !sepsIndependent od then "ok"
  else
    let hy := op == "wrap"
    let same := (ps.zip qs).all fun (p, q) =>
      let a := (nonWsBy od.lineSep p).flatten.map fun r => [r]
      let b := (nonWsBy od.lineSep q).flatten.map fun r => [r]
      if hy then subseqHy a b else a == b
    if same then "ok"
    else
      let w : Int := if hy then ((args.headD "").toInt?).getD 1000000 else 1000000
      let name := if op == "wrap" then "Wrap" else if op == "justify" then "Justify" else "Align"
      let c07 := checkNonWsPara name od text out hy w
      if !wsStable ([0x20] ++ text ++ [0x20]) ∨
          !wsStable ([0x20] ++ flatText (flatText text od.paraSep) od.lineSep ++ [0x20]) then
        -- a mark that follows white space (also: the white space a separator ends with) joins it; known finding of C07
        "skip:not-WsStable"
      else if c07 == "ok" then "fail:C11 text moved across a paragraph separator"
      else if c07.startsWith "skip" ∨ (c07.splitOn "not-WsStable").length > 1 ∨
          (c07.splitOn "does not fit the width").length > 1 then "skip:cause-reported-by-C07"
      else "fail:C11 a paragraph is not treated on its own (its text is not kept in its piece of the result)"

def checkHomomorphism (op : String) (args : List String) (text : List Int) (od : Options Int)
    (out : List Int) : String :=
  if !od.preservePara then "skip:not-paragraph-mode"
  else if !madeOfLineSeps od.paraSep od.lineSep then
    -- outside the homomorphism's domain
    checkOwnParagraphs op args text od out
  else
    match paraCalls (.root text od) od with
    | .error _ => "skip:model-error"
    | .ok cs =>
      match cs.mapM fun (p, _, _) => perPara op args od p od.noTrailing with
      | none => "skip:per-paragraph-error"
      | some rs =>
        let exp := joinWith od.paraSep rs
        if exp == out then "ok"
        else s!"fail:C11 paragraph mode is not the separator-join of the per-paragraph results; expected {showText exp}"

def paraStep (a : List String) (src res : Obs) : String :=
  match src, res with
  | .ed text so _ _, .ed out _ _ calls =>
    match a with
    | ["applypara", _, f, o] =>
      match f.toNat?, effOpts so o, calls with
      | some f, some od, some cl => checkParaCalls text od f out cl
      | _, _, _ => "skip:parse"
    | ["wrap", _, w, o] => match effOpts so o with
      | some od => checkHomomorphism "wrap" [w] text od out | none => "skip:parse"
    | ["justify", _, w, o] => match effOpts so o with
      | some od => checkHomomorphism "justify" [w] text od out | none => "skip:parse"
    | ["align", _, al, w, o] => match effOpts so o with
      | some od =>
        (match parseInt al with
         | some n => if n ≥ 1 ∧ n ≤ 3 then checkHomomorphism "align" [al, w] text od out else "skip:none"
         | none => "skip:parse")
      | none => "skip:parse"
    | ["indent", _, lv, o] => match effOpts so o with
      | some od => checkHomomorphism "indent" [lv] text od out | none => "skip:parse"
    | _ => "skip:op"
  | .ed _ _ _ _, .err k => s!"fail:C18 operation failed ({k})"
  | _, _ => "skip:src"

def walkPara (steps goAll : String) : String := Id.run do
  let ss := steps.splitOn ";"
  let gs := (goAll.splitOn ";").map fun g => (g.splitOn "#").headD ""
  if ss.length != gs.length then return "fail:observation count differs"
  let obs := gs.map parseObs
  let mut verdict := "skip:no-step-in-scope"
  for (st, k) in ss.zipIdx do
    let a := st.splitOn ","
    if ["applypara", "wrap", "justify", "align", "indent"].contains (a.headD "") then
      match (a.getD 1 "").toNat? with
      | some si =>
        let r := paraStep a (obs.getD si (.err "dep")) (obs.getD k (.err "dep"))
        if r.startsWith "fail" then return r ++ s!" (step {k})"
        if r == "ok" then verdict := "ok"
        else if verdict != "ok" then verdict := r
      | none => pure ()
  return verdict

/-- C17 on the program shape  edit t o0 ; X(0, o) ; withopts(0, o) ; X(2, =) ; X(0, mixture) -/
def optionsVerdict (steps goAll : String) : String :=
  let gs := (goAll.splitOn ";").map parseObs
  match gs with
  | [.ed _ o0 _ _, .ed t1 o1 _ _, .ed _ _ _ _, .ed t3 _ _ _, .ed t4 _ _ _] =>
    if t1 != t3 then "fail:C17 XOpts(args, o) and WithOptions(o).X(args) give different text"
    else if o1 != o0 then "fail:C17 XOpts changed the Options stored on the returned Editor"
    else if t1 != t4 then "fail:C17 explicit defaults and unset fields give different text"
    else "ok"
  | _ => if (goAll.splitOn "X~").length > 1 then "skip:error" else "skip:shape"

/-- C03: op(ρ(text)) = ρ(op(text)), ρ applied cluster for cluster; counts invariant -/
def relVerdict (rho steps goAll : String) : String :=
  let table : List (Tok × Tok) := (rho.splitOn "/").filterMap fun p =>
    match p.splitOn ">" with
    | [a, b] => do pure (← parseText a, ← parseText b)
    | _ => none
  let applyRho (t : List Int) : List Int :=
    ((toks t).map fun c => match table.find? (·.1 == c) with | some (_, d) => d | none => c).flatten
  let gs := (goAll.splitOn ";").map parseObs
  let _ := steps
  -- two programs of equal length, the second on the substituted text: [edit, op …, charcount, linecount] twice.
  -- Every pair of corresponding observations must be related by ρ (the first pair, the two `edit`s,
  -- is related by construction).
  if gs.length % 2 != 0 ∨ gs.length < 8 then
    (if (goAll.splitOn "X~").length > 1 then "fail:C18 operation failed" else "skip:shape")
  else
    let n := gs.length / 2
    let pairs := (gs.take n).zip (gs.drop n)
    let rec go (k : Nat) : List (Obs × Obs) → String
      | [] => "ok"
      | (.ed t1 _ s1 _, .ed t2 _ s2 _) :: rest =>
        if applyRho t1 != t2 then s!"fail:C03 op(rho(text)) differs from rho(op(text)) at step {k}; rho(op(text)) = {showText (applyRho t1)}"
        else if s1 != s2 then "fail:C03 sub-editor status differs"
        else go (k + 1) rest
      | (.str t1, .str t2) :: rest =>
        if applyRho t1 != t2 then s!"fail:C03 String() of op(rho(text)) differs from rho(String() of op(text)) at step {k}; expected {showText (applyRho t1)}"
        else go (k + 1) rest
      | (.int c1, .int c2) :: rest =>
        if c1 != c2 then (if rest.length == 1 then "fail:C03 CharCount not invariant under cluster substitution"
                          else "fail:C03 LineCount not invariant under cluster substitution")
        else go (k + 1) rest
      | (.err _, _) :: _ | (_, .err _) :: _ => "fail:C18 operation failed"
      | _ :: _ => "skip:shape"
    go 0 pairs

def withDefaultsVerdict (go : String) : String :=
  match go.splitOn ";" with
  | [a, b] =>
    let prep := match parseOpts a with
      | some o => o.charset.any fun r => classOf r == Cls.prepend
      | none => false
    let tag := if prep then " (the table character set contains a Prepend character)" else ""
    if a != b then "fail:C17 WithDefaults is not idempotent" ++ tag
    else match parseOpts a with
      | some o => if (clusters cxA o.charset).length == 3 then "ok" else "fail:C17 WithDefaults table character set is not three clusters" ++ tag
      | none => "skip:parse"
  | _ => "skip:shape"

end RosedVerif.Driver
