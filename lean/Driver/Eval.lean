/-
Evaluation of protocol cases on the model (instance A).
-/
import Driver.Proto
import Driver.Hist
namespace RosedVerif.Driver
open RosedVerif

abbrev Ed := Editor Int

def obsEditor (e : Ed) : String :=
  s!"E~{showText e.text}~{showOpts e.opts}~{if e.isSub then 1 else 0}"

def obsR (r : R Ed) : String := match r with | .ok e => obsEditor e | .error x => showErr x

def digitsOf (n : Nat) : List Int := (toString n).toList.map fun c => Int.ofNat c.toNat

/-- the fixed family of line callbacks used by `apply` steps -/
def lineFn (id : Nat) (idx : Nat) (line : List Int) : List (List Int) :=
  match id with
  | 0 => [line]
  | 1 => []
  | 2 => [line, line]
  | 3 => if idx % 2 == 1 then [] else [line]
  | 4 => [[0x3E] ++ line]
  | 5 => [line, []]
  | 6 => [digitsOf idx ++ line]
  | _ => [line]

/-- the fixed family of paragraph callbacks used by `applypara` steps -/
def paraFn (id : Nat) (idx : Nat) (para pre suf : List Int) : List (List Int) :=
  match id with
  | 0 => [para]
  | 1 => []
  | 2 => [para, para]
  | 3 => [pre ++ para ++ suf]
  | 4 => if idx % 2 == 0 then [para] else []
  | 5 => [digitsOf idx ++ para]
  | _ => [para]

/-- the arguments an Apply callback receives, in call order -/
def applyCalls (ed : Ed) (o : Options Int) : List (List Int) :=
  let o := o.withDefaults cxA
  (ed.withOpts o).linesSep o.lineSep

/-- the arguments an ApplyParagraphs callback receives (para, pre, suf), in call order -/
def paraCalls (ed : Ed) (o : Options Int) : R (List (List Int × List Int × List Int)) := do
  -- run the loop with a recording callback: encode each call as one output "paragraph"
  let o' := o.withDefaults cxA
  let ambig : Bool := (o'.paraSep ++ o'.lineSep) == (o'.lineSep ++ o'.paraSep)
  let parts := splitOn o'.paraSep o'.lineSep
  let prevSuffix := parts.headD []
  let nextPrefix := if parts.length > 1 then parts.getLastD [] else []
  let rec go (idx : Nat) (cur : List Int) (rest : List (List Int)) : List (List Int × List Int × List Int) :=
    match rest with
    | [] => [(cur, (if idx != 0 then nextPrefix else []), [])]
    | nxt :: rest' =>
      let steal := ambig && o'.lineSep.isPrefixOf nxt
      let nxt' := if steal then nxt.drop o'.lineSep.length else nxt
      let cur' := if steal then cur ++ o'.lineSep else cur
      (cur', (if idx != 0 then nextPrefix else []), prevSuffix) :: go (idx + 1) nxt' rest'
  match splitOn ed.text o'.paraSep with
  | [] => pure []
  | p :: ps => pure (go 0 p ps)

inductive Entry
  | ed (e : Ed)
  | bad

def getEd (pool : Array Entry) (s : String) : Option Ed := do
  let i ← s.toNat?
  match pool[i]? with
  | some (.ed e) => some e
  | _ => none

/-- resolve the options argument: "=" means "the X form, which uses the Editor's own Options" -/
def optsArg (e : Ed) (s : String) : Option (Options Int) :=
  if s == "=" then some e.opts else parseOpts s

/-- one step: returns (pool entry to append, if the step produces an editor; observation) -/
def evalStep (pool : Array Entry) (step : String) : Option Entry × String :=
  let a := step.splitOn ","
  let edRes (r : R Ed) : Option Entry × String :=
    match r with
    | .ok e => (some (.ed e), obsEditor e)
    | .error x => (some .bad, showErr x)
  let bad : Option Entry × String := (some .bad, "X~dep")
  let parseFail : Option Entry × String := (some .bad, "X~parse")
  match a with
  | ["edit", t, o] =>
    match parseText t, parseOpts o with
    | some t, some o => edRes (.ok (.root t o))
    | _, _ => parseFail
  | ["withopts", s, o] =>
    match getEd pool s, parseOpts o with
    | some e, some o => edRes (.ok (e.withOpts o))
    | none, _ => bad
    | _, _ => parseFail
  | ["chars", s, x, y] =>
    match getEd pool s, parseInt x, parseInt y with
    | some e, some x, some y => edRes (e.chars cxA x y)
    | none, _, _ => bad
    | _, _, _ => parseFail
  | ["charsfrom", s, x] =>
    match getEd pool s, parseInt x with
    | some e, some x => edRes (e.charsFrom cxA x)
    | none, _ => bad
    | _, _ => parseFail
  | ["charsto", s, x] =>
    match getEd pool s, parseInt x with
    | some e, some x => edRes (e.charsTo cxA x)
    | none, _ => bad
    | _, _ => parseFail
  | ["lines", s, x, y] =>
    match getEd pool s, parseInt x, parseInt y with
    | some e, some x, some y => edRes (e.linesSel cxA x y)
    | none, _, _ => bad
    | _, _, _ => parseFail
  | ["linesfrom", s, x] =>
    match getEd pool s, parseInt x with
    | some e, some x => edRes (e.linesFrom cxA x)
    | none, _ => bad
    | _, _ => parseFail
  | ["linesto", s, x] =>
    match getEd pool s, parseInt x with
    | some e, some x => edRes (e.linesTo cxA x)
    | none, _ => bad
    | _, _ => parseFail
  | ["commit", s] =>
    match getEd pool s with
    | some e => edRes (e.commit cxA)
    | none => bad
  | ["commitall", s] =>
    match getEd pool s with
    | some e => edRes (e.commitAll cxA)
    | none => bad
  | ["wrap", s, w, o] =>
    match getEd pool s with
    | some e => match parseInt w, optsArg e o with
      | some w, some o => edRes (e.wrapOpts cxA w o)
      | _, _ => parseFail
    | none => bad
  | ["justify", s, w, o] =>
    match getEd pool s with
    | some e => match parseInt w, optsArg e o with
      | some w, some o => edRes (e.justifyOpts cxA w o)
      | _, _ => parseFail
    | none => bad
  | ["align", s, al, w, o] =>
    match getEd pool s with
    | some e => match parseInt al, parseInt w, optsArg e o with
      | some al, some w, some o => edRes (e.alignOpts cxA al w o)
      | _, _, _ => parseFail
    | none => bad
  | ["collapse", s, o] =>
    match getEd pool s with
    | some e => match optsArg e o with
      | some o => edRes (e.collapseSpaceOpts cxA o)
      | _ => parseFail
    | none => bad
  | ["indent", s, lv, o] =>
    match getEd pool s with
    | some e => match parseInt lv, optsArg e o with
      | some lv, some o => edRes (e.indentOpts cxA lv o)
      | _, _ => parseFail
    | none => bad
  | ["insert", s, p, t] =>
    match getEd pool s, parseInt p, parseText t with
    | some e, some p, some t => edRes (e.insert cxA p t)
    | none, _, _ => bad
    | _, _, _ => parseFail
  | ["delete", s, x, y] =>
    match getEd pool s, parseInt x, parseInt y with
    | some e, some x, some y => edRes (e.delete cxA x y)
    | none, _, _ => bad
    | _, _, _ => parseFail
  | ["overtype", s, p, t] =>
    match getEd pool s, parseInt p, parseText t with
    | some e, some p, some t => edRes (e.overtype cxA p t)
    | none, _, _ => bad
    | _, _, _ => parseFail
  | ["twocol", s, p, l, r, gap, w, pct, o] =>
    match getEd pool s with
    | some e => match parseInt p, parseText l, parseText r, parseInt gap, parseInt w, parsePct pct, optsArg e o with
      | some p, some l, some r, some gap, some w, some pct, some o =>
        edRes (e.insertTwoColumnsOpts cxA p l r gap w pct o)
      | _, _, _, _, _, _, _ => parseFail
    | none => bad
  | ["deftable", s, p, d, w, o] =>
    match getEd pool s with
    | some e => match parseInt p, parseDefs d, parseInt w, optsArg e o with
      | some p, some d, some w, some o => edRes (e.insertDefTableOpts cxA p d w o)
      | _, _, _, _ => parseFail
    | none => bad
  | ["table", s, p, d, w, o] =>
    match getEd pool s with
    | some e => match parseInt p, parseTable d, parseInt w, optsArg e o with
      | some p, some d, some w, some o => edRes (e.insertTableOpts cxA p d w o)
      | _, _, _, _ => parseFail
    | none => bad
  | ["apply", s, f, o] =>
    match getEd pool s with
    | some e => match f.toNat?, optsArg e o with
      | some f, some o =>
        let calls := applyCalls e o
        let r := e.applyOpts cxA (lineFn f) o
        let log := "/".intercalate (calls.map showText)
        match r with
        | .ok e' => (some (.ed e'), obsEditor e' ++ "~calls=" ++ log)
        | .error x => (some .bad, showErr x)
      | _, _ => parseFail
    | none => bad
  | ["applypara", s, f, o] =>
    match getEd pool s with
    | some e => match f.toNat?, optsArg e o with
      | some f, some o =>
        let r := e.applyParasM cxA (fun i p a b => pure (paraFn f i p a b)) o
        let log := match paraCalls e o with
          | .ok cs => "/".intercalate (cs.map fun (p, a, b) => s!"{showText p}_{showText a}_{showText b}")
          | .error _ => "?"
        match r with
        | .ok e' => (some (.ed e'), obsEditor e' ++ "~calls=" ++ log)
        | .error x => (some .bad, showErr x)
      | _, _ => parseFail
    | none => bad
  | ["charcount", s] =>
    match getEd pool s with
    | some e => (some (.ed e), s!"I~{e.charCount cxA}")
    | none => bad
  | ["linecount", s] =>
    match getEd pool s with
    | some e => (some (.ed e), s!"I~{e.lineCount cxA}")
    | none => bad
  | ["string", s] =>
    match getEd pool s with
    | some e => match e.string cxA with
      | .ok t => (some (.ed e), s!"S~{showText t}")
      | .error x => (some (.ed e), showErr x)
    | none => bad
  | _ => parseFail

/-- full re-observation of one pool entry (C08) -/
def digest (en : Entry) : String :=
  match en with
  | .bad => "B"
  | .ed e =>
    let str := match e.string cxA with | .ok t => showText t | .error x => showErr x
    let com := match e.commit cxA with | .ok c => showText c.text | .error x => showErr x
    s!"{showText e.text}^{showOpts e.opts}^{e.charCount cxA}^{e.lineCount cxA}^{str}^{com}"

def evalProg (steps : String) (withDigest : Bool) : String :=
  let (_, outs) := (steps.splitOn ";").foldl (fun (acc : Array Entry × Array String) step =>
    let (pool, outs) := acc
    let (en, obs) := evalStep pool step
    let pool := match en with | some e => pool.push e | none => pool
    let obs := if withDigest then obs ++ "#" ++ "+".intercalate (pool.toList.map digest) else obs
    (pool, outs.push obs)) (#[], #[])
  ";".intercalate outs.toList

def predsMask (r : Int) : Nat :=
  let P := goPreds
  let bits := [P.prepend r, P.cr r, P.lf r, P.control r, P.extend r, P.ri r, P.spacing r,
    P.l r, P.v r, P.t r, P.lv r, P.lvt r, P.zwj r, P.extpict r]
  (bits.zipIdx.foldl (fun m (b, i) => if b then m + 2 ^ i else m) 0)

def showLines (r : R (List (List Int))) : String :=
  match r with
  | .ok ls => "L~" ++ "/".intercalate (ls.map showText)
  | .error x => showErr x

def showTextR (r : R (List Int)) : String :=
  match r with
  | .ok t => "S~" ++ showText t
  | .error x => showErr x

/-- evaluate one case line `id|kind|args…` to `id|result` -/
def evalLine (line : String) : String :=
  match line.splitOn "|" with
  | id :: kind :: args =>
    let res : String :=
      match kind, args with
      | "preds", [r] => match r.toInt? with
        | some r => toString (predsMask r)
        | none => "X~parse"
      | "cls", [r] => match r.toInt? with
        | some r => toString (classOf r).toNat
        | none => "X~parse"
      | "split", [t] => match t.splitOn "." |>.mapM (fun h => if h == "-" then none else
            if h.startsWith "-" then (hexToNat? (h.drop 1).toString).map (fun n => -(Int.ofNat n)) else (hexToNat? h).map Int.ofNat) with
        | some rs => showInts (splitRunes rs)
        | none => if t == "-" then "-" else "X~parse"
      | "r2i", [a, b, c] => match a.toInt?, parseInt b, parseInt c with
        | some a, some b, some c => let (s, e) := rangeToIndexes a b c; s!"{s},{e}"
        | _, _, _ => "X~parse"
      | "probe", [r] => match r.toInt? with
        | some r => ";".intercalate (([[0x61, r], [r, 0x61], [r, 0x308], [0x1F468, 0x200D, r],
            [0x1F468, r, 0x200D, 0x1F469], [0x1F1E9, r], [0x1100, r], [r, 0x1161], [r, 0x11A8],
            [0x0D, r], [r, 0x0A], [0x1F468, r, 0x1F469], [0x1161, r]] : List (List Int)).map
              fun p => showInts (splitRunes p))
        | none => "X~parse"
      | "hist", [steps] => evalHist steps
      | "progz", [steps] =>
        -- claim: no public operation writes package-level state, so the flag never moves
        ",".intercalate ((steps.splitOn ";").map fun _ => if Gen.zeroCachePrefilled then "1" else "0")
      | "rel", [_, steps] => evalProg steps false
      | "prog", [steps] => evalProg steps false
      | "pool", [steps] => evalProg steps true
      | "collapse", [t, sep] => match parseText t, parseText sep with
        | some t, some sep => showTextR (collapseSpace cxA t sep)
        | _, _ => "X~parse"
      | "wrapl", [t, w, sep] => match parseText t, parseInt w, parseText sep with
        | some t, some w, some sep => showLines (wrapLines cxA t w sep)
        | _, _, _ => "X~parse"
      | "justl", [t, w] => match parseText t, parseInt w with
        | some t, some w => showTextR (justifyLine cxA t w)
        | _, _ => "X~parse"
      | "alignl", [k, t, w] => match parseText t, parseInt w with
        | some t, some w =>
          if k == "L" then showTextR (pure (alignLeft cxA t w))
          else if k == "R" then showTextR (pure (alignRight cxA t w))
          else showTextR (pure (alignCenter cxA t w))
        | _, _ => "X~parse"
      | "withdefaults", [o] => match parseOpts o with
        | some o => showOpts (o.withDefaults cxA) ++ ";" ++ showOpts ((o.withDefaults cxA).withDefaults cxA)
        | none => "X~parse"
      | _, _ => "X~parse"
    id ++ "|" ++ res
  | _ => "?|X~parse"

end RosedVerif.Driver
