/-
Specification interpreter for editor programs (position family) and the
comparison of its expectations with the REAL code's observations.
-/
import Driver.Eval
import RosedVerif.Spec.Pos
namespace RosedVerif.Driver
open RosedVerif

/-- spec-level editor: a sub-editor remembers the parent snapshot and the parent's text
before / after the selected region -/
inductive SEd
  | root (t : List Int) (o : Options Int)
  | sub (t : List Int) (o : Options Int) (parent : SEd) (before after : List Int)

namespace SEd
def text : SEd → List Int | root t _ => t | sub t _ _ _ _ => t
def opts : SEd → Options Int | root _ o => o | sub _ o _ _ _ => o
def withText : SEd → List Int → SEd | root _ o, t => root t o | sub _ o p b a, t => sub t o p b a
def withOpts : SEd → Options Int → SEd | root t _, o => root t o | sub t _ p b a, o => sub t o p b a
def isSub : SEd → Bool | root _ _ => false | sub _ _ _ _ _ => true
def commit : SEd → SEd | root t o => root t o | sub t _ p b a => p.withText (b ++ t ++ a)
def depth : SEd → Nat | root _ _ => 0 | sub _ _ p _ _ => p.depth + 1
def commitN : Nat → SEd → SEd
  | 0, e => e
  | n + 1, e => commitN n e.commit
def commitAll (e : SEd) : SEd := commitN e.depth e
end SEd

/-- parsed observation of the real code -/
inductive Obs
  | ed (t : List Int) (o : Options Int) (sub : Bool) (calls : Option String)
  | int (n : Int)
  | str (t : List Int)
  | err (k : String)

def parseObs (s : String) : Obs :=
  match s.splitOn "~" with
  | "E" :: t :: o :: sub :: rest =>
    match parseText t, parseOpts o with
    | some t, some o => .ed t o (sub == "1") (rest.head?.map fun c => (c.drop 6).toString)
    | _, _ => .err "parse"
  | ["I", n] => match n.toInt? with | some n => .int n | none => .err "parse"
  | ["S", t] => match parseText t with | some t => .str t | none => .err "parse"
  | "X" :: k :: _ => .err k
  | _ => .err "parse"

def specObs (e : SEd) : String :=
  s!"E~{showText e.text}~{showOpts e.opts}~{if e.isSub then 1 else 0}"

/-- result of a spec step: expected observation (if the spec speaks about this op) and the new entry -/
structure SStep where
  expect : Option String      -- none = the spec does not constrain this step (havoc from the observation)
  entry : Option SEd

def lineSepOf (e : SEd) : List Int := (e.opts.withDefaults cxA).lineSep

def specStep (pool : Array (Option SEd)) (step : String) (go : Obs) : SStep :=
  let a := step.splitOn ","
  let get (s : String) : Option SEd := do
    let i ← s.toNat?
    (pool[i]?).join
  let edExp (e : SEd) : SStep := ⟨some (specObs e), some e⟩
  -- for operations the position spec does not describe: keep the spec's ref, take text/options as observed
  let havoc (src : Option SEd) : SStep :=
    match src, go with
    | some e, .ed t o _ _ => ⟨none, some ((e.withText t).withOpts o)⟩
    | _, _ => ⟨none, none⟩
  match a with
  | ["edit", t, o] =>
    match parseText t, parseOpts o with
    | some t, some o => edExp (.root t o)
    | _, _ => ⟨none, none⟩
  | ["withopts", s, o] =>
    match get s, parseOpts o with
    | some e, some o => edExp (e.withOpts o)
    | _, _ => ⟨none, none⟩
  | ["chars", s, x, y] =>
    match get s, parseInt x, parseInt y with
    | some e, some x, some y =>
      let (b, sel, af) := Spec.selectClusters cxA e.text x y
      edExp (.sub sel e.opts e b af)
    | _, _, _ => ⟨none, none⟩
  | ["charsfrom", s, x] =>
    match get s, parseInt x with
    | some e, some x =>
      let (b, sel, af) := Spec.selectClusters cxA e.text x Gen.endSentinel
      edExp (.sub sel e.opts e b af)
    | _, _ => ⟨none, none⟩
  | ["charsto", s, y] =>
    match get s, parseInt y with
    | some e, some y =>
      let (b, sel, af) := Spec.selectClusters cxA e.text 0 y
      edExp (.sub sel e.opts e b af)
    | _, _ => ⟨none, none⟩
  | ["lines", s, x, y] =>
    match get s, parseInt x, parseInt y with
    | some e, some x, some y =>
      let (b, sel, af) := Spec.selectLines e.text (lineSepOf e) e.opts.noTrailing x y
      edExp (.sub sel e.opts e b af)
    | _, _, _ => ⟨none, none⟩
  | ["linesfrom", s, x] =>
    match get s, parseInt x with
    | some e, some x =>
      let (b, sel, af) := Spec.selectLines e.text (lineSepOf e) e.opts.noTrailing x Gen.endSentinel
      edExp (.sub sel e.opts e b af)
    | _, _ => ⟨none, none⟩
  | ["linesto", s, y] =>
    match get s, parseInt y with
    | some e, some y =>
      let (b, sel, af) := Spec.selectLines e.text (lineSepOf e) e.opts.noTrailing 0 y
      edExp (.sub sel e.opts e b af)
    | _, _ => ⟨none, none⟩
  | ["commit", s] => match get s with | some e => edExp e.commit | none => ⟨none, none⟩
  | ["commitall", s] => match get s with | some e => edExp e.commitAll | none => ⟨none, none⟩
  | ["insert", s, p, t] =>
    match get s, parseInt p, parseText t with
    | some e, some p, some t => edExp (e.withText (Spec.insert cxA e.text p t))
    | _, _, _ => ⟨none, none⟩
  | ["delete", s, x, y] =>
    match get s, parseInt x, parseInt y with
    | some e, some x, some y => edExp (e.withText (Spec.delete cxA e.text x y))
    | _, _, _ => ⟨none, none⟩
  | ["overtype", s, p, t] =>
    match get s, parseInt p, parseText t with
    | some e, some p, some t => edExp (e.withText (Spec.overtype cxA e.text p t))
    | _, _, _ => ⟨none, none⟩
  | ["apply", s, f, o] =>
    match get s with
    | some e =>
      match f.toNat?, optsArg (.root e.text e.opts) o with
      | some f, some o =>
        let od := o.withDefaults cxA
        let t := Spec.apply e.text od.lineSep od.noTrailing (lineFn f)
        let calls := "/".intercalate ((Spec.bareLines e.text od.lineSep od.noTrailing).map showText)
        ⟨some (specObs (e.withText t) ++ "~calls=" ++ calls), some (e.withText t)⟩
      | _, _ => ⟨none, none⟩
    | none => ⟨none, none⟩
  | ["charcount", s] =>
    match get s with
    | some e => ⟨some s!"I~{(clusters cxA e.text).length}", some e⟩
    | none => ⟨none, none⟩
  | ["linecount", s] =>
    match get s with
    | some e => ⟨some s!"I~{(Spec.linePieces e.text (lineSepOf e) e.opts.noTrailing).length}", some e⟩
    | none => ⟨none, none⟩
  | ["string", s] =>
    match get s with
    | some e => ⟨some s!"S~{showText e.commitAll.text}", some e⟩
    | none => ⟨none, none⟩
  | _ :: s :: _ => havoc (get s)
  | _ => ⟨none, none⟩

/-- walk a program: at every step whose op is in `kinds`, the real observation must equal the
spec's expectation.  Returns the verdict. -/
def walk (kinds : List String) (steps : String) (goAll : String) : String := Id.run do
  let ss := steps.splitOn ";"
  let gs := goAll.splitOn ";"
  if ss.length != gs.length then return "fail:observation count differs"
  let mut pool : Array (Option SEd) := #[]
  let mut checked := 0
  for (st, g) in ss.zip gs do
    -- strip a pool digest if present
    let g := (g.splitOn "#").headD ""
    let op := (st.splitOn ",").headD ""
    let r := specStep pool st (parseObs g)
    if kinds.contains op then
      match r.expect with
      | some exp =>
        if exp != g then
          return s!"fail:step {pool.size} ({op}) expected {exp} got {g}"
        checked := checked + 1
      | none => pure ()
      pool := pool.push r.entry
    else
      -- outside the property's ops the spec takes the real code's result as given (keeping the
      -- spec's parent reference); an error there ends what this property can say about the program
      match parseObs g with
      | .err _ => return (if checked > 0 then "ok" else "skip:error-outside-scope")
      | .ed t o _ _ => pool := pool.push (r.entry.map fun e => (e.withText t).withOpts o)
      | _ => pool := pool.push r.entry
  return (if checked > 0 then "ok" else "skip:no-step-in-scope")

end RosedVerif.Driver
