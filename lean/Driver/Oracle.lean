/-
Oracles: each property's decidable predicate evaluated on the REAL code's output.
Line:  id|oracle|Cxx|<kind>|<args…>|=>|<go result>   ->   id|ok   id|skip:<why>   id|fail:<clause>
-/
import Driver.Eval
import Driver.SpecWalk
import Driver.LayoutOracle
import Driver.BOracle
import Driver.ParaOracle
import Driver.HeapOracle
import RosedVerif.Gem.Ref13
namespace RosedVerif.Driver
open RosedVerif

/-- array form of `ref13` over the code space (an execution aid for the oracles only) -/
def refArr : Array Cls := Id.run do
  let mut a : Array Cls := Array.replicate 0x110000 Cls.other
  -- reverse priority order so that the first match of `ref13` wins
  for X in [Cls.extpict, .lvt, .lv, .t, .v, .l, .spacing, .prepend, .ri, .zwj, .extend, .control, .lf, .cr] do
    for (lo, hi) in refTable X do
      for i in [lo:hi+1] do
        if i < a.size then a := a.set! i X
  return a

def ref13Fast (r : Int) : Cls := if r < 0 then .other else refArr.getD r.toNat .other

def parseRunes (t : String) : Option (List Int) :=
  if t == "-" then some []
  else (t.splitOn ".").mapM fun h =>
    if h.startsWith "-" then (hexToNat? (h.drop 1).toString).map (fun n => -(Int.ofNat n))
    else (hexToNat? h).map Int.ofNat

def expectMask (r : Int) : Nat :=
  match ref13Fast r with
  | .prepend => 1 | .cr => 2 | .lf => 4 | .control => 8 | .extend => 16 | .ri => 32
  | .spacing => 64 | .l => 128 | .v => 256 | .t => 512 | .lv => 1024 | .lvt => 2048
  | .zwj => 4096 | .extpict => 8192 | .other => 0

/-- the thirteen probe strings of C02 (the property's nine + four that separate CR/LF/Control, ZWJ/SpacingMark, V/LV) around code point `c` -/
def probes (c : Int) : List (List Int) :=
  [[0x61, c], [c, 0x61], [c, 0x308], [0x1F468, 0x200D, c], [0x1F468, c, 0x200D, 0x1F469],
   [0x1F1E9, c], [0x1100, c], [c, 0x1161], [c, 0x11A8],
   [0x0D, c], [c, 0x0A], [0x1F468, c, 0x1F469], [0x1161, c]]

def expectProbe (c : Int) : String :=
  ";".intercalate ((probes c).map fun p => showInts (split (p.map ref13Fast)))

def oracleLine (pid kind : String) (args : List String) (go : String) : String :=
  match pid, kind, args with
  | "C01", "split", [t] | "C02", "split", [t] =>
    match parseRunes t with
    | some rs =>
      let exp := showInts (split (rs.map ref13Fast))
      if exp == go then "ok" else s!"fail:segmentation differs from UAX29 over Unicode 13 classes; expected {exp}"
    | none => "skip:parse"
  | "C02", "preds", [r] =>
    match r.toInt? with
    | some r =>
      let exp := toString (expectMask r)
      if exp == go then "ok" else s!"fail:predicate mask differs from Unicode 13.0.0; expected {exp}"
    | none => "skip:parse"
  | "C02", "probe", [r] =>
    match r.toInt? with
    | some r =>
      let exp := expectProbe r
      if exp == go then "ok" else s!"fail:probe behaviour differs from class {(ref13Fast r).toNat}; expected {exp}"
    | none => "skip:parse"
  | "C04", "prog", [steps] =>
    walk ["chars", "charsfrom", "charsto", "charcount", "commit", "commitall", "string", "insert"] steps go
  | "C04", "r2i", [a, b, c] =>
    match a.toInt?, parseInt b, parseInt c with
    | some n, some s, some e =>
      if n < 0 then "skip:negative-size" else
      let (s', e') := Spec.normRangeRaw n s e
      if s!"{s'},{e'}" == go then "ok" else s!"fail:range normalisation expected {s'},{e'}"
    | _, _, _ => "skip:parse"
  | "C05", "prog", [steps] | "C05", "pool", [steps] =>
    walk ["chars", "charsfrom", "charsto", "lines", "linesfrom", "linesto", "commit", "commitall", "string"] steps go
  | "C09", "prog", [steps] => walk ["insert", "delete", "overtype"] steps go
  | "C10", "prog", [steps] =>
    walk ["lines", "linesfrom", "linesto", "linecount", "apply", "commit", "string"] steps go
  | "C06", "wrapl", [t, w, sep] =>
    match parseText t, parseInt w, parseText sep with
    | some t, some w, some sep =>
      let w' : Nat := (if w < 2 then 2 else w).toNat
      match (go.splitOn "~") with
      | ["L", ls] =>
        let lines := if ls.isEmpty then some [] else (ls.splitOn "/").mapM parseText
        match lines with
        | some lines =>
          if lines.any fun l => (toks l).length > w' then "fail:C06(1) a line exceeds the width (manip.Wrap)"
          else if !stableDom [t] [sep] then "ok"
          else
            let exp := (Spec.wrapLines tkA w' (toks (flatText t sep))).map joinToks
            if exp == lines then "ok" else "fail:C06 manip.Wrap differs from the greedy wrap specification on a stable text"
        | none => "skip:parse"
      | _ => if go.startsWith "X~" then "fail:C18 manip.Wrap failed" else "skip:shape"
    | _, _, _ => "skip:parse"
  | "C12", "justl", [t, w] =>
    match parseText t, parseInt w with
    | some t, some w =>
      match go.splitOn "~" with
      | ["S", o] =>
        match parseText o with
        | some o =>
          if !stableDom [t] [[0xA]] then "ok"
          else match checkJustifyLine w t o with
            | some e => "fail:" ++ e ++ " (manip.JustifyLine)"
            | none => "ok"
        | none => "skip:parse"
      | _ => if go.startsWith "X~" then "fail:C18 manip.JustifyLine failed" else "skip:shape"
    | _, _ => "skip:parse"
  | "C13", "alignl", [k, t, w] =>
    match parseText t, parseInt w with
    | some t, some w =>
      match go.splitOn "~" with
      | ["S", o] =>
        match parseText o with
        | some o =>
          if !stableDom [t] [] then "ok"
          else
            let li := toks t
            let exp := joinToks (if k == "L" then Spec.alignLeft tkA w li else if k == "R" then Spec.alignRight tkA w li
              else Spec.alignCenter tkA w li)
            if exp == o then "ok" else s!"fail:C13 manip.AlignLine{k} differs from the specification; expected {showText exp}"
        | none => "skip:parse"
      | _ => "skip:shape"
    | _, _ => "skip:parse"
  | "C06", "prog", [steps] | "C07", "prog", [steps] | "C12", "prog", [steps] | "C13", "prog", [steps] =>
    walkLayout pid steps go
  | "C11", "prog", [steps] => walkPara steps go
  | "C19", "hist", [steps] => c19Verdict steps go
  | "C01", "hist", [steps] => c01HistVerdict steps go
  | "C20", "hist", [_] => c20HistVerdict go
  | "C20", "progz", [_] => c20ProgVerdict go
  | "C03", "rel", [rho, steps] => relVerdict rho steps go
  | "C17", "prog", [steps] => optionsVerdict steps go
  | "C17", "withdefaults", [_] => withDefaultsVerdict go
  | "C14", "prog", [steps] => walkComposite pid "twocol" steps go
  | "C15", "prog", [steps] => walkComposite pid "deftable" steps go
  | "C16", "prog", [steps] => walkComposite pid "table" steps go
  | "C08", "pool", [steps] | "C20", "pool", [steps] => poolVerdict steps go
  | "C18", _, _ => totalityVerdict go
  | _, _, _ => "skip:no-oracle"

end RosedVerif.Driver
