/-
Line protocol: parsing of case lines and printing of canonical results
(DESIGN.md appendix B).  Core-only.
-/
import RosedVerif.Model.InstA
namespace RosedVerif.Driver
open RosedVerif

def hexDigit? (c : Char) : Option Nat :=
  if '0' ≤ c ∧ c ≤ '9' then some (c.toNat - '0'.toNat)
  else if 'a' ≤ c ∧ c ≤ 'f' then some (c.toNat - 'a'.toNat + 10)
  else if 'A' ≤ c ∧ c ≤ 'F' then some (c.toNat - 'A'.toNat + 10)
  else none

def hexToNat? (s : String) : Option Nat :=
  if s.isEmpty then none
  else s.foldl (fun acc c => match acc, hexDigit? c with
    | some n, some d => some (n * 16 + d)
    | _, _ => none) (some 0)

/-- text: hex code points joined by '.', "-" for the empty text -/
def parseText (s : String) : Option (List Int) :=
  if s == "-" then some []
  else (s.splitOn ".").mapM fun h =>
    -- "-xx": a byte outside any well-formed UTF-8 sequence = the negative atom -0xxx
    if h.startsWith "-" then (hexToNat? (h.drop 1).toString).map fun n => -(Int.ofNat n)
    else (hexToNat? h).map Int.ofNat

def hexOf (n : Nat) : String := String.ofList (Nat.toDigits 16 n)

def showRune (r : Int) : String := if r < 0 then "-" ++ hexOf r.natAbs else hexOf r.toNat

def showText (t : List Int) : String :=
  if t.isEmpty then "-" else ".".intercalate (t.map showRune)

def parseInt (s : String) : Option Int :=
  if s == "End" then some Gen.endSentinel else s.toInt?

def parseBoolBits (n : Nat) (k : Nat) : Bool := (n >>> k) % 2 == 1

/-- options: indent:lineSep:paraSep:charset:flags  (flags bit0 noTrailing, bit1 preservePara,
bit2 justifyLast, bit3 borders, bit4 headers) -/
def parseOpts (s : String) : Option (Options Int) :=
  match s.splitOn ":" with
  | [i, l, p, c, f] => do
    let i ← parseText i; let l ← parseText l; let p ← parseText p; let c ← parseText c
    let f ← f.toNat?
    pure { indentStr := i, lineSep := l, paraSep := p, charset := c,
           noTrailing := parseBoolBits f 0, preservePara := parseBoolBits f 1,
           justifyLast := parseBoolBits f 2, borders := parseBoolBits f 3, headers := parseBoolBits f 4 }
  | _ => none

def showOpts (o : Options Int) : String :=
  let f := (if o.noTrailing then 1 else 0) + (if o.preservePara then 2 else 0) +
    (if o.justifyLast then 4 else 0) + (if o.borders then 8 else 0) + (if o.headers then 16 else 0)
  s!"{showText o.indentStr}:{showText o.lineSep}:{showText o.paraSep}:{showText o.charset}:{f}"

/-- table data: rows '/', cells '_'; "!" = no rows, "@" = a row without cells -/
def parseTable (s : String) : Option (List (List (List Int))) :=
  if s == "!" then some []
  else (s.splitOn "/").mapM fun row =>
    if row == "@" then some [] else (row.splitOn "_").mapM parseText

/-- definitions: term_def/term_def, "!" = none -/
def parseDefs (s : String) : Option (List (List Int × List Int)) :=
  if s == "!" then some []
  else (s.splitOn "/").mapM fun d =>
    match d.splitOn "_" with
    | [a, b] => do pure (← parseText a, ← parseText b)
    | _ => none

/-- percentage  [-]num/exp  = ± num / 2^exp -/
def parsePct (s : String) : Option Pct :=
  let (neg, body) := if s.startsWith "-" then (true, (s.drop 1).toString) else (false, s)
  match body.splitOn "/" with
  | ["huge"] => some ⟨neg, 2 ^ 1023, 0⟩   -- math.MaxFloat64 (anything above 1 is the same percentage)
  | [a, b] => do pure ⟨neg, ← a.toNat?, ← b.toNat?⟩
  | _ => none

def showErr : Err → String
  | .invalidUtf8 => "X~invalid"
  | .fuel => "X~fuel"
  | _ => "X~panic"

def errKind : Err → String
  | .index => "index" | .slice => "slice" | .repeatNeg => "repeat" | .explicit => "explicit"
  | .invalidUtf8 => "invalid" | .fuel => "fuel"

def showInts (l : List Nat) : String := if l.isEmpty then "-" else ",".intercalate (l.map toString)

end RosedVerif.Driver
