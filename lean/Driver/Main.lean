import Driver.Eval
open RosedVerif.Driver

partial def loop (h : IO.FS.Stream) (out : IO.FS.Stream) : IO Unit := do
  let line ← h.getLine
  if line.isEmpty then return ()
  let l := line.trimAsciiEnd.toString
  if !l.isEmpty then out.putStrLn (evalLine l)
  loop h out

def main : IO Unit := do
  let out ← IO.getStdout
  loop (← IO.getStdin) out
  out.flush
