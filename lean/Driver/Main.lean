import Driver.Eval
import Driver.Oracle
open RosedVerif.Driver

def handle (l : String) : String :=
  match l.splitOn "|" with
  | id :: "oracle" :: pid :: kind :: rest =>
    -- rest = args… ++ ["=>", go…]; the go result may itself contain '|'? no: results never do
    match rest.idxOf? "=>" with
    | some k => id ++ "|" ++ oracleLine pid kind (rest.take k) ("|".intercalate (rest.drop (k + 1)))
    | none => id ++ "|skip:parse"
  | _ => evalLine l

partial def loop (h : IO.FS.Stream) (out : IO.FS.Stream) : IO Unit := do
  let line ← h.getLine
  if line.isEmpty then return ()
  let l := line.trimAsciiEnd.toString
  if !l.isEmpty then out.putStrLn (handle l)
  loop h out

def main : IO Unit := do
  let out ← IO.getStdout
  loop (← IO.getStdin) out
  out.flush
