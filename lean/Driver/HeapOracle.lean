/-
C19 / C20 oracles on gem.String histories and on editor programs.
-/
import Driver.Hist
import RosedVerif.Gem.Rules
namespace RosedVerif.Driver
open RosedVerif

structure SnapVal where
  runes : List Int
  tag : String
  filled : Bool
  ends : List Nat

def parseSnap (s : String) : Option (List SnapVal × String) :=
  match s.splitOn "!" with
  | [vals, zf] =>
    let vs := if vals.isEmpty then some [] else (vals.splitOn "+").mapM fun v =>
      match v.splitOn "^" with
      | [r, t, f, e] => do
        let rs ← parseRunesH r
        let ends ← if e == "-" then some [] else (e.splitOn ",").mapM (·.toNat?)
        pure ⟨rs, t, f == "1", ends⟩
      | _ => none
    vs.map fun v => (v, zf)
  | _ => none

def strictlyIncreasing : List Nat → Bool
  | [] => true
  | [_] => true
  | a :: b :: t => a < b && strictlyIncreasing (b :: t)

/-- boundaries partition the code points -/
def partitionOk (n : Nat) (e : List Nat) : Bool :=
  strictlyIncreasing e && (e.headD 1 > 0) && (if n == 0 then e.isEmpty else e.getLast? == some n)

/-- C19 on a history restricted to Add/Sub/SetCharAt/Repeat/CharAt/Len/Runes (+ GraphemeIndexes) -/
def c19Verdict (steps goAll : String) : String := Id.run do
  -- Reverse is not among the operations the property quantifies over (its result carries the
  -- ORIGINAL clusters' boundaries by design of LastIndexFunc)
  if (steps.splitOn "reverse,").length > 1 then return "skip:reverse-out-of-scope"
  let ss := steps.splitOn ";"
  let gs := goAll.splitOn ";"
  if ss.length != gs.length then return "fail:observation count differs"
  let mut prev : List SnapVal := []
  for (st, g) in ss.zip gs do
    match g.splitOn "#" with
    | [obs, snap] =>
      match parseSnap snap with
      | none => return "skip:parse"
      | some (vals, _) =>
        -- no operand is altered; a filled cache never changes
        for (p, v) in prev.zip vals do
          if p.runes != v.runes then return s!"fail:C19 an earlier value's content changed at ({st})"
          if p.filled ∧ (!v.filled ∨ p.ends != v.ends) then return s!"fail:C19 an earlier value's cached boundaries changed at ({st})"
        -- every cache that is filled equals the boundaries of a value freshly built from the content
        for v in vals do
          let fresh := splitRunes v.runes
          if !partitionOk v.runes.length fresh then return s!"fail:C19 boundaries do not partition the code points ({showText v.runes})"
          if v.filled ∧ v.ends != fresh then
            return s!"fail:C19 cached boundaries are stale for {showText v.runes}: {showInts v.ends} vs fresh {showInts fresh} at ({st})"
        -- the observers answer as a fresh value would
        let a := st.splitOn ","
        let src := (a.getD 1 "").toNat?.bind fun i => prev[i]?
        match a.headD "", src with
        | "len", some v => if obs != s!"I~{(splitRunes v.runes).length}" then return s!"fail:C19 Len differs from a fresh value's ({st})"
        | "gi", some v => if obs != s!"L~{showInts (splitRunes v.runes)}" then return s!"fail:C19 GraphemeIndexes differ from a fresh value's ({st})"
        | "runes", some v => if obs != s!"R~{showText v.runes}" then return s!"fail:C19 Runes differ ({st})"
        | "charat", some v =>
          let exp := match gCharAt cxA v.runes ((a.getD 2 "").toInt?.getD 0) with
            | .ok c => s!"R~{showText c}" | .error _ => "X~panic"
          if obs != exp then return s!"fail:C19 CharAt differs from a fresh value's ({st})"
        | "add", some v =>
          let w := (a.getD 2 "").toNat?.bind fun i => prev[i]?
          match w, vals.getLast? with
          | some w, some r => if r.runes != v.runes ++ w.runes then return s!"fail:C19 Add result content ({st})"
          | _, _ => pure ()
        | "sub", some v =>
          match vals.getLast?, (a.getD 2 "").toInt?, (a.getD 3 "").toInt? with
          | some r, some s, some e => if r.runes != gSub cxA v.runes s e then return s!"fail:C19 Sub result content ({st})"
          | _, _, _ => pure ()
        | "repeat", some v =>
          match vals.getLast?, (a.getD 2 "").toInt? with
          | some r, some n => if r.runes != gRepeat v.runes n then return s!"fail:C19 Repeat result content ({st})"
          | _, _ => pure ()
        | "setcharat", some v =>
          match vals.getLast?, (a.getD 2 "").toInt?, parseRunesH (a.getD 3 "") with
          | some r, some k, some rs =>
            let bad : Bool := match gSetCharAt cxA v.runes k rs with
              | .ok t => obs != "V" || r.runes != t
              | .error _ => obs != "X~panic"
            if bad then return s!"fail:C19 SetCharAt result differs from the pure one ({st})"
          | _, _, _ => pure ()
        | _, _ => pure ()
        prev := vals
    | _ => return "skip:shape"
  return "ok"

/-- C01 on gem.String histories: the boundaries the library reports (Len, GraphemeIndexes, CharAt) or
stores for a DERIVED value (result of Add/Sub/SetCharAt/Repeat) are the UAX #29 boundaries of that value's
code points.  Only the boundary clauses of the C19 oracle count here; the others belong to C19 alone. -/
def c01HistVerdict (steps goAll : String) : String :=
  let v := c19Verdict steps goAll
  let boundary := ["fail:C19 cached boundaries are stale", "fail:C19 Len differs", "fail:C19 GraphemeIndexes differ",
    "fail:C19 CharAt differs", "fail:C19 boundaries do not partition"]
  if boundary.any (fun p => v.startsWith p) then
    "fail:C01 the boundaries of a derived grapheme string are not the UAX #29 boundaries of its code points: " ++ (v.drop 9).toString
  else if v.startsWith "fail" then "skip:not-a-boundary-clause"
  else v

/-- C20 monitor: the package-level cell of gem.Zero is never written -/
def c20HistVerdict (goAll : String) : String :=
  let init := if Gen.zeroCachePrefilled then "1" else "0"
  let flags := (goAll.splitOn ";").map fun g => ((g.splitOn "!").getLastD "?")
  if flags.all (· == init) then "ok"
  else "fail:C20 package-level state (gem.Zero's cache cell) was written during the history"

def c20ProgVerdict (go : String) : String :=
  let init := if Gen.zeroCachePrefilled then "1" else "0"
  if (go.splitOn ",").all (· == init) then "ok"
  else "fail:C20 a public operation wrote package-level state (gem.Zero's cache cell)"

end RosedVerif.Driver
