/-
Layout oracles (C06, C07, C12, C13, C11 homomorphism): the specification-level
functions of Spec/Layout.lean evaluated on the clusters of the REAL code's
input and output.
-/
import Driver.SpecWalk
import RosedVerif.Spec.Layout
namespace RosedVerif.Driver
open RosedVerif

abbrev Tok := List Int

def tkA : Spec.Toks Tok where
  ws := fun c => match c with | [] => false | r :: _ => isSpaceRune r
  sp := [0x20]
  hy := [0x2D]

def toks (t : List Int) : List Tok := clusters cxA t

def dedup (l : List Tok) : List Tok := l.foldl (fun acc c => if acc.contains c then acc else acc ++ [c]) []

/-- every cluster of the given strings, together with space, hyphen and the placeholder 'A',
is self-contained: any two of them juxtaposed segment into exactly themselves -/
def stableVocab (strs : List (List Int)) : Bool :=
  let cs := dedup ((strs.flatMap toks) ++ [[0x20], [0x2D], [0x41]])
  -- a cluster that is not whitespace must not hide a whitespace code point (e.g. Prepend + space)
  (cs.all fun c => tkA.ws c || c.all fun r => !isSpaceRune r) &&
  cs.all fun c1 => cs.all fun c2 => toks (c1 ++ c2) == [c1, c2]

/-- separator occurrences found on code points coincide with occurrences found on clusters -/
def sepAligned (sep : List Int) (texts : List (List Int)) : Bool :=
  sep.isEmpty || texts.all fun t => (splitOn t sep).map toks == splitOn (toks t) (toks sep)

/-- the domain of the cluster-level (layer B) statements: a stable vocabulary whose separators
are matched on cluster boundaries only -/
def stableDom (texts seps : List (List Int)) : Bool :=
  stableVocab (texts ++ seps) && seps.all fun s => sepAligned s texts

/-- WsStable: no cluster starting with Extend/ZWJ/SpacingMark directly after a whitespace
rune, no Prepend directly before one -/
def wsStable (t : List Int) : Bool :=
  let rec go : List Int → Bool
    | [] => true
    | [_] => true
    | a :: b :: rest =>
      let ca := classOf a
      let cb := classOf b
      (!(isSpaceRune a && (cb == .extend || cb == .zwj || cb == .spacing))) &&
      (!(ca == .prepend && isSpaceRune b)) && go (b :: rest)
  go t

/-- text after the line separator has been turned into a space (what Wrap lays out) -/
def flatText (t sep : List Int) : List Int := replaceAll t sep [0x20]

def nonWs (t : List Int) : List Tok := (toks t).filter fun c => !tkA.ws c

/-- `a` is obtained from `b` by deleting some hyphen tokens -/
def subseqHy : List Tok → List Tok → Bool
  | [], b => b.all (· == [0x2D])
  | _ :: _, [] => false
  | x :: xs, y :: ys => if x == y then subseqHy xs ys else if y == [0x2D] then subseqHy (x :: xs) ys else false

def effOpts (src : Options Int) (o : String) : Option (Options Int) :=
  (if o == "=" then some src else parseOpts o).map (·.withDefaults cxA)

def outLines (out sep : List Int) : List (List Int) :=
  let ps := splitOn out sep
  if sep.isSuffixOf out ∧ !out.isEmpty then ps.dropLast else ps

def joinToks (l : List Tok) : List Int := l.flatten

def gapRuns (line : List Int) : List Nat :=
  -- lengths of the maximal runs of U+0020
  let rec go (cur : Nat) : List Int → List Nat
    | [] => if cur > 0 then [cur] else []
    | c :: t => if c == 0x20 then go (cur + 1) t else (if cur > 0 then cur :: go 0 t else go 0 t)
  go 0 line

def checkWrap (text : List Int) (w : Int) (od : Options Int) (out : List Int) : String :=
  let w' : Nat := (if w < 2 then 2 else w).toNat
  let sep := od.lineSep
  let ls := outLines out sep
  -- (1) width bound: all texts
  if ls.any fun l => (toks l).length > w' then "fail:C06(1) a line exceeds the width"
  -- (6) trailing separator
  else if (sep.isSuffixOf text) != (sep.isSuffixOf out) then "fail:C06(6) trailing separator not kept exactly"
  else if !stableDom [text] [sep] then "ok"
  else
    let exp := Spec.wrapLines tkA w' (toks (flatText text sep))
    let expText := joinWith sep (exp.map joinToks) ++ (if sep.isSuffixOf text then sep else [])
    if expText == out then "ok"
    else s!"fail:C06 stable text: output differs from greedy wrap spec; expected {showText expText}"

/-- non-whitespace clusters, line by line (the separators themselves are not text) -/
def nonWsBy (sep t : List Int) : List Tok := (splitOn t sep).flatMap nonWs

/-- paragraph mode: separators of both kinds are not text -/
def nonWsBy2 (psep sep t : List Int) : List Tok := (splitOn t psep).flatMap (nonWsBy sep)

def paraAffixes (od : Options Int) : Bool :=
  let parts := splitOn od.paraSep od.lineSep
  !(parts.headD []).isEmpty || (parts.length > 1 && !(parts.getLastD []).isEmpty)

/-- widest affix of the paragraph separator, in clusters -/
def maxAffix (od : Options Int) : Nat :=
  let parts := splitOn od.paraSep od.lineSep
  max (toks (parts.headD [])).length (if parts.length > 1 then (toks (parts.getLastD [])).length else 0)

/-- where two token lists first differ (for the failure message) -/
def firstDiff (a b : List Tok) : String :=
  let rec go (i : Nat) : List Tok → List Tok → String
    | x :: xs, y :: ys => if x == y then go (i + 1) xs ys else s!"at {i}: {showText (x :: xs.take 3).flatten} vs {showText (y :: ys.take 3).flatten}"
    | [], y :: ys => s!"at {i}: end vs {showText (y :: ys.take 3).flatten}"
    | x :: xs, [] => s!"at {i}: {showText (x :: xs.take 3).flatten} vs end"
    | [], [] => "none"
  go 0 a b

/-- a proper, non-empty suffix of `a` is a prefix of `b` -/
def overlaps (a b : List Int) : Bool :=
  (List.range a.length).any fun k => k > 0 && (a.drop k).isPrefixOf b && !(a.drop k).isEmpty

/-- the two separators cannot be confused with one another when they meet -/
def sepsIndependent (od : Options Int) : Bool :=
  !(overlaps od.lineSep od.paraSep || overlaps od.paraSep od.lineSep)

/-- in some paragraph the word next to a visible affix of the paragraph separator does not fit
on a line together with that affix (so Wrap hyphenates through its placeholder) -/
def affixWordTooLong (od : Options Int) (text : List Int) (w : Int) : Bool :=
  let w' : Int := if w < 2 then 2 else w
  match paraCalls (.root text od) od with
  | .error _ => false
  | .ok cs => cs.any fun (p, pre, suf) =>
    let ws := Spec.words tkA (toks (flatText p od.lineSep))
    let first : Int := (ws.headD []).length
    let last : Int := (ws.getLastD []).length
    let np : Int := (toks pre).length
    let ns : Int := (toks suf).length
    -- an empty paragraph, or one of a single word, puts BOTH placeholders into the same unit
    if ws.length ≤ 1 then (np > 0 || ns > 0) && np + first + ns > w'
    else (np > 0 && first + np > w') || (ns > 0 && last + ns > w')

def checkNonWsPara (op : String) (od : Options Int) (text out : List Int) (hyphensAdded : Bool) (w : Int := 1000000) : String :=
  let a := (nonWsBy2 od.paraSep od.lineSep text).flatten.map fun r => [r]
  let b := (nonWsBy2 od.paraSep od.lineSep out).flatten.map fun r => [r]
  let good := if hyphensAdded then subseqHy a b else a == b
  -- second reading: the paragraph separators' own visible characters are text that is kept in
  -- place (only line separators are re-made by the operation).  It differs from the first when
  -- the operation happens to break a line exactly where ordinary text spells out a paragraph
  -- separator (or un-breaks one): the cluster sequence is unchanged, which is what C07 states.
  let a2 := (nonWsBy od.lineSep text).flatten.map fun r => [r]
  let b2 := (nonWsBy od.lineSep out).flatten.map fun r => [r]
  let good2 := if hyphensAdded then subseqHy a2 b2 else a2 == b2
  if good || good2 then "ok"
  else if !wsStable ([0x20] ++ flatText (flatText text od.paraSep) od.lineSep ++ [0x20]) then
    s!"fail:C07 not-WsStable input: non-whitespace clusters changed by {op} (paragraph mode)"
  else if (op == "Align" || op == "Justify") && (od.lineSep.head? == some 0x20 || od.lineSep.getLast? == some 0x20) then
    -- finding D19: the placeholder SPACES that stand in for the paragraph separator's affixes complete a line
    -- separator that begins or ends with a space; the removal by count then deletes text
    s!"fail:C07 line separator beginning or ending with U+0020 in paragraph mode: placeholder spaces were taken for a line separator, non-whitespace clusters changed by {op}"
  else if !sepsIndependent od ∧ !(od.paraSep.length % od.lineSep.length == 0 ∧
      (List.replicate (od.paraSep.length / od.lineSep.length) od.lineSep).flatten == od.paraSep) then
    "skip:separators-overlap"
  else if paraAffixes od ∧ op == "Wrap" ∧ affixWordTooLong od text w then
    s!"fail:C07 word next to the paragraph separator's visible affix does not fit the width: non-whitespace clusters changed by {op}"
  else if paraAffixes od then s!"fail:C07 paragraph separator with visible affixes: non-whitespace clusters changed by {op} expected-same {firstDiff (a.filter (· != [0x2D])) (b.filter (· != [0x2D]))}"
  else s!"fail:C07 non-whitespace clusters changed by {op} (paragraph mode)"

def checkNonWs (op : String) (sep text out : List Int) (hyphensAdded : Bool) : String :=
  -- compared as the code points of the non-whitespace clusters, so that a hyphen that merely
  -- joins the preceding cluster (after a Prepend character) is still recognised as an addition
  let a := (nonWsBy sep text).flatten.map fun r => [r]
  let b := (nonWsBy sep out).flatten.map fun r => [r]
  let good := if hyphensAdded then subseqHy a b else a == b
  if good then "ok"
  else if !wsStable ([0x20] ++ flatText text sep ++ [0x20]) then s!"fail:C07 not-WsStable input: non-whitespace clusters changed by {op}"
  else s!"fail:C07 non-whitespace clusters changed by {op}"

def checkJustifyLine (w : Int) (line outl : List Int) : Option String :=
  let c := Spec.collapse tkA (toks line)
  let cText := joinToks c
  let gaps := (c.filter (· == [0x20])).length
  if gaps ≥ 1 ∧ (c.length : Int) < w then
    let o := toks outl
    if (o.length : Int) != w then some "C12 justified line is not exactly w wide"
    else if o.filter (· != [0x20]) != c.filter (· != [0x20]) then some "C12 words changed"
    else
      let runs := gapRuns outl
      if runs.length != gaps then some "C12 number of gaps changed"
      else
        let mx := runs.foldl max 0
        let mn := runs.foldl min (runs.headD 0)
        if mx - mn > 1 then some "C12 gaps differ by more than one" else none
  else if outl != cText then some "C12 line that cannot be justified is not merely space-collapsed"
  else none

def checkJustify (text : List Int) (w : Int) (od : Options Int) (out : List Int) : String :=
  let sep := od.lineSep
  let ins := Spec.bareLines text sep od.noTrailing
  let outs := Spec.bareLines out sep od.noTrailing
  if ins.length != outs.length then "fail:C12 number of lines changed"
  else if (sep.isSuffixOf text) != (sep.isSuffixOf out) then "fail:C12 trailing separator changed"
  else if !stableDom [text] [sep] then "ok"
  else Id.run do
    let n := ins.length
    for i in [0:n] do
      let li := ins.getD i []
      let lo := outs.getD i []
      if i + 1 == n ∧ !od.justifyLast then
        if li != lo then return "fail:C12 last line was touched"
      else
        match checkJustifyLine w li lo with
        | some e => return "fail:" ++ e
        | none => pure ()
    return "ok"

/-- C12 in paragraph mode, for paragraph separators made of line separators and the default trailing policy:
the whole text's decomposition into lines is unaffected by paragraph mode, so the number of lines and the
trailing separator are unchanged and every line comes out untouched (a paragraph's last line), merely
space-collapsed, or justified as specified; the last line of every paragraph (located through the paragraph
decomposition of C11) is untouched unless JustifyLastLine. -/
def checkJustifyPara (text : List Int) (w : Int) (od : Options Int) (out : List Int) : String :=
  let sep := od.lineSep
  let made := !sep.isEmpty && !od.paraSep.isEmpty && od.paraSep.length % sep.length == 0 &&
    (List.replicate (od.paraSep.length / sep.length) sep).flatten == od.paraSep
  if !made then "skip:paragraph-separator-with-affixes"
  else if od.noTrailing then "skip:non-default-trailing-policy"
  else
    let ins := Spec.bareLines text sep false
    let outs := Spec.bareLines out sep false
    if ins.length != outs.length then "fail:C12 number of lines changed (paragraph mode)"
    else if (sep.isSuffixOf text) != (sep.isSuffixOf out) then "fail:C12 trailing separator changed (paragraph mode)"
    else if !stableDom [text] [sep] then "ok"
    else
      -- which of the whole text's lines is the LAST line of a paragraph: the line that ends the prefix
      -- p₀ ++ PS ++ … ++ pᵢ, for every piece pᵢ that has a line at all
      let pieces : List (List Int) := match paraCalls (.root text od) od with
        | .ok cs => cs.map (·.1) | .error _ => []
      if pieces.isEmpty ∨ joinWith od.paraSep pieces != text then "skip:paragraph-decomposition"
      else
        let lastIdx : List Nat := (List.range pieces.length).filterMap fun i =>
          if (Spec.bareLines (pieces.getD i []) sep false).isEmpty then none
          else
            let c := (Spec.bareLines (joinWith od.paraSep (pieces.take (i + 1))) sep false).length
            if c == 0 then none else some (c - 1)
        Id.run do
          for ((li, lo), j) in (ins.zip outs).zipIdx do
            if lastIdx.contains j ∧ !od.justifyLast then
              if li != lo then return "fail:C12 last line of a paragraph was touched (paragraph mode)"
            else
              match checkJustifyLine w li lo with
              | some e => return "fail:" ++ e ++ " (paragraph mode)"
              | none => pure ()
          return "ok"

def checkAlign (text : List Int) (al w : Int) (od : Options Int) (out : List Int) : String :=
  if al == Gen.alignNone ∨ (al != Gen.alignLeft ∧ al != Gen.alignRight ∧ al != Gen.alignCenter) then
    (if out == text then "ok" else "fail:C13 alignment None/unknown changed the text")
  else
    let sep := od.lineSep
    let ins := Spec.bareLines text sep od.noTrailing
    let outs := Spec.bareLines out sep od.noTrailing
    -- the empty text cannot represent "one empty line" under the default policy (C10's
    -- decomposition), so the count is compared only when the output is not empty
    -- likewise an unterminated last line that consists of whitespace only may come out empty,
    -- which the decomposition of the output cannot show as a line
    let lastBlank := (toks (ins.getLastD [])).all tkA.ws
    if !out.isEmpty ∧ !lastBlank ∧ ins.length != outs.length then "fail:C13 number of lines changed"
    else if !stableDom [text] [sep] then "ok"
    else
      let alignTok (l : List Int) : List Int :=
        let li := toks l
        joinToks (if al == Gen.alignLeft then Spec.alignLeft tkA w li
          else if al == Gen.alignRight then Spec.alignRight tkA w li
          else Spec.alignCenter tkA w li)
      let exp := Spec.apply text sep od.noTrailing (fun _ l => [alignTok l])
      if exp == out then "ok"
      else s!"fail:C13 lines are not padded as specified; expected {showText exp}"

/-- C13 in paragraph mode, for paragraph separators made of line separators (no affixes) and the default
trailing-separator policy: every paragraph is aligned on its own, line by line, exactly as specified, and
the separators stay in place — the expected text is the separator-join of the SPECIFICATION's alignment of
each piece (pieces = the paragraph decomposition of C11).  Seeded changes C13j, C13l. -/
def checkAlignPara (text : List Int) (al w : Int) (od : Options Int) (out : List Int) : String :=
  let sep := od.lineSep
  let made := !sep.isEmpty && !od.paraSep.isEmpty && od.paraSep.length % sep.length == 0 &&
    (List.replicate (od.paraSep.length / sep.length) sep).flatten == od.paraSep
  if !made then "skip:paragraph-separator-with-affixes"
  else if od.noTrailing then "skip:non-default-trailing-policy"
  else if !stableDom [text] [sep] then "skip:outside-stable-domain"
  else match paraCalls (.root text od) od with
    | .error _ => "skip:model-error"
    | .ok cs =>
      let alignTok (l : List Int) : List Int :=
        let li := toks l
        joinToks (if al == Gen.alignLeft then Spec.alignLeft tkA w li
          else if al == Gen.alignRight then Spec.alignRight tkA w li
          else Spec.alignCenter tkA w li)
      let exp := joinWith od.paraSep (cs.map fun (p, _, _) => Spec.apply p sep false (fun _ l => [alignTok l]))
      if exp == out then "ok"
      else s!"fail:C13 paragraph mode: the lines of a paragraph are not padded as specified (or a line/separator was lost); expected {showText exp}"

def checkCollapse (text : List Int) (od : Options Int) (out : List Int) : String :=
  -- single U+0020 spaces are the only whitespace
  let o := toks out
  if o.any (fun c => tkA.ws c && c != [0x20]) then
    (if !wsStable ([0x20] ++ flatText text od.lineSep ++ [0x20]) then "fail:C07 not-WsStable input: whitespace other than single U+0020 remains"
     else "fail:C07 whitespace other than U+0020 remains after CollapseSpace")
  else if (gapRuns out).any (· > 1) then "fail:C07 adjacent spaces remain after CollapseSpace"
  else checkNonWs "CollapseSpace" od.lineSep text out false

/-- remove the indent prefix from every line -/
def stripIndent (out : List Int) (od : Options Int) (level : Int) : Option (List Int) :=
  if level < 1 then some out
  else
    let ind := (List.replicate level.toNat od.indentStr).flatten
    let ps := splitOn out od.lineSep
    let n := ps.length
    let stripped := (List.range n).mapM fun i =>
      let l := ps.getD i []
      if ind.isPrefixOf l then some (l.drop ind.length)
      else if i + 1 == n ∧ l.isEmpty then some l else none
    stripped.map (joinWith od.lineSep)

/-- a separator that overlaps itself ("--", "||": a proper prefix is also a suffix).  Where the
text next to it holds a piece of it ("a-" ++ "--" ++ "b") the output has no unique decomposition
into lines, so the line-wise clauses of C06/C07/C12/C13 cannot be evaluated on it (the
line-count theorems need `Unbordered` for the same reason, see Model/OpsStructure.lean).  The
correspondence check still covers these separators exactly. -/
def bordered (s : List Int) : Bool :=
  ((List.range s.length).any fun k => k > 0 && s.take k == s.drop (s.length - k)) ||
  -- a separator made of spaces only cannot be told from padding either
  (!s.isEmpty && s.all (· == 0x20))

/-- the pieces between the occurrences of a self-overlapping separator ("\n\n", "||") are the same under every
reading when none of them begins with the separator's last atom or ends with its first -/
def cleanSplit (s : List Int) (pieces : List (List Int)) : Bool :=
  !bordered s || pieces.all fun p => p.head? != s.getLast? && p.getLast? != s.head?

/-- C12 in paragraph mode for a paragraph separator with affixes (parts that share a line with the
neighbouring paragraphs; the code pads a paragraph with stand-ins of the affixes' widths while it justifies,
and takes them out again by count), default trailing policy, piece by piece (the pieces of C11): the number
of lines is unchanged; the last line of the padded piece is untouched unless JustifyLastLine; a line that
shares no line with an affix is justified as specified.  Lines that carry stand-ins are not constrained.
(Defect D18, second site: stand-ins that occur in the line separator were split off as lines of their own and
the paragraph's last line was justified.) -/
def checkJustifyAffix (text : List Int) (w : Int) (od : Options Int) (out : List Int) : String :=
  let sep := od.lineSep
  if od.noTrailing then "skip:non-default-trailing-policy"
  else if sep.isEmpty ∨ bordered sep ∨ !sepsIndependent od ∨
      (od.paraSep ++ sep) == (sep ++ od.paraSep) ∨ sep.head? == some 0x20 ∨ sep.getLast? == some 0x20 then
    "skip:paragraph-separator-with-affixes"
  else
    match paraCalls (.root text od) od with
    | .error _ => "skip:paragraph-decomposition"
    | .ok cs =>
      let qs := splitOn out od.paraSep
      if joinWith od.paraSep (cs.map (·.1)) != text ∨ qs.length != cs.length ∨
          !cleanSplit od.paraSep (cs.map (·.1) ++ qs) then "skip:paragraph-decomposition"
      else if !stableDom [text] [sep, od.paraSep] then "skip:not-stable"
      else Id.run do
        for ((p, pre, suf), q) in cs.zip qs do
          let ins := splitOn p sep
          let outs := splitOn q sep
          if ins.length != outs.length then return "fail:C12 number of lines of a paragraph changed (paragraph mode, separator with affixes)"
          let np := (toks pre).length
          let ns := (toks suf).length
          -- tb.New drops one empty last line (the text ends with a separator)
          let lastIdx := if ns == 0 ∧ ins.length > 1 ∧ (ins.getLastD []).isEmpty then ins.length - 2 else ins.length - 1
          for ((li, lo), j) in (ins.zip outs).zipIdx do
            if j ≥ lastIdx ∧ (!od.justifyLast ∨ j > lastIdx) then
              if li != lo then return "fail:C12 last line of a paragraph was touched (paragraph mode, separator with affixes)"
            else if (j == 0 ∧ np > 0) ∨ (j + 1 == ins.length ∧ ns > 0) then pure ()
            else
              match checkJustifyLine w li lo with
              | some e => return "fail:" ++ e ++ " (paragraph mode, separator with affixes)"
              | none => pure ()
        return "ok"

/-- per-step layout checks for property `pid` -/
def layoutStep (pid : String) (a : List String) (src : Obs) (res : Obs) : String :=
  match src with
  | .ed text so _ _ =>
    let parasOn (od : Options Int) := od.preservePara
    let sepOf (o : String) : List Int := match effOpts so o with | some od => od.lineSep | none => []
    let lineWise := match a with
      | ["wrap", _, _, o] => bordered (sepOf o)
      | ["justify", _, _, o] => bordered (sepOf o)
      | ["align", _, _, _, o] => bordered (sepOf o)
      | ["collapse", _, o] => bordered (sepOf o)
      | ["indent", _, _, o] => bordered (sepOf o)
      | _ => false
    -- a line separator made of spaces only: lines are undefined, but whether the NON-WHITESPACE clusters
    -- survive (C07) does not depend on the decomposition into lines (finding D19)
    let blankSep := match a with
      | ["wrap", _, _, o] | ["justify", _, _, o] | ["collapse", _, o] | ["align", _, _, _, o] =>
        let sp := sepOf o; !sp.isEmpty && sp.all (· == 0x20) && pid == "C07"
      | _ => false
    if (lineWise && !blankSep) then (match res with | .err k => s!"fail:C18 operation failed ({k})" | _ => "skip:bordered-separator") else
    match a, res with
    | ["wrap", _, w, o], .ed out _ _ _ =>
      match parseInt w, effOpts so o with
      | some w, some od =>
        if parasOn od then (if pid == "C07" then checkNonWsPara "Wrap" od text out true w else "skip:paragraph-mode")
        else if pid == "C06" then checkWrap text w od out
        else if pid == "C07" then checkNonWs "Wrap" od.lineSep text out true
        else "skip:op"
      | _, _ => "skip:parse"
    | ["justify", _, w, o], .ed out _ _ _ =>
      match parseInt w, effOpts so o with
      | some w, some od =>
        if parasOn od then (if pid == "C07" then checkNonWsPara "Justify" od text out false
          else if pid == "C12" then
            (let r := checkJustifyPara text w od out
             if r == "skip:paragraph-separator-with-affixes" then checkJustifyAffix text w od out else r)
          else "skip:paragraph-mode")
        else if pid == "C12" then checkJustify text w od out
        else if pid == "C07" then checkNonWs "Justify" od.lineSep text out false
        else "skip:op"
      | _, _ => "skip:parse"
    | ["align", _, al, w, o], .ed out _ _ _ =>
      match parseInt al, parseInt w, effOpts so o with
      | some al, some w, some od =>
        if parasOn od ∧ al ≥ 1 ∧ al ≤ 3 then (if pid == "C07" then checkNonWsPara "Align" od text out false
          else if pid == "C13" then checkAlignPara text al w od out else "skip:paragraph-mode")
        else if pid == "C13" then checkAlign text al w od out
        else if pid == "C07" then checkNonWs "Align" od.lineSep text out false
        else "skip:op"
      | _, _, _ => "skip:parse"
    | ["collapse", _, o], .ed out _ _ _ =>
      match effOpts so o with
      | some od => if pid == "C07" then checkCollapse text od out else "skip:op"
      | none => "skip:parse"
    | ["indent", _, lv, o], .ed out _ _ _ =>
      match parseInt lv, effOpts so o with
      | some lv, some od =>
        if pid != "C07" then "skip:op"
        else if parasOn od then "skip:paragraph-mode"
        else match stripIndent out od lv with
          | some t => if t == text then "ok" else "fail:C07 Indent changed more than the documented prefix"
          | none => "fail:C07 Indent: a line lacks the documented prefix"
      | _, _ => "skip:parse"
    | _, .err k => s!"fail:C18 operation failed ({k})"
    | _, _ => "skip:op"
  | _ => "skip:src"

/-- walk a program and apply `layoutStep` to every layout step; first failure wins -/
def walkLayout (pid : String) (steps goAll : String) : String := Id.run do
  let ss := steps.splitOn ";"
  let gs := (goAll.splitOn ";").map fun g => (g.splitOn "#").headD ""
  if ss.length != gs.length then return "fail:observation count differs"
  let obs := gs.map parseObs
  let mut verdict := "skip:no-step-in-scope"
  for (st, k) in ss.zipIdx do
    let a := st.splitOn ","
    let op := a.headD ""
    if ["wrap", "justify", "align", "collapse", "indent"].contains op then
      match (a.getD 1 "").toNat? with
      | some si =>
        let r := layoutStep pid a (obs.getD si (.err "dep")) (obs.getD k (.err "dep"))
        if r.startsWith "fail" then return r ++ s!" (step {k})"
        if r == "ok" then verdict := "ok"
      | none => pure ()
  return verdict

end RosedVerif.Driver
