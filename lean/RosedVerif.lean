import RosedVerif.Gem.Ranges
import RosedVerif.Gem.Cls
import RosedVerif.Gem.Concrete
import RosedVerif.Gem.TableProofs
import RosedVerif.Gem.Rules
import RosedVerif.Gem.RulesLemmas
