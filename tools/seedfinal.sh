#!/bin/bash
# re-run every kept seeded change against the current machinery and /repo HEAD
# (sequential: each change is applied to /repo, checked, and undone)
out=/verif/work/seed_final; mkdir -p $out
for d in /verif/seeded/C*; do
  n=$(basename $d)
  [ -s $out/$n.json ] && continue
  tmp=/tmp/seedin_$n; rm -rf $tmp; mkdir -p $tmp
  cp $d/patch.diff $tmp/$n.patch.diff; cp $d/demo_test.go $tmp/${n}_demo_test.go
  python3 - "$d/meta.json" "$tmp/$n.meta.json" <<'PY'
import json,sys
m=json.load(open(sys.argv[1]))
json.dump({"property":m.get("breaks_property"),"summary":m.get("what"),"needs":m.get("needs_to_manifest"),"demo_dir":m.get("demo_dir",".")},open(sys.argv[2],"w"))
PY
  props=$(python3 -c "
import json;m=json.load(open('$d/meta.json'));own='$n'[:3];ks=[own]+[k for k in m.get('our_checks',{}) if k!=own];print(' '.join(ks))")
  cp $d/meta.json /tmp/seedmeta_$n.json
  python3 /verif/tools/seedtest.py $tmp $n $props > $out/$n.json 2>$out/$n.err
  # seedtest rewrites seeded/<n>/meta.json with this pass only: keep the union via seedtable later
  rm -rf $tmp
  echo "$n done"
done
