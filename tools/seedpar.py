#!/usr/bin/env python3
"""Confirm seeded changes and run our checks against them IN PARALLEL, without touching /repo:
each worker has a private copy of /verif (under /tmp) and checks a patched scratch worktree through
VERIF_REPO.  usage: seedpar.py <workers> <dir-with-out-Cxx-subdirs> [name ...]
Results: /verif/work/seed_results/<name>.json ; kept changes are copied to /verif/seeded/<name>/."""
import sys, os, subprocess, json, shutil, glob, time
from concurrent.futures import ThreadPoolExecutor
import queue

env = dict(os.environ, GOFLAGS="-mod=mod", GOPROXY="off", GOSUMDB="off", GOTOOLCHAIN="local")
EXTRA = {"C01": ["C19"], "C02": [], "C03": [], "C04": ["C05"], "C05": ["C08"], "C06": ["C07"], "C07": ["C13", "C12"],
         "C08": ["C20"], "C09": [], "C10": [], "C11": ["C07"], "C12": ["C17"], "C13": [], "C14": ["C15"], "C15": [],
         "C16": ["C17"], "C17": [], "C18": [], "C19": [], "C20": ["C08", "C05"]}


def sh(cmd, cwd=None, e=None, **kw):
    p = subprocess.run(cmd, cwd=cwd, shell=isinstance(cmd, str), stdout=subprocess.PIPE, stderr=subprocess.STDOUT,
                       env=e or env, **kw)
    return p.returncode, p.stdout.decode("utf-8", "replace")


def one(out, name, vcopy):
    pid = name[:3]
    patch = os.path.join(out, name + ".patch.diff")
    demo = os.path.join(out, name + "_demo_test.go")
    meta = json.load(open(os.path.join(out, name + ".meta.json")))
    ddir = meta.get("demo_dir", ".")
    flags = meta.get("demo_flags", "")
    wt = "/tmp/sp_" + name
    sh(["git", "-C", "/repo", "worktree", "remove", "--force", wt])
    sh(["git", "-C", "/repo", "worktree", "add", "--detach", wt, "HEAD"])
    res = {"name": name, "property": meta.get("property"), "summary": meta.get("summary"), "needs": meta.get("needs")}
    genv = dict(env, CGO_ENABLED="1") if "-race" in flags else env
    try:
        dpath = os.path.join(wt, ddir, "zz_demo_%s_test.go" % name)
        shutil.copy(demo, dpath)
        rc, o = sh("go test %s -count=1 -run 'TestDemo' ./%s/ 2>&1 | tail -5" % (flags, ddir), cwd=wt, e=genv)
        res["demo_passes_without_change"] = ("ok" in o and "FAIL" not in o)
        os.remove(dpath)
        rc, o = sh(["git", "apply", patch], cwd=wt)
        res["patch_applies"] = rc == 0
        rc, o = sh("go build ./... && go test -count=1 ./... 2>&1 | tail -8", cwd=wt)
        res["suite_passes_with_change"] = rc == 0 and "FAIL" not in o
        shutil.copy(demo, dpath)
        rc, o = sh("go test %s -count=1 -run 'TestDemo' ./%s/ 2>&1 | tail -25" % (flags, ddir), cwd=wt, e=genv)
        res["demo_fails_with_change"] = "FAIL" in o
        res["demo_output_tail"] = o[-800:]
        os.remove(dpath)
        res["checks"] = {}
        if all(res.get(k) for k in ("demo_passes_without_change", "patch_applies", "suite_passes_with_change",
                                    "demo_fails_with_change")):
            for p in [pid] + EXTRA.get(pid, []):
                t0 = time.time()
                rc, o = sh([os.path.join(vcopy, "check"), p, os.environ.get("SEED_TIER", "quick")], cwd=vcopy,
                           e=dict(env, VERIF_REPO=wt))
                line = [l for l in o.split("\n") if l.startswith("VIOLATION") or l.startswith("OK")]
                res["checks"][p] = {"rc": rc, "line": (line[-1] if line else o[-300:]).replace(vcopy, "/verif"),
                                    "wall": round(time.time() - t0, 1)}
                if rc == 1 and line and "replay=" in line[-1]:
                    rp = line[-1].split("replay=")[1].split()[0]
                    try:
                        r = json.load(open(rp))
                        res["checks"][p]["replay"] = {k: (str(v)[:700]) for k, v in r.items()
                                                      if k in ("cases", "oracle", "no_longer_checks", "go_output")}
                    except Exception:
                        pass
    finally:
        sh(["git", "-C", "/repo", "worktree", "remove", "--force", wt])
    os.makedirs("/verif/work/seed_results", exist_ok=True)
    json.dump(res, open("/verif/work/seed_results/%s.json" % name, "w"), indent=1, ensure_ascii=False)
    confirmed = {k: res.get(k) for k in ("demo_passes_without_change", "patch_applies", "suite_passes_with_change",
                                         "demo_fails_with_change")}
    if all(confirmed.values()):
        sd = "/verif/seeded/" + name
        os.makedirs(sd, exist_ok=True)
        shutil.copy(patch, os.path.join(sd, "patch.diff"))
        shutil.copy(demo, os.path.join(sd, "demo_test.go"))
        json.dump({"breaks_property": meta.get("property"), "what": meta.get("summary"),
                   "needs_to_manifest": meta.get("needs"), "demo_dir": ddir, "demo_flags": flags, "kind": meta.get("kind"),
                   "confirmed": confirmed,
                   "ran": ["go build ./... && go test -count=1 ./... (scratch worktree, with and without patch, with and "
                           "without demo)"] + ["VERIF_REPO=<patched worktree> ./check %s %s" % (p, os.environ.get("SEED_TIER", "quick"))
                                                for p in res["checks"]],
                   "our_checks": res["checks"]}, open(os.path.join(sd, "meta.json"), "w"), indent=1, ensure_ascii=False)
    return name, confirmed, {p: c["line"][:110] for p, c in res.get("checks", {}).items()}


def main():
    nw = int(sys.argv[1])
    base = sys.argv[2]
    names = sys.argv[3:]
    jobs = []
    for m in sorted(glob.glob(os.path.join(base, "out-C*", "*.meta.json")) + glob.glob(os.path.join(base, "*.meta.json"))):
        n = os.path.basename(m)[:-len(".meta.json")]
        if names and n not in names:
            continue
        if not names and os.path.exists("/verif/work/seed_results/%s.json" % n):
            continue
        jobs.append((os.path.dirname(m), n))
    copies = queue.Queue()
    for w in range(nw):
        vc = "/tmp/vcopy_%d_%d" % (os.getpid(), w)
        sh(["rsync", "-a", "--delete", "--exclude", "work/", "--exclude", "replays/", "--exclude", ".git/",
            "--exclude", "seeded/", "/verif/", vc + "/"])
        copies.put(vc)

    def run(job):
        vc = copies.get()
        try:
            r = one(job[0], job[1], vc)
        except Exception as ex:
            r = (job[1], "ERROR", str(ex))
        finally:
            copies.put(vc)
        print(json.dumps(r, ensure_ascii=False), flush=True)
        return r
    with ThreadPoolExecutor(max_workers=nw) as ex:
        list(ex.map(run, jobs))
    for w in range(nw):
        shutil.rmtree("/tmp/vcopy_%d_%d" % (os.getpid(), w), ignore_errors=True)


if __name__ == "__main__":
    main()
