#!/usr/bin/env python3
"""Behaviour-preserving rewrites, in parallel: every listed check must stay quiet.
usage: harmpar.py <workers> <dir-with-NAME.diff/NAME.json> [name ...]
Each worker has a private copy of /verif and checks a patched scratch worktree through VERIF_REPO; /repo is
never touched. A rewrite is kept (copied to /verif/seeded/harmless/) when it applies and the unedited suite
passes with it. Results: /verif/work/harm_results/<name>.json"""
import sys, os, subprocess, json, glob, shutil, queue, time
from concurrent.futures import ThreadPoolExecutor

env = dict(os.environ, GOFLAGS="-mod=mod", GOPROXY="off", GOSUMDB="off", GOTOOLCHAIN="local")
# which checks a rewrite in a given source area can affect (area = second digit of the name H1x)
AREA = {"H11": ["C06", "C07", "C03", "C14", "C15", "C18"], "H12": ["C12", "C13", "C07", "C16"],
        "H13": ["C16", "C17", "C18"], "H14": ["C04", "C05", "C08", "C10", "C18"],
        "H15": ["C09", "C10", "C07", "C17", "C04"], "H16": ["C13", "C12", "C06", "C07", "C11", "C17"],
        "H17": ["C14", "C15", "C16", "C17", "C18"], "H18": ["C01", "C19", "C20", "C02"]}


def sh(cmd, cwd=None, e=None):
    p = subprocess.run(cmd, cwd=cwd, shell=isinstance(cmd, str), stdout=subprocess.PIPE, stderr=subprocess.STDOUT, env=e or env)
    return p.returncode, p.stdout.decode("utf-8", "replace")


def one(base, name, vc):
    diff = os.path.join(base, name + ".diff")
    wt = "/tmp/hw_" + name
    sh(["git", "-C", "/repo", "worktree", "remove", "--force", wt])
    sh(["git", "-C", "/repo", "worktree", "add", "--detach", wt, "HEAD"])
    res = {"name": name, "checks": {}}
    try:
        rc, o = sh(["git", "apply", diff], cwd=wt)
        res["applies"] = rc == 0
        rc, o = sh("go build ./... && go vet ./... && go test -count=1 ./... 2>&1 | tail -6", cwd=wt)
        res["suite_passes"] = rc == 0 and "FAIL" not in o
        if res["applies"] and res["suite_passes"]:
            for p in AREA.get(name[:3], []):
                t0 = time.time()
                # no widened search: it only looks for failing inputs, and would cost minutes per check
                rc, o = sh([vc + "/check", p, "quick"], cwd=vc, e=dict(env, VERIF_REPO=wt, VERIF_ESCALATE_S="0"))
                line = [l for l in o.split("\n") if l.startswith("VIOLATION") or l.startswith("OK")]
                c = {"rc": rc, "line": (line[-1] if line else o[-300:])[:200].replace(vc, "/verif"), "wall": round(time.time() - t0, 1)}
                if rc != 0 and line and "replay=" in line[-1]:
                    try:
                        r = json.load(open(line[-1].split("replay=")[1].split()[0]))
                        c["replay"] = {k: str(v)[:900] for k, v in r.items() if k in ("no_longer_checks", "cases", "oracle", "correspondence_diverges")}
                    except Exception:
                        pass
                res["checks"][p] = c
    finally:
        sh(["git", "-C", "/repo", "worktree", "remove", "--force", wt])
    os.makedirs("/verif/work/harm_results", exist_ok=True)
    json.dump(res, open("/verif/work/harm_results/%s.json" % name, "w"), indent=1)
    if res.get("applies") and res.get("suite_passes"):
        os.makedirs("/verif/seeded/harmless", exist_ok=True)
        shutil.copy(diff, "/verif/seeded/harmless/%s.diff" % name)
        mj = os.path.join(base, name + ".json")
        if os.path.exists(mj):
            shutil.copy(mj, "/verif/seeded/harmless/%s.json" % name)
    return name, res.get("applies"), res.get("suite_passes"), {p: c["line"][:60] for p, c in res["checks"].items()}


def main():
    nw, base, names = int(sys.argv[1]), sys.argv[2], sys.argv[3:]
    jobs = []
    for d in sorted(glob.glob(os.path.join(base, "*.diff"))):
        n = os.path.basename(d)[:-5]
        if names and n not in names:
            continue
        if not names and os.path.exists("/verif/work/harm_results/%s.json" % n):
            continue
        jobs.append(n)
    copies = queue.Queue()
    for w in range(nw):
        vc = "/tmp/vcopyh_%d_%d" % (os.getpid(), w)
        sh(["rsync", "-a", "--delete", "--exclude", "work/", "--exclude", "replays/", "--exclude", ".git/",
            "--exclude", "seeded/", "/verif/", vc + "/"])
        copies.put(vc)

    def run(n):
        vc = copies.get()
        try:
            r = one(base, n, vc)
        except Exception as ex:
            r = (n, "ERROR", str(ex))
        finally:
            copies.put(vc)
        print(json.dumps(r), flush=True)
    with ThreadPoolExecutor(max_workers=nw) as ex:
        list(ex.map(run, jobs))
    for w in range(nw):
        shutil.rmtree("/tmp/vcopyh_%d_%d" % (os.getpid(), w), ignore_errors=True)


if __name__ == "__main__":
    main()
