#!/usr/bin/env python3
"""Development helper (not run by the checks): restate a lemma from a Model/ lemma file as a
property theorem in Props/Cxx.lean, with the identical statement, proved by the lemma.
usage: restate.py <lemma-file> <lemma> <props-file> <new-name> <docstring-file> [extra-binders]"""
import re, sys
src, lemma, props, new, docf = sys.argv[1:6]
extra = sys.argv[6] if len(sys.argv) > 6 else ""
s = open(src).read()
m0 = re.search(r"^theorem (?:_root_\.RosedVerif\.)?" + re.escape(lemma) + r"\b", s, flags=re.M)
assert m0, "lemma not found"
rest = s[m0.end():]
# the signature ends at the first `:=` at bracket depth 0 that is not a `let … :=` binding
depth = 0; end = None; k = 0
while k < len(rest):
    c = rest[k]
    if c in "([{⟨": depth += 1
    elif c in ")]}⟩": depth -= 1
    elif rest.startswith(":=", k) and depth == 0:
        line = rest[rest.rfind("\n", 0, k) + 1:k]
        if not re.search(r"\blet\b[^;]*$", line):
            end = k; break
        k += 1
    k += 1
assert end is not None
sig = rest[:end].rstrip()
# split binders from statement: walk brackets
i = 0; depth = 0; binders = []; start = None
while i < len(sig):
    c = sig[i]
    if c in "([{":
        if depth == 0: start = i
        depth += 1
    elif c in ")]}":
        depth -= 1
        if depth == 0: binders.append(sig[start:i + 1])
    elif c == ":" and depth == 0:
        break
    i += 1
stmt = sig[i + 1:].strip()
names = []
for b in binders:
    if b[0] == "(":
        names += b[1:b.index(":")].split()
pre = []
for b in re.findall(r"\(([^():]*:[^()]*)\)", extra):
    pre += b[:b.index(":")].split()
names = pre + names
doc = open(docf).read().strip()
out = "/-- %s -/\ntheorem %s %s %s :\n    %s :=\n  %s %s\n" % (
    doc, new, extra, "\n    ".join(binders), stmt, lemma, " ".join(names))
p = open(props).read()
assert "end RosedVerif.Props" in p
k = p.rindex("end RosedVerif.Props")
p = p[:k] + out + "\n" + p[k:]
open(props, "w").write(p)
print("added", new, "binders:", names)
