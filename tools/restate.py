#!/usr/bin/env python3
"""Development helper (not run by the checks): restate a lemma from a Model/ lemma file as a
property theorem in Props/Cxx.lean, with the identical statement, proved by the lemma.
usage: restate.py <lemma-file> <lemma> <props-file> <new-name> <docstring-file> [extra-binders]"""
import re, sys
src, lemma, props, new, docf = sys.argv[1:6]
extra = sys.argv[6] if len(sys.argv) > 6 else ""
s = open(src).read()
m = re.search(r"^theorem (?:_root_\.RosedVerif\.)?" + re.escape(lemma) + r"\b(.*?):=\s*(?:by\b)?", s, flags=re.S | re.M)
assert m, "lemma not found"
sig = m.group(1).rstrip()
# split binders from statement: walk brackets
i = 0; depth = 0; binders = []; start = None
while i < len(sig):
    c = sig[i]
    if c in "([{":
        if depth == 0: start = i
        depth += 1
    elif c in ")]}":
        depth -= 1
        if depth == 0: binders.append(sig[start:i + 1])
    elif c == ":" and depth == 0:
        break
    i += 1
stmt = sig[i + 1:].strip()
names = []
for b in binders:
    if b[0] == "(":
        names += b[1:b.index(":")].split()
pre = []
for b in re.findall(r"\(([^():]*:[^()]*)\)", extra):
    pre += b[:b.index(":")].split()
names = pre + names
doc = open(docf).read().strip()
out = "/-- %s -/\ntheorem %s %s %s :\n    %s :=\n  %s %s\n" % (
    doc, new, extra, "\n    ".join(binders), stmt, lemma, " ".join(names))
p = open(props).read()
assert "end RosedVerif.Props" in p
k = p.rindex("end RosedVerif.Props")
p = p[:k] + out + "\n" + p[k:]
open(props, "w").write(p)
print("added", new, "binders:", names)
