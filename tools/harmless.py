#!/usr/bin/env python3
"""Behaviour-preserving rewrites of /repo (seeded/harmless/*.diff): every listed check must stay quiet.
usage: harmless.py [name-prefix ...]   (runs in a private copy of /verif through VERIF_REPO; /repo untouched)"""
import sys, os, subprocess, json, glob, shutil
env = dict(os.environ, GOFLAGS="-mod=mod", GOPROXY="off", GOSUMDB="off", GOTOOLCHAIN="local")
PROPS = {"H1": ["C01", "C19"], "H2": ["C04", "C09", "C10"], "H3": ["C13", "C16", "C07"], "H4": ["C14", "C15"],
         "H5": ["C08", "C17", "C20"], "H6": ["C02", "C01"], "H7": ["C02", "C01"], "H8": ["C09"], "H9": ["C06", "C12"]}
def sh(cmd, cwd=None, e=None):
    p = subprocess.run(cmd, cwd=cwd, shell=isinstance(cmd, str), stdout=subprocess.PIPE, stderr=subprocess.STDOUT, env=e or env)
    return p.returncode, p.stdout.decode("utf-8", "replace")
vc = "/tmp/vcopy_h"
sh(["rsync", "-a", "--delete", "--exclude", "work/", "--exclude", "replays/", "--exclude", ".git/", "--exclude", "seeded/", "/verif/", vc + "/"])
res = {}
for d in sorted(glob.glob("/verif/seeded/harmless/*.diff")):
    n = os.path.basename(d)
    if sys.argv[1:] and not any(n.startswith(a) for a in sys.argv[1:]):
        continue
    wt = "/tmp/hw_" + n[:2]
    sh(["git", "-C", "/repo", "worktree", "remove", "--force", wt])
    sh(["git", "-C", "/repo", "worktree", "add", "--detach", wt, "HEAD"])
    try:
        rc, o = sh(["git", "apply", d], cwd=wt)
        assert rc == 0, o
        rc, o = sh("go build ./... && go test -count=1 ./... 2>&1 | tail -6", cwd=wt)
        suite = rc == 0 and "FAIL" not in o
        res[n] = {"suite_passes": suite, "checks": {}}
        for p in PROPS.get(n[:2], []):
            rc, o = sh([vc + "/check", p, "quick"], cwd=vc, e=dict(env, VERIF_REPO=wt))
            line = [l for l in o.split("\n") if l.startswith("VIOLATION") or l.startswith("OK")]
            res[n]["checks"][p] = (line[-1] if line else o[-300:])[:160]
            if rc != 0 and "replay=" in (line[-1] if line else ""):
                rp = line[-1].split("replay=")[1].split()[0]
                try:
                    res[n]["checks"][p + "_replay"] = open(rp).read()[:1500]
                except OSError:
                    pass
            print(n, p, res[n]["checks"][p], flush=True)
    finally:
        sh(["git", "-C", "/repo", "worktree", "remove", "--force", wt])
shutil.rmtree(vc, ignore_errors=True)
os.makedirs("/verif/work", exist_ok=True)
json.dump(res, open("/verif/work/harmless_results.json", "w"), indent=1)
