#!/bin/bash
# unchanged-tree sweep: quick tier over several seeds; any line not starting with OK/KNOWN is an alarm
# usage: tools/sweep.sh seed...   (TIER=thorough for the thorough tier; works in a `vp run` snapshot after ./setup.sh)
cd "$(dirname "$0")/.."
for seed in "$@"; do
  for p in C01 C02 C03 C04 C05 C06 C07 C08 C09 C10 C11 C12 C13 C14 C15 C16 C17 C18 C19 C20; do
    VERIF_SEED=$seed ./check $p ${TIER:-quick} 2>&1 | grep -v "^KNOWN-FINDING" | sed "s/^/seed=$seed /" | cut -c1-200
  done
done
