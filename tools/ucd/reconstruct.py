#!/usr/bin/env python3
"""Provenance script (NOT run by the checks): rebuilds
data/ucd13/GraphemeBreakProperty-13.0.0.reconstructed.txt from the derivation
in UAX #29 rev. 37, Table 2, over the General_Category data of a Python whose
unicodedata is 13.0.0 (pyenv 3.9.18 / 3.10.13 in this sandbox).

Run:  /root/.pyenv/versions/3.9.18/bin/python3 tools/ucd/reconstruct.py > data/ucd13/GraphemeBreakProperty-13.0.0.reconstructed.txt
"""
import sys, unicodedata

assert unicodedata.unidata_version == "13.0.0", unicodedata.unidata_version

def rng(*spec):
    s = set()
    for x in spec:
        if isinstance(x, tuple):
            s.update(range(x[0], x[1] + 1))
        else:
            s.add(x)
    return s

# PropList-13.0.0: Other_Grapheme_Extend
OGE = rng(0x09BE, 0x09D7, 0x0B3E, 0x0B57, 0x0BBE, 0x0BD7, 0x0CC2, (0x0CD5, 0x0CD6),
          0x0D3E, 0x0D57, 0x0DCF, 0x0DDF, 0x1B35, 0x200C, (0x302E, 0x302F),
          (0xFF9E, 0xFF9F), 0x1133E, 0x11357, 0x114B0, 0x114BD, 0x115AF, 0x11930,
          0x1D165, (0x1D16E, 0x1D172), (0xE0020, 0xE007F))
EMOJI_MODIFIER = rng((0x1F3FB, 0x1F3FF))
# PropList-13.0.0: Prepended_Concatenation_Mark
PCM = rng((0x0600, 0x0605), 0x06DD, 0x070F, 0x08E2, 0x110BD, 0x110CD)
# IndicSyllabicCategory-13.0.0: Consonant_Preceding_Repha, Consonant_Prefixed
INSC_PREPEND = rng(0x0D4E, 0x11941, 0x11D46, (0x111C2, 0x111C3), 0x1193F, 0x11A3A,
                   (0x11A84, 0x11A89))
# unassigned Default_Ignorable_Code_Point (DerivedCoreProperties-13.0.0)
UNASSIGNED_DI = rng(0x2065, (0xFFF0, 0xFFF8), 0xE0000, (0xE0002, 0xE001F),
                    (0xE0080, 0xE00FF), (0xE01F0, 0xE0FFF))
# UAX #29 Table 2: SpacingMark exclusions and additions
SM_EXCL = rng(0x102B, 0x102C, 0x1038, (0x1062, 0x1064), (0x1067, 0x106D), 0x1083,
              (0x1087, 0x108C), 0x108F, (0x109A, 0x109C), 0x1A61, 0x1A63, 0x1A64,
              0xAA7B, 0xAA7D)
SM_ADD = rng(0x0E33, 0x0EB3)
RI = rng((0x1F1E6, 0x1F1FF))


def gcb(cp):
    gc = unicodedata.category(chr(cp)) if not (0xD800 <= cp <= 0xDFFF) else "Cs"
    if cp == 0x0D:
        return "CR"
    if cp == 0x0A:
        return "LF"
    if cp == 0x200D:
        return "ZWJ"
    if cp in PCM or cp in INSC_PREPEND:
        return "Prepend"
    if gc in ("Mn", "Me") or cp in OGE or cp in EMOJI_MODIFIER:
        return "Extend"
    if cp in RI:
        return "Regional_Indicator"
    if gc in ("Zl", "Zp", "Cc", "Cf") or (gc == "Cn" and cp in UNASSIGNED_DI):
        return "Control"
    if (gc == "Mc" or cp in SM_ADD) and cp not in SM_EXCL:
        return "SpacingMark"
    if 0x1100 <= cp <= 0x115F or 0xA960 <= cp <= 0xA97C:
        return "L"
    if 0x1160 <= cp <= 0x11A7 or 0xD7B0 <= cp <= 0xD7C6:
        return "V"
    if 0x11A8 <= cp <= 0x11FF or 0xD7CB <= cp <= 0xD7FB:
        return "T"
    if 0xAC00 <= cp <= 0xD7A3:
        return "LV" if (cp - 0xAC00) % 28 == 0 else "LVT"
    return None


def main():
    out = sys.stdout
    out.write("# GraphemeBreakProperty-13.0.0 (RECONSTRUCTED, see tools/ucd/reconstruct.py and DESIGN.md section 5)\n")
    out.write("# Not the authentic UCD file: derived from UAX #29 rev. 37 Table 2 over Python %s unicodedata %s\n"
              % (sys.version.split()[0], unicodedata.unidata_version))
    cur, start, prev = None, None, None
    rows = []
    for cp in range(0x110000 + 1):
        c = gcb(cp) if cp < 0x110000 else None
        if c != cur:
            if cur is not None:
                rows.append((start, prev, cur))
            cur, start = c, cp
        prev = cp
    order = ["Prepend", "CR", "LF", "Control", "Extend", "Regional_Indicator", "SpacingMark",
             "L", "V", "T", "LV", "LVT", "ZWJ"]
    for cls in order:
        n = 0
        for (a, b, c) in rows:
            if c == cls:
                n += b - a + 1
                out.write(("%04X          ; %s\n" % (a, c)) if a == b else ("%04X..%04X    ; %s\n" % (a, b, c)))
        out.write("\n# Total code points: %d\n\n" % n)


main()
