#!/bin/bash
# run the seed test over every delivered mutation (sequential: they modify /repo)
mkdir -p /verif/work/seed_results
for d in /tmp/mut/out-C*; do
  for m in $d/*.meta.json; do
    n=$(basename $m .meta.json)
    pid=${n:0:3}
    [ -f /verif/work/seed_results/$n.json ] && continue
    extra=""
    case $pid in
      C01) extra="C01 C19";; C02) extra="C02";; C04) extra="C04 C05";; C05) extra="C05 C08";;
      C06) extra="C06 C07";; C07) extra="C07 C13 C12";; C09) extra="C09";; C10) extra="C10";;
      C11) extra="C11 C07";; C12) extra="C12 C17";; C13) extra="C13";; C14) extra="C14 C15";;
      C16) extra="C16 C17";; C17) extra="C17";; C19) extra="C19";; C20) extra="C20 C08 C05";;
    esac
    python3 /verif/tools/seedtest.py $d $n $extra > /verif/work/seed_results/$n.json 2>/verif/work/seed_results/$n.err
    echo "$n done"
  done
done
