#!/usr/bin/env python3
"""Merge work/seed_results/<name>[.pN].json (later passes override earlier ones per property),
refresh seeded/<name>/meta.json 'our_checks', and print the markdown table for DESIGN.md 12.6."""
import json, glob, os, re
root = "/verif"
res = {}
for f in sorted(glob.glob(root + "/work/seed_final/*.json")):
    base = os.path.basename(f)[:-5]
    name = base.split(".")[0]
    try:
        d = json.load(open(f))
    except Exception:
        continue
    r = res.setdefault(name, {"summary": d.get("summary"), "needs": d.get("needs"), "checks": {}, "confirmed": True})
    for k in ("demo_passes_without_change", "patch_applies", "suite_passes_with_change", "demo_fails_with_change"):
        if not d.get(k):
            r["confirmed"] = False
    for p, c in d["checks"].items():
        r["checks"][p] = c
rows = []
for name in sorted(res):
    r = res[name]
    mp = os.path.join(root, "seeded", name, "meta.json")
    if os.path.exists(mp):
        m = json.load(open(mp))
        m["our_checks"] = r["checks"]
        m["ran"] = [x for x in m.get("ran", []) if not x.startswith("./check")] + ["./check %s quick" % p for p in r["checks"]]
        json.dump(m, open(mp, "w"), indent=1, ensure_ascii=False)
    def cell(p, c):
        if c["rc"] == 0:
            return p + ": ok"
        return p + ": VIOLATION" + (" (no-failing-input-found)" if "no-failing" in c["line"] else "")
    own = name[:3]
    order = sorted(r["checks"], key=lambda p: (p != own, p))
    clean = lambda s: re.sub(r"\s+", " ", (s or "")).replace("|", "/")
    rows.append("| %s | %s | %s | %s |" % (name, clean(r["summary"])[:150], clean(r["needs"])[:120], "; ".join(cell(p, r["checks"][p]) for p in order)))
print("| change | what was changed | needs | our checks (quick tier) |\n|---|---|---|---|")
print("\n".join(rows))
