#!/usr/bin/env python3
"""Confirm a seeded change (patch + demo) in a scratch worktree, then run our checks against it.
usage: seedtest.py <out-dir> <name e.g. C09a> <property ids...>"""
import sys, os, subprocess, json, shutil, glob, time
out, name = sys.argv[1], sys.argv[2]
props = sys.argv[3:]
env = dict(os.environ, GOFLAGS="-mod=mod", GOPROXY="off", GOSUMDB="off", GOTOOLCHAIN="local")
def sh(cmd, cwd=None, **kw):
    p = subprocess.run(cmd, cwd=cwd, shell=isinstance(cmd, str), stdout=subprocess.PIPE, stderr=subprocess.STDOUT, env=env, **kw)
    return p.returncode, p.stdout.decode("utf-8", "replace")
patch = os.path.join(out, name + ".patch.diff")
demo = os.path.join(out, name + "_demo_test.go")
meta = json.load(open(os.path.join(out, name + ".meta.json")))
ddir = meta.get("demo_dir", ".")
wt = "/tmp/sv_" + name
sh(["git", "-C", "/repo", "worktree", "remove", "--force", wt])
rc, o = sh(["git", "-C", "/repo", "worktree", "add", "--detach", wt, "HEAD"])
res = {"name": name, "property": meta.get("property"), "summary": meta.get("summary"), "needs": meta.get("needs")}
try:
    dpath = os.path.join(wt, ddir, "zz_demo_%s_test.go" % name)
    shutil.copy(demo, dpath)
    rc, o = sh("go test -count=1 ./%s/ 2>&1 | tail -5" % ddir, cwd=wt)
    res["demo_passes_without_change"] = ("ok" in o and "FAIL" not in o)
    os.remove(dpath)
    rc, o = sh(["git", "apply", patch], cwd=wt)
    res["patch_applies"] = rc == 0
    rc, o = sh("go build ./... && go test -count=1 ./... 2>&1 | tail -8", cwd=wt)
    res["suite_passes_with_change"] = rc == 0 and "FAIL" not in o
    shutil.copy(demo, dpath)
    rc, o = sh("go test -count=1 ./%s/ 2>&1 | tail -15" % ddir, cwd=wt)
    res["demo_fails_with_change"] = "FAIL" in o
    res["demo_output_tail"] = o[-600:]
finally:
    sh(["git", "-C", "/repo", "worktree", "remove", "--force", wt])
# run our checks against it
res["checks"] = {}
rc, o = sh(["git", "-C", "/repo", "status", "--short"])
assert o.strip() == "", "repo not clean: " + o
rc, o = sh(["git", "-C", "/repo", "apply", patch])
try:
    for p in props:
        t0 = time.time()
        rc, o = sh(["/verif/check", p, os.environ.get("SEED_TIER", "quick")], cwd="/verif")
        line = [l for l in o.split("\n") if l.startswith("VIOLATION") or l.startswith("OK")]
        res["checks"][p] = {"rc": rc, "line": (line[-1] if line else o[-300:]), "wall": round(time.time() - t0, 1)}
        if rc == 1 and line:
            rp = line[-1].split("replay=")[1].split()[0]
            try:
                r = json.load(open(rp))
                res["checks"][p]["replay"] = {k: (str(v)[:700]) for k, v in r.items() if k in ("cases", "oracle", "no_longer_checks", "go_output")}
            except Exception as e:
                pass
finally:
    sh(["git", "-C", "/repo", "checkout", "--", "."])
    rc, o = sh(["git", "-C", "/repo", "status", "--short"])
    assert o.strip() == "", "repo not clean after: " + o
print(json.dumps(res, indent=1, ensure_ascii=False))
sd = "/verif/seeded/" + name
os.makedirs(sd, exist_ok=True)
shutil.copy(patch, os.path.join(sd, "patch.diff"))
shutil.copy(demo, os.path.join(sd, "demo_test.go"))
json.dump({"breaks_property": meta.get("property"), "what": meta.get("summary"), "needs_to_manifest": meta.get("needs"),
           "demo_dir": ddir, "confirmed": {k: res.get(k) for k in ("demo_passes_without_change", "patch_applies", "suite_passes_with_change", "demo_fails_with_change")},
           "ran": ["go build ./... && go test -count=1 ./... (scratch worktree, with and without patch, with and without demo)"] + ["./check %s %s" % (p, os.environ.get("SEED_TIER", "quick")) for p in props],
           "our_checks": res["checks"]}, open(os.path.join(sd, "meta.json"), "w"), indent=1, ensure_ascii=False)
