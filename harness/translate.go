package main

// Translator: /repo source -> lean/RosedVerif/Gen/*.lean.
// Deliberately tiny and shape-specific (DESIGN.md section 4a).

import (
	"fmt"
	"go/ast"
	"go/parser"
	"go/token"
	"os"
	"path/filepath"
	"sort"
	"strconv"
	"strings"
	"unicode"

	"github.com/dekarrin/rosed"
	vh "github.com/dekarrin/rosed/verifhook"
)

type rng struct{ lo, hi int64 }

// predicate order = bit order of gem.VerifPreds
var predNames = []string{
	"isCbPrepend", "isCbCR", "isCbLF", "isCbControl", "isCbExtend",
	"isCbRegionalIndicator", "isCbSpacingMark", "isCbL", "isCbV", "isCbT",
	"isCbLV", "isCbLVT", "isCbZWJ", "isExtPicto",
}

// Lean constructor of Cls for each predicate (same order)
var predCls = []string{
	"prepend", "cr", "lf", "control", "extend", "ri", "spacing", "l", "v", "t", "lv", "lvt", "zwj", "extpict",
}

func intLit(e ast.Expr) (int64, bool) {
	switch v := e.(type) {
	case *ast.BasicLit:
		if v.Kind == token.INT {
			n, err := strconv.ParseInt(v.Value, 0, 64)
			return n, err == nil
		}
		if v.Kind == token.CHAR {
			r, _, _, err := strconv.UnquoteChar(v.Value[1:len(v.Value)-1], '\'')
			return int64(r), err == nil
		}
	case *ast.ParenExpr:
		return intLit(v.X)
	}
	return 0, false
}

func isIdent(e ast.Expr, name string) bool {
	id, ok := e.(*ast.Ident)
	return ok && id.Name == name
}

// one term: (lo <= r && r <= hi) | (r == c)
func parseTerm(e ast.Expr, param string) (rng, bool) {
	for {
		p, ok := e.(*ast.ParenExpr)
		if !ok {
			break
		}
		e = p.X
	}
	b, ok := e.(*ast.BinaryExpr)
	if !ok {
		return rng{}, false
	}
	switch b.Op {
	case token.EQL:
		if isIdent(b.X, param) {
			if c, ok := intLit(b.Y); ok {
				return rng{c, c}, true
			}
		}
		if isIdent(b.Y, param) {
			if c, ok := intLit(b.X); ok {
				return rng{c, c}, true
			}
		}
	case token.LAND:
		l, ok1 := b.X.(*ast.BinaryExpr)
		r, ok2 := b.Y.(*ast.BinaryExpr)
		if !ok1 || !ok2 {
			if p, ok := b.X.(*ast.ParenExpr); ok {
				l, ok1 = p.X.(*ast.BinaryExpr)
			}
			if p, ok := b.Y.(*ast.ParenExpr); ok {
				r, ok2 = p.X.(*ast.BinaryExpr)
			}
		}
		if ok1 && ok2 && l.Op == token.LEQ && r.Op == token.LEQ && isIdent(l.Y, param) && isIdent(r.X, param) {
			lo, oka := intLit(l.X)
			hi, okb := intLit(r.Y)
			if oka && okb {
				return rng{lo, hi}, true
			}
		}
	}
	return rng{}, false
}

func parseChain(e ast.Expr, param string, out *[]rng) bool {
	if p, ok := e.(*ast.ParenExpr); ok {
		if t, ok := parseTerm(p, param); ok {
			*out = append(*out, t)
			return true
		}
		return parseChain(p.X, param, out)
	}
	if b, ok := e.(*ast.BinaryExpr); ok && b.Op == token.LOR {
		return parseChain(b.X, param, out) && parseChain(b.Y, param, out)
	}
	if t, ok := parseTerm(e, param); ok {
		*out = append(*out, t)
		return true
	}
	return false
}

// extractTables returns for every predicate the ranges in source order and
// how they were obtained ("ast" or "exec").
func extractTables(repo string) (map[string][]rng, map[string]string, error) {
	fset := token.NewFileSet()
	f, err := parser.ParseFile(fset, filepath.Join(repo, "internal/gem/graphemeclusters.go"), nil, 0)
	if err != nil {
		return nil, nil, err
	}
	tabs := map[string][]rng{}
	how := map[string]string{}
	for _, d := range f.Decls {
		fd, ok := d.(*ast.FuncDecl)
		if !ok || fd.Recv != nil {
			continue
		}
		want := false
		for _, n := range predNames {
			if n == fd.Name.Name {
				want = true
			}
		}
		if !want {
			continue
		}
		if len(fd.Type.Params.List) == 1 && len(fd.Type.Params.List[0].Names) == 1 && len(fd.Body.List) == 1 {
			if ret, ok := fd.Body.List[0].(*ast.ReturnStmt); ok && len(ret.Results) == 1 {
				var rs []rng
				if parseChain(ret.Results[0], fd.Type.Params.List[0].Names[0].Name, &rs) {
					tabs[fd.Name.Name] = rs
					how[fd.Name.Name] = "ast"
				}
			}
		}
	}
	// fallback / validation by execution
	const lim = 0x10FFFF
	for i, n := range predNames {
		if _, ok := tabs[n]; ok {
			continue
		}
		// extraction by execution over 0..0x10FFFF
		var rs []rng
		start := int64(-1)
		for r := int64(0); r <= lim+1; r++ {
			in := r <= lim && vh.GemPreds(rune(r))&(1<<uint(i)) != 0
			if in && start < 0 {
				start = r
			}
			if !in && start >= 0 {
				rs = append(rs, rng{start, r - 1})
				start = -1
			}
		}
		tabs[n] = rs
		how[n] = "exec"
	}
	return tabs, how, nil
}

func inTab(t []rng, r int64) bool {
	for _, x := range t {
		if x.lo <= r && r <= x.hi {
			return true
		}
	}
	return false
}

// validateTables: translation validation by execution. Returns the number of
// points compared and the first mismatch (pred, r) if any.
func validateTables(tabs map[string][]rng) (int, string) {
	n := 0
	check := func(r int64) string {
		m := vh.GemPreds(rune(int32(r)))
		for i, p := range predNames {
			got := m&(1<<uint(i)) != 0
			if got != inTab(tabs[p], r) {
				return fmt.Sprintf("%s at %d: go=%v extracted=%v", p, r, got, !got)
			}
		}
		n++
		return ""
	}
	for r := int64(-70000); r <= 0x10FFFF+70000; r++ {
		if s := check(r); s != "" {
			return n, s
		}
	}
	for _, r := range []int64{-1 << 31, 1<<31 - 1, 1 << 16, -(1 << 16), 1 << 20, -(1 << 20), 1 << 21, -(1 << 21)} {
		if s := check(r); s != "" {
			return n, s
		}
	}
	return n, ""
}

type mergedEnt struct {
	lo, hi int64
	cls    int
}

// merged table: every code point 0..0x10FFFF gets the FIRST predicate (in
// predNames order, ExtPicto last) that accepts it; used only to build the fast
// lookup tree, whose agreement with the per-predicate tables is proved in Lean.
func buildMerged(tabs map[string][]rng) ([]mergedEnt, bool) {
	type ev struct {
		lo, hi int64
		cls int
	}
	var all []ev
	for i, p := range predNames {
		for _, x := range tabs[p] {
			lo, hi := x.lo, x.hi
			if lo < 0 {
				lo = 0
			}
			if hi > 0x7FFFFFFF {
				hi = 0x7FFFFFFF
			}
			if lo <= hi {
				all = append(all, ev{lo, hi, i})
			}
		}
	}
	sort.SliceStable(all, func(a, b int) bool { return all[a].lo < all[b].lo })
	disjoint := true
	var out []mergedEnt
	for _, e := range all {
		if len(out) > 0 && e.lo <= out[len(out)-1].hi {
			disjoint = false
			// keep the earlier entry's claim, trim this one
			if e.hi <= out[len(out)-1].hi {
				continue
			}
			e.lo = out[len(out)-1].hi + 1
		}
		if len(out) > 0 && out[len(out)-1].cls == e.cls && out[len(out)-1].hi+1 == e.lo {
			out[len(out)-1].hi = e.hi
			continue
		}
		out = append(out, mergedEnt{e.lo, e.hi, e.cls})
	}
	return out, disjoint
}

func treeTerm(ents []mergedEnt, sb *strings.Builder) {
	if len(ents) == 0 {
		sb.WriteString("L")
		return
	}
	m := len(ents) / 2
	sb.WriteString("(N ")
	treeTerm(ents[:m], sb)
	fmt.Fprintf(sb, " %d %d .%s ", ents[m].lo, ents[m].hi, predCls[ents[m].cls])
	treeTerm(ents[m+1:], sb)
	sb.WriteString(")")
}

func writeTables(dir string, tabs map[string][]rng, how map[string]string) (bool, error) {
	var sb strings.Builder
	sb.WriteString("-- GENERATED by harness translate from /repo/internal/gem/graphemeclusters.go. DO NOT EDIT.\n")
	sb.WriteString("import RosedVerif.Gem.Cls\nnamespace RosedVerif.Gen\nset_option maxRecDepth 100000\n\n")
	for _, p := range predNames {
		fmt.Fprintf(&sb, "/-- %s: ranges in source order (obtained by: %s) -/\ndef %sRanges : List (Nat × Nat) := [", p, how[p], p)
		first := true
		for _, x := range tabs[p] {
			// ranges entirely below 0 can never match a Nat; a negative lower
			// bound behaves like 0 for r >= 0 and is never true for r < 0 in
			// the model only if the Go code also rejects negatives: validated
			// by execution.
			lo, hi := x.lo, x.hi
			if hi < 0 {
				continue
			}
			if lo < 0 {
				lo = 0
			}
			if !first {
				sb.WriteString(", ")
			}
			first = false
			fmt.Fprintf(&sb, "(0x%X, 0x%X)", lo, hi)
		}
		sb.WriteString("]\n\n")
	}
	merged, disjoint := buildMerged(tabs)
	sb.WriteString("open RTree in\n/-- balanced lookup tree over the merged tables (agreement with the tables above is proved, not assumed) -/\ndef tree : RTree :=\n  ")
	// chunk the tree into sub-definitions to keep elaboration cheap
	treeTerm(merged, &sb)
	sb.WriteString("\n\n")
	fmt.Fprintf(&sb, "def tablesDisjointByTranslator : Bool := %v\n", disjoint)
	sb.WriteString("\nend RosedVerif.Gen\n")
	return disjoint, writeIfChanged(filepath.Join(dir, "Tables.lean"), sb.String())
}

func writeIfChanged(path, content string) error {
	old, err := os.ReadFile(path)
	if err == nil && string(old) == content {
		return nil
	}
	return os.WriteFile(path, []byte(content), 0o644)
}

func leanStr(s string) string {
	var sb strings.Builder
	sb.WriteString("[")
	for i, r := range []rune(s) {
		if i > 0 {
			sb.WriteString(", ")
		}
		fmt.Fprintf(&sb, "0x%X", r)
	}
	sb.WriteString("]")
	return sb.String()
}

// stdlib tables dumped from the Go toolchain actually in use
func writeStdlib(dir string) error {
	var sb strings.Builder
	sb.WriteString("-- GENERATED by harness translate from the Go toolchain's unicode package. DO NOT EDIT.\n")
	sb.WriteString("namespace RosedVerif.Gen\nset_option maxRecDepth 100000\n\n")
	sb.WriteString("/-- unicode.IsSpace -/\ndef isSpaceRanges : List (Nat × Nat) := [")
	start := -1
	first := true
	for r := 0; r <= 0x110000; r++ {
		in := r < 0x110000 && unicode.IsSpace(rune(r))
		if in && start < 0 {
			start = r
		}
		if !in && start >= 0 {
			if !first {
				sb.WriteString(", ")
			}
			first = false
			fmt.Fprintf(&sb, "(0x%X, 0x%X)", start, r-1)
			start = -1
		}
	}
	sb.WriteString("]\n\n")
	sb.WriteString("/-- unicode.ToUpper as (lo, hi, tlo) runs: r in [lo,hi] maps to tlo + (r - lo) (sorted by lo) -/\ndef toUpperRuns : List (Nat × Nat × Nat) := [")
	first = true
	runLo, runHi, runD := -1, -1, 0
	flush := func() {
		if runLo >= 0 {
			if !first {
				sb.WriteString(", ")
			}
			first = false
			fmt.Fprintf(&sb, "(0x%X, 0x%X, 0x%X)", runLo, runHi, runLo+runD)
		}
	}
	for r := 0; r < 0x110000; r++ {
		u := int(unicode.ToUpper(rune(r)))
		if u == r {
			continue
		}
		d := u - r
		if runLo >= 0 && r == runHi+1 && d == runD {
			runHi = r
			continue
		}
		flush()
		runLo, runHi, runD = r, r, d
	}
	flush()
	sb.WriteString("]\n\nend RosedVerif.Gen\n")
	return writeIfChanged(filepath.Join(dir, "Stdlib.lean"), sb.String())
}

func writeConsts(dir string, repo string) error {
	var sb strings.Builder
	sb.WriteString("-- GENERATED by harness translate from /repo (constants). DO NOT EDIT.\n")
	sb.WriteString("namespace RosedVerif.Gen\n\n")
	fmt.Fprintf(&sb, "def endSentinel : Int := %d\n", rosed.End)
	fmt.Fprintf(&sb, "def defaultIndentStr : List Int := %s\n", leanStr(rosed.DefaultIndentString))
	fmt.Fprintf(&sb, "def defaultLineSeparator : List Int := %s\n", leanStr(rosed.DefaultLineSeparator))
	fmt.Fprintf(&sb, "def defaultParagraphSeparator : List Int := %s\n", leanStr(rosed.DefaultParagraphSeparator))
	fmt.Fprintf(&sb, "def defaultTableCharSet : List Int := %s\n", leanStr(rosed.DefaultTableCharSet))
	fmt.Fprintf(&sb, "def alignNone : Int := %d\ndef alignLeft : Int := %d\ndef alignRight : Int := %d\ndef alignCenter : Int := %d\n",
		rosed.None, rosed.Left, rosed.Right, rosed.Center)
	fmt.Fprintf(&sb, "def zeroCachePrefilled : Bool := %v\n", vh.GemZeroFilled())
	sb.WriteString("\nend RosedVerif.Gen\n")
	return writeIfChanged(filepath.Join(dir, "Consts.lean"), sb.String())
}

func cmdTranslate(repo, outDir string) int {
	if err := os.MkdirAll(outDir, 0o755); err != nil {
		fmt.Println("translate: ", err)
		return 2
	}
	tabs, how, err := extractTables(repo)
	if err != nil {
		fmt.Println("translate: ", err)
		return 2
	}
	n, bad := validateTables(tabs)
	if bad != "" {
		// the AST shape was matched but does not mean what we think: fall back
		// to extraction by execution for everything.
		fmt.Println("translate: validation by execution failed (" + bad + "); falling back to extraction by execution")
		tabs = map[string][]rng{}
		how = map[string]string{}
		for _, p := range predNames {
			_ = p
		}
		t2, h2, _ := extractTablesExecOnly()
		tabs, how = t2, h2
	}
	disjoint, err := writeTables(outDir, tabs, how)
	if err != nil {
		fmt.Println("translate: ", err)
		return 2
	}
	if err := writeStdlib(outDir); err != nil {
		fmt.Println("translate: ", err)
		return 2
	}
	if err := writeConsts(outDir, repo); err != nil {
		fmt.Println("translate: ", err)
		return 2
	}
	factsMsg, err := writeFacts(outDir, repo)
	if err != nil {
		fmt.Println("translate: facts: ", err)
		return 2
	}
	rulesMsg, err := writeRules(outDir, repo)
	if err != nil {
		fmt.Println("translate: rules: ", err)
		return 2
	}
	intMsg, err := writeIntFns(outDir, repo)
	if err != nil {
		fmt.Println("translate: intfns: ", err)
		return 2
	}
	codeMsg, err := writeCode(outDir, repo)
	if err != nil {
		fmt.Println("translate: code: ", err)
		return 2
	}
	gemMsg, err := writeGemCode(outDir, repo)
	if err != nil {
		fmt.Println("translate: gemcode: ", err)
		return 2
	}
	hows := []string{factsMsg, rulesMsg, intMsg, codeMsg}
	hows = append(hows, gemMsg)
	for _, p := range predNames {
		hows = append(hows, p+"="+how[p]+":"+strconv.Itoa(len(tabs[p])))
	}
	fmt.Printf("translate: ok validated_points=%d disjoint=%v %s\n", n, disjoint, strings.Join(hows, " "))
	return 0
}

func extractTablesExecOnly() (map[string][]rng, map[string]string, error) {
	tabs := map[string][]rng{}
	how := map[string]string{}
	const lim = 0x10FFFF
	for i, n := range predNames {
		var rs []rng
		start := int64(-1)
		for r := int64(0); r <= lim+1; r++ {
			in := r <= lim && vh.GemPreds(rune(r))&(1<<uint(i)) != 0
			if in && start < 0 {
				start = r
			}
			if !in && start >= 0 {
				rs = append(rs, rng{start, r - 1})
				start = -1
			}
		}
		tabs[n] = rs
		how[n] = "exec"
	}
	return tabs, how, nil
}
