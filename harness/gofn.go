package main

// gofn: a typed translator from the Go subset /repo actually uses into Lean 4 definitions over the
// hand model's primitive vocabulary (lean/RosedVerif/Model/GoPrims.lean, namespace RosedVerif.Go).
// Output: lean/RosedVerif/Gen/Code.lean, regenerated on every run.  For every entry of gfSpecs either the
// translated definition + `<name>_extracted := true`, or a stub of the same type + `<name>_extracted := false`
// (the equality theorems in Model/GenCodeEq.lean then hold vacuously for that function).
//
// Scheme (an extension of intfn.go with types and the `R` monad):
//   * every translated function is monadic (`… : R τ`), a restricted `do`: `let x : τ := e`, `let x : τ ← e`,
//     `let t ← (if c then (do … pure vars) else (do … pure vars))` for an `if` that assigns,
//     continuation duplication for an `if` that returns or panics, `pure e`, `throw Err.explicit`;
//   * variables are re-bound by shadowing; two distinct Go objects with one name get distinct Lean names;
//   * monadic sub-expressions (indexing, slicing, calls that can panic, calls of translated functions) are
//     hoisted into temporaries in Go's left-to-right order; `a && b` / `a || b` with a monadic `b` become a
//     hoisted `if` (short circuit preserved);
//   * loops: `Go.whileM fuel cond body state` over the tuple of variables assigned in the loop, the fuel is a
//     Lean expression from the spec table; `for i, x := range xs` is `Go.forRangeM`;
//   * pointer parameters / pointer receivers named `inout` in the spec table are returned as extra results;
//   * closures passed to library functions are pure Lean lambdas;
//   * callee not in gfSpecs: looked up in gfPrims (Go primitive ↦ RosedVerif.Go.* or, for library functions
//     that are not translated, the hand model's function).  No mapping ⇒ the function is refused.
//     A caller of a refused function is refused too.

import (
	"regexp"
	"fmt"
	"go/ast"
	"go/constant"
	"go/token"
	"go/types"
	"math"
	"math/big"
	"path/filepath"
	"strings"

	"golang.org/x/tools/go/packages"
)

const gfMod = "github.com/dekarrin/rosed"

type gfSpec struct {
	pkg   string   // package path relative to the module ("" = root)
	recv  string   // receiver type name, "" for a plain function
	fn    string   // Go name
	lean  string   // name of the generated Lean definition
	inout []string // pointer parameters (or receiver) returned as extra results, in this order
	fuel  []string // fuel (Lean expression over the generated variable names) for each loop, in source order
}

var gfSpecs = []gfSpec{
	// internal/tb
	{pkg: "internal/tb", recv: "Block", fn: "Len", lean: "blockLen"},
	{pkg: "internal/tb", recv: "Block", fn: "Line", lean: "blockLine"},
	{pkg: "internal/tb", recv: "Block", fn: "CharCount", lean: "blockCharCount"},
	{pkg: "internal/tb", recv: "Block", fn: "Set", lean: "blockSet", inout: []string{"tb"}},
	{pkg: "internal/tb", recv: "Block", fn: "Append", lean: "blockAppend", inout: []string{"tb"}},
	{pkg: "internal/tb", recv: "Block", fn: "Join", lean: "blockJoin"},
	// T1: tb.New, Block.Apply
	{pkg: "internal/tb", fn: "New", lean: "blockNew"},
	{pkg: "internal/tb", recv: "Block", fn: "Apply", lean: "blockApply", inout: []string{"tb"}},
	// internal/manip, loop-free
	{pkg: "internal/manip", fn: "CountLeadingWhitespace", lean: "countLeadingWhitespace"},
	{pkg: "internal/manip", fn: "CountTrailingWhitespace", lean: "countTrailingWhitespace"},
	{pkg: "internal/manip", fn: "AlignLineLeft", lean: "alignLineLeft"},
	{pkg: "internal/manip", fn: "AlignLineRight", lean: "alignLineRight"},
	{pkg: "internal/manip", fn: "AlignLineCenter", lean: "alignLineCenter"},
	{pkg: "internal/manip", fn: "parseTableCharSet", lean: "parseTableCharSet"},
	// internal/manip, loops
	{pkg: "internal/manip", fn: "CollapseSpace", lean: "collapseSpace", fuel: []string{"v_text.length + 1"}},
	{pkg: "internal/manip", fn: "appendWordToWrappedLine", lean: "appendWordToWrappedLine", inout: []string{"lines"},
		fuel: []string{"2 * v_curWord.length + 2"}},
	{pkg: "internal/manip", fn: "Wrap", lean: "wrap", fuel: []string{"(clusters cx v_toConsume).length + 1"}},
	{pkg: "internal/manip", fn: "JustifyLine", lean: "justifyLine", fuel: []string{"v_spacesToAdd.toNat + 1"}},
	{pkg: "internal/manip", fn: "buildTable", lean: "buildTable",
		fuel: []string{"(v_colWidths.getD v_i.toNat 0).toNat + 1", "v_width.toNat + 1", "v_colWidths.length + 1"}},
	{pkg: "internal/manip", fn: "MakeTable", lean: "makeTable", fuel: []string{"v_colCount.toNat + 1"}},
	{pkg: "internal/manip", fn: "CombineColumnBlocks", lean: "combineColumnBlocks",
		fuel: []string{"v_left.lines.length + 1", "v_numLines.toNat + 1"}},
	// package rosed
	{pkg: "", recv: "Options", fn: "WithDefaults", lean: "optionsWithDefaults"},
	{pkg: "", fn: "Edit", lean: "edit"},
	{pkg: "", recv: "Editor", fn: "IsSubEditor", lean: "editorIsSubEditor"},
	{pkg: "", recv: "Editor", fn: "WithOptions", lean: "editorWithOptions"},
	{pkg: "", recv: "Editor", fn: "CharCount", lean: "editorCharCount"},
	{pkg: "", recv: "Editor", fn: "subEd", lean: "editorSubEd"},
	{pkg: "", recv: "Editor", fn: "Chars", lean: "editorChars"},
	{pkg: "", recv: "Editor", fn: "CharsFrom", lean: "editorCharsFrom"},
	{pkg: "", recv: "Editor", fn: "CharsTo", lean: "editorCharsTo"},
	{pkg: "", recv: "Editor", fn: "linesSep", lean: "editorLinesSep"},
	{pkg: "", recv: "Editor", fn: "lines", lean: "editorLines"},
	{pkg: "", recv: "Editor", fn: "LineCount", lean: "editorLineCount"},
	{pkg: "", recv: "Editor", fn: "Lines", lean: "editorLinesSel",
		fuel: []string{"v_start.toNat + 1", "(v_end - v_lineIdx).toNat + 1"}},
	{pkg: "", recv: "Editor", fn: "LinesFrom", lean: "editorLinesFrom"},
	{pkg: "", recv: "Editor", fn: "LinesTo", lean: "editorLinesTo"},
	{pkg: "", recv: "Editor", fn: "Commit", lean: "editorCommit"},
	{pkg: "", recv: "Editor", fn: "CommitAll", lean: "editorCommitAll", fuel: []string{"v_ed.depth + 1"}},
	{pkg: "", recv: "Editor", fn: "String", lean: "editorString"},
	{pkg: "", recv: "Editor", fn: "Insert", lean: "editorInsert"},
	{pkg: "", recv: "Editor", fn: "Delete", lean: "editorDelete"},
	{pkg: "", recv: "Editor", fn: "Overtype", lean: "editorOvertype"},
	{pkg: "", recv: "Editor", fn: "CollapseSpaceOpts", lean: "editorCollapseSpaceOpts"},
	{pkg: "", recv: "Editor", fn: "ApplyOpts", lean: "editorApplyOpts"},
	{pkg: "", recv: "Editor", fn: "applyGParagraphsOpts", lean: "editorApplyGParagraphsOpts"},
	{pkg: "", recv: "Editor", fn: "ApplyParagraphsOpts", lean: "editorApplyParagraphsOpts"},
	// the placeholder search: of |sep|+1 consecutive candidates one does not occur among the |sep| runes of the separator
	{pkg: "", fn: "affixPlaceholder", lean: "affixPlaceholder", fuel: []string{"v_lineSep.length + 1"}},
	{pkg: "", recv: "Editor", fn: "WrapOpts", lean: "editorWrapOpts"},
	{pkg: "", recv: "Editor", fn: "IndentOpts", lean: "editorIndentOpts"},
	{pkg: "", recv: "Editor", fn: "InsertTableOpts", lean: "editorInsertTableOpts"},
	{pkg: "", recv: "Editor", fn: "Wrap", lean: "editorWrap"},
	{pkg: "", recv: "Editor", fn: "Indent", lean: "editorIndent"},
	{pkg: "", recv: "Editor", fn: "CollapseSpace", lean: "editorCollapseSpace"},
	{pkg: "", recv: "Editor", fn: "Apply", lean: "editorApply"},
	{pkg: "", recv: "Editor", fn: "ApplyParagraphs", lean: "editorApplyParagraphs"},
	{pkg: "", recv: "Editor", fn: "InsertTable", lean: "editorInsertTable"},
	// T1: Align, Justify
	{pkg: "", recv: "Editor", fn: "AlignOpts", lean: "editorAlignOpts"},
	{pkg: "", recv: "Editor", fn: "Align", lean: "editorAlign"},
	{pkg: "", recv: "Editor", fn: "JustifyOpts", lean: "editorJustifyOpts"},
	{pkg: "", recv: "Editor", fn: "Justify", lean: "editorJustify"},
	// T2: two-column layout and definitions table (with the tb.Block methods they use)
	{pkg: "internal/tb", recv: "Block", fn: "AppendBlock", lean: "blockAppendBlock", inout: []string{"tb"},
		fuel: []string{"v_b.lines.length + 1"}},
	{pkg: "internal/tb", recv: "Block", fn: "Remove", lean: "blockRemove", inout: []string{"tb"}},
	{pkg: "", recv: "Editor", fn: "InsertTwoColumnsOpts", lean: "editorInsertTwoColumnsOpts",
		fuel: []string{"v_leftColBlock.lines.length + 1"}},
	{pkg: "", recv: "Editor", fn: "InsertTwoColumns", lean: "editorInsertTwoColumns"},
	{pkg: "", recv: "Editor", fn: "InsertDefinitionsTableOpts", lean: "editorInsertDefinitionsTableOpts"},
	{pkg: "", recv: "Editor", fn: "InsertDefinitionsTable", lean: "editorInsertDefinitionsTable"},
}

// ---------------------------------------------------------------------------------------------
// primitive table: Go function (types.Func.FullName) ↦ Lean.  `$0` is the receiver (methods) or the
// first argument, `$1`… the following ones.  `monadic` primitives return `R τ` and are hoisted.

type gfPrim struct {
	lean    string
	monadic bool
	mclos   []int // argument positions ($n) that take a monadic closure (`… → R τ`)
}

const gemS = "(" + gfMod + "/internal/gem.String)."

var gfPrims = map[string]gfPrim{
	gemS + "Len":                            {"(Go.gsLen cx $0)", false, nil},
	gemS + "Sub":                            {"(Go.gsSub cx $0 $1 $2)", false, nil},
	gemS + "Add":                            {"(Go.gsAdd $0 $1)", false, nil},
	gemS + "CharAt":                         {"Go.gsCharAt cx $0 $1", true, nil},
	gemS + "SetCharAt":                      {"Go.gsSetCharAt cx $0 $1 $2", true, nil},
	gemS + "IsEmpty":                        {"(Go.gsIsEmpty $0)", false, nil},
	gemS + "IndexFunc":                      {"(Go.gsIndexFunc cx $0 $1)", false, nil},
	gemS + "LastIndexFunc":                  {"(Go.gsLastIndexFunc cx $0 $1)", false, nil},
	gemS + "Equal":                          {"(Go.gsEqual $0 $1)", false, nil},
	gemS + "String":                         {"$0", false, nil},
	gemS + "GraphemeIndexes":                {"(Go.gsGraphemeIndexes cx $0)", false, nil},
	gemS + "Runes":                          {"$0", false, nil},
	gfMod + "/internal/gem.New":             {"$0", false, nil},
	gfMod + "/internal/gem.Strings":         {"$0", false, nil},
	gfMod + "/internal/gem.Slice":           {"$0", false, nil},
	gfMod + "/internal/gem.RepeatStr":       {"(Go.gemRepeatStr $0 $1)", false, nil},
	gfMod + "/internal/gem.Repeat":          {"(Go.gemRepeatStr $0 $1)", false, nil},
	"strings.Repeat":                        {"Go.stringsRepeat $0 $1", true, nil},
	"strings.Split":                         {"(Go.stringsSplit $0 $1)", false, nil},
	"strings.Join":                          {"(Go.stringsJoin $0 $1)", false, nil},
	"strings.ReplaceAll":                    {"(Go.stringsReplaceAll $0 $1 $2)", false, nil},
	"strings.HasSuffix":                     {"(Go.stringsHasSuffix $0 $1)", false, nil},
	"strings.HasPrefix":                     {"(Go.stringsHasPrefix $0 $1)", false, nil},
	"strings.Count":                         {"(Go.stringsCount $0 $1)", false, nil},
	"strings.Index":                         {"(Go.stringsIndex cx $0 $1)", false, nil},
	"strings.ToUpper":                       {"(Go.stringsToUpper cx $0)", false, nil},
	"unicode.IsSpace":                       {"(Go.unicodeIsSpace cx $0)", false, nil},
	"strings.ContainsRune":                  {"(Go.stringsContainsRune $0 $1)", false, nil},
	gfMod + "/internal/util.RangeToIndexes": {"(rangeToIndexes $0 $1 $2)", false, nil},
	// library functions that are not translated: the hand model's function
	"(" + gfMod + ".Editor).Chars":                {"Editor.chars cx $0 $1 $2", true, nil},
	"(" + gfMod + ".Editor).subEd":                {"Editor.subEd cx $0 $1 $2", true, nil},
	"(" + gfMod + ".Editor).Lines":                {"Editor.linesSel cx $0 $1 $2", true, nil},
	"(" + gfMod + ".Editor).IsSubEditor":          {"(Editor.isSub $0)", false, nil},
	"(" + gfMod + ".Editor).WithOptions":          {"(Editor.withOpts $0 $1)", false, nil},
	"(" + gfMod + ".Editor).String":               {"Editor.string cx $0", true, nil},
	"(" + gfMod + ".Editor).ApplyOpts":            {"Go.edApplyOpts cx $0 $1 $2", true, []int{1}},
	"(" + gfMod + ".Editor).ApplyParagraphsOpts":  {"Go.edApplyParagraphsOpts cx $0 $1 $2", true, []int{1}},
	"(" + gfMod + ".Editor).applyGParagraphsOpts": {"Go.edApplyParagraphsOpts cx $0 $1 $2", true, []int{1}},
	gfMod + ".Edit":                               {"(Go.edit $0)", false, nil},
}

// string / rune literals ↦ Ctx fields
var gfStrLits = map[string]string{
	"":    "([] : List α)",
	" ":   "[cx.sp]",
	"-":   "[cx.hy]",
	"\n":  "[cx.nl]",
	"A":   "[cx.phA]",
	"+|-": "cx.dCharset",
	"- ":  "[cx.hy, cx.sp]",
	"  ":  "[cx.sp, cx.sp]",
}

var gfRuneLits = map[rune]string{' ': "cx.sp", '-': "cx.hy", '\n': "cx.nl", 'A': "cx.phA"}

// named constants / package variables ↦ Lean
var gfConsts = map[string]string{
	gfMod + ".End":                       "Gen.endSentinel",
	gfMod + ".None":                      "Gen.alignNone",
	gfMod + ".Left":                      "Gen.alignLeft",
	gfMod + ".Right":                     "Gen.alignRight",
	gfMod + ".Center":                    "Gen.alignCenter",
	gfMod + ".DefaultLineSeparator":      "cx.dLineSep",
	gfMod + ".DefaultIndentString":       "cx.dIndent",
	gfMod + ".DefaultParagraphSeparator": "cx.dParaSep",
	gfMod + ".DefaultTableCharSet":       "cx.dCharset",
	gfMod + "/internal/gem.Zero":         "([] : List α)",
}

// struct types ↦ Lean structure + field map
type gfStruct struct {
	lean   string
	fields map[string]string // Go field ↦ Lean field
	order  []string          // Go fields in the Lean constructor's order
	get    map[string]string // accessor (when not a plain projection): field ↦ function
	set    map[string]string // setter function: field ↦ function (value, new) ; default `{ x with f := v }`
}

var gfStructs = map[string]*gfStruct{
	gfMod + "/internal/tb.Block": {lean: "Block α",
		fields: map[string]string{"Lines": "lines", "LineSeparator": "sep", "TrailingSeparator": "trailing"},
		order:  []string{"Lines", "LineSeparator", "TrailingSeparator"}},
	gfMod + ".Options": {lean: "Options α",
		fields: map[string]string{"IndentStr": "indentStr", "LineSeparator": "lineSep", "NoTrailingLineSeparators": "noTrailing",
			"ParagraphSeparator": "paraSep", "PreserveParagraphs": "preservePara", "JustifyLastLine": "justifyLast",
			"TableBorders": "borders", "TableHeaders": "headers", "TableCharSet": "charset"},
		order: []string{"IndentStr", "LineSeparator", "NoTrailingLineSeparators", "ParagraphSeparator", "PreserveParagraphs",
			"JustifyLastLine", "TableBorders", "TableHeaders", "TableCharSet"}},
	gfMod + "/internal/manip.tableCharSet": {lean: "TableChars α",
		fields: map[string]string{"corner": "corner", "vert": "vert", "horz": "horz"},
		order:  []string{"corner", "vert", "horz"}},
	gfMod + ".Editor": {lean: "Editor α",
		fields: map[string]string{"Text": "text", "Options": "opts"},
		get:    map[string]string{"Text": "Editor.text", "Options": "Editor.opts"},
		set:    map[string]string{"Text": "Editor.withText", "Options": "Editor.withOpts"}},
}

type gfErr struct{ msg string }

func (e gfErr) Error() string { return e.msg }

func gfFail(format string, a ...any) { panic(gfErr{fmt.Sprintf(format, a...)}) }

func (sp *gfSpec) key() string {
	p := gfMod
	if sp.pkg != "" {
		p += "/" + sp.pkg
	}
	if sp.recv != "" {
		return "(" + p + "." + sp.recv + ")." + sp.fn
	}
	return p + "." + sp.fn
}

func (sp *gfSpec) goName() string {
	if sp.recv != "" {
		return sp.recv + "." + sp.fn
	}
	return sp.fn
}

// ---------------------------------------------------------------------------------------------
// types

func gfType(t types.Type) string {
	switch v := t.(type) {
	case *types.Named:
		full := v.Obj().Name()
		if v.Obj().Pkg() != nil {
			full = v.Obj().Pkg().Path() + "." + v.Obj().Name()
		}
		switch full {
		case gfMod + "/internal/gem.String":
			return "List α"
		case gfMod + ".Alignment":
			return "Int"
		}
		if st, ok := gfStructs[full]; ok {
			return st.lean
		}
		if sig, ok := v.Underlying().(*types.Signature); ok {
			return gfType(sig)
		}
		gfFail("type %s", full)
	case *types.Basic:
		switch v.Kind() {
		case types.Int, types.UntypedInt:
			return "Int"
		case types.Bool, types.UntypedBool:
			return "Bool"
		case types.String, types.UntypedString:
			return "List α"
		case types.Int32, types.UntypedRune:
			return "α"
		case types.Float64, types.UntypedFloat:
			return "Pct" // T2: a finite float64 as an exact dyadic rational (Model/Ops.lean)
		}
		gfFail("type %s", v.Name())
	case *types.Array:
		// T2: an array of two elements is a pair
		if v.Len() != 2 {
			gfFail("array type %s", t.String())
		}
		return "(" + gfType(v.Elem()) + " × " + gfType(v.Elem()) + ")"
	case *types.Slice:
		if b, ok := v.Elem().(*types.Basic); ok && b.Kind() == types.Int32 {
			return "List α"
		}
		return "List (" + gfType(v.Elem()) + ")"
	case *types.Pointer:
		if n, ok := v.Elem().(*types.Named); ok {
			if n.Obj().Pkg() != nil && n.Obj().Pkg().Path()+"."+n.Obj().Name() == gfMod+"/internal/gem.String" {
				return "Option (List α)"
			}
			if _, ok := n.Underlying().(*types.Struct); ok {
				return gfType(n) // a pointer to a struct value is modelled by the value
			}
		}
		gfFail("pointer type %s", t.String())
	case *types.Signature:
		// closure types: params → result
		var ps []string
		for i := 0; i < v.Params().Len(); i++ {
			ps = append(ps, gfType(v.Params().At(i).Type()))
		}
		if v.Results().Len() != 1 {
			gfFail("function type %s", t.String())
		}
		// function values are monadic (a Go callback may panic)
		ps = append(ps, "R ("+gfType(v.Results().At(0).Type())+")")
		return "(" + strings.Join(ps, " → ") + ")"
	case *types.Tuple:
		var ps []string
		for i := 0; i < v.Len(); i++ {
			ps = append(ps, gfType(v.At(i).Type()))
		}
		return strings.Join(ps, " × ")
	}
	gfFail("type %s", t.String())
	return ""
}

func gfNamedKey(t types.Type) string {
	if p, ok := t.(*types.Pointer); ok {
		t = p.Elem()
	}
	if n, ok := t.(*types.Named); ok && n.Obj().Pkg() != nil {
		return n.Obj().Pkg().Path() + "." + n.Obj().Name()
	}
	return ""
}

func gfZero(t types.Type) string {
	lt := gfType(t)
	switch {
	case lt == "Int":
		return "(0 : Int)"
	case lt == "Bool":
		return "false"
	case lt == "Pct":
		return "(Pct.mk false 0 0)"
	case strings.HasPrefix(lt, "List"):
		return "([] : " + lt + ")"
	case strings.HasPrefix(lt, "Option"):
		return "(none : " + lt + ")"
	}
	if st, ok := gfStructs[gfNamedKey(t)]; ok && st.order != nil {
		stt := t.Underlying().(*types.Struct)
		var fs []string
		for _, gf := range st.order {
			for i := 0; i < stt.NumFields(); i++ {
				if stt.Field(i).Name() == gf {
					fs = append(fs, st.fields[gf]+" := "+gfZero(stt.Field(i).Type()))
				}
			}
		}
		return "({ " + strings.Join(fs, ", ") + " } : " + st.lean + ")"
	}
	gfFail("zero value of %s", t.String())
	return ""
}

// projections of an n-tuple value `s`
func gfProj(s string, i, n int) string {
	if n == 1 {
		return s
	}
	r := s
	for k := 0; k < i; k++ {
		r += ".2"
	}
	if i < n-1 {
		r += ".1"
	}
	return r
}

// gofn, part 2: translation context and expressions.

type gfPend struct { // a string byte-slice `s[:a]` / `s[b:]` bound to a local, waiting for `p + t + q`
	base     string // Lean expression of s
	off      string // Lean expression of the offset
	isPrefix bool
}

type gfCtx struct {
	w       *gfWorld
	pkg     *packages.Package
	info    *types.Info
	spec    *gfSpec
	fd      *ast.FuncDecl
	tmp     int
	loopIdx int
	names   map[types.Object]string // Lean name of every local object
	used    map[string]int
	pre     []string // hoisted lines of the statement being translated
	pure    bool     // inside a closure: hoisting is refused
	inLoop  int
	inout   []*types.Var
	pend    map[types.Object]gfPend
	shadowF map[types.Object]map[string]string // obj ↦ field ↦ Lean name of the local that shadows the unmodelled field
	dirty   map[types.Object]bool
	mfuncs  map[types.Object]bool // locals bound to a monadic closure
	ctl     []string              // for every enclosing loop: its state tuple if it is a break/return loop, else ""
	resTy   string                // Lean result type of the function
	results int                   // number of results of the function / closure being translated
	swk     []gfSwFrame           // T1: enclosing `switch` statements (innermost last), see switchStmt
}

type gfWorld struct {
	pkgs    map[string]*packages.Package // by path
	status  map[string]string            // spec key ↦ "" (ok) | reason (refused) ; absent = not yet translated
	defs    map[string]string
	sigs    map[string]string
	active  map[string]bool
	specs   map[string]*gfSpec
	funcs   map[string]*ast.FuncDecl
	funcPkg map[string]*packages.Package
	order   []string
}

func (c *gfCtx) fresh() string {
	c.tmp++
	return fmt.Sprintf("t%d", c.tmp)
}

func (c *gfCtx) name(obj types.Object) string {
	if n, ok := c.names[obj]; ok {
		return n
	}
	base := "v_" + obj.Name()
	if obj.Name() == "_" {
		base = "v_blank"
	}
	n := base
	if k := c.used[base]; k > 0 {
		n = fmt.Sprintf("%s_%d", base, k)
	}
	c.used[base]++
	c.names[obj] = n
	return n
}

func (c *gfCtx) hoist(ty, rhs string) string {
	if c.pure {
		gfFail("operation that can panic inside a closure: %s", rhs)
	}
	t := c.fresh()
	c.pre = append(c.pre, fmt.Sprintf("let %s : %s ← %s", t, ty, rhs))
	return t
}

func (c *gfCtx) typeOf(e ast.Expr) types.Type {
	t := c.info.TypeOf(e)
	if t == nil {
		gfFail("untyped expression")
	}
	return t
}

func isStringy(t types.Type) bool {
	if b, ok := t.Underlying().(*types.Basic); ok {
		return b.Info()&types.IsString != 0
	}
	return false
}

func isInt(t types.Type) bool {
	if b, ok := t.Underlying().(*types.Basic); ok {
		return b.Info()&types.IsInteger != 0 && b.Kind() != types.Int32 && b.Kind() != types.UntypedRune
	}
	return false
}

func isRune(t types.Type) bool {
	if b, ok := t.Underlying().(*types.Basic); ok {
		return b.Kind() == types.Int32 || b.Kind() == types.UntypedRune
	}
	return false
}

// is e the constant 1?
func (c *gfCtx) isOne(e ast.Expr) bool {
	tv, ok := c.info.Types[e]
	return ok && tv.Value != nil && tv.Value.Kind() == constant.Int && constant.Compare(tv.Value, token.EQL, constant.MakeInt64(1))
}

func isBool(t types.Type) bool {
	if b, ok := t.Underlying().(*types.Basic); ok {
		return b.Info()&types.IsBoolean != 0
	}
	return false
}

// T2: floats.  A finite float64 is the hand model's `Pct` (sign, numerator, binary exponent).  Only constants,
// comparisons and `int(float64(n) * p)` are translated; every other float operation refuses the function.
func isFloat(t types.Type) bool {
	if b, ok := t.Underlying().(*types.Basic); ok {
		return b.Info()&types.IsFloat != 0
	}
	return false
}

// the float64 value of a constant as an exact dyadic rational `± num / 2^exp` (num odd or zero)
func gfFloatConst(v constant.Value) string {
	f, _ := constant.Float64Val(constant.ToFloat(v)) // the constant as the float64 the compiled code holds
	if math.IsNaN(f) || math.IsInf(f, 0) {
		gfFail("float constant %s", v.String())
	}
	neg := "false"
	if math.Signbit(f) {
		neg = "true"
	}
	if f == 0 {
		return "(Pct.mk " + neg + " 0 0)"
	}
	frac, e := math.Frexp(math.Abs(f)) // |f| = frac * 2^e, 1/2 ≤ frac < 1
	num := new(big.Int).SetUint64(uint64(math.Ldexp(frac, 53)))
	e -= 53 // |f| = num * 2^e
	for num.Bit(0) == 0 {
		num.Rsh(num, 1)
		e++
	}
	exp := 0
	if e >= 0 {
		num.Lsh(num, uint(e))
	} else {
		exp = -e
	}
	return fmt.Sprintf("(Pct.mk %s %s %d)", neg, num.String(), exp)
}

// `float64(n)` with n an int expression: n
func (c *gfCtx) floatOfInt(e ast.Expr) (ast.Expr, bool) {
	call, ok := unparen(e).(*ast.CallExpr)
	if !ok || len(call.Args) != 1 {
		return nil, false
	}
	if tv, ok := c.info.Types[call.Fun]; !ok || !tv.IsType() || !isFloat(tv.Type) || !isInt(c.typeOf(call.Args[0])) {
		return nil, false
	}
	return call.Args[0], true
}

func objKey(o types.Object) string {
	if o.Pkg() == nil {
		return o.Name()
	}
	return o.Pkg().Path() + "." + o.Name()
}

func asProp(s string, isProp bool) string {
	if isProp {
		return s
	}
	return "(" + s + " = true)"
}

func asBool(s string, isProp bool) string {
	if isProp {
		return "(decide " + s + ")"
	}
	return s
}

// expression in value position
func (c *gfCtx) expr(e ast.Expr) string {
	if isBool(c.typeOf(e)) {
		s, p := c.bexpr(e)
		return asBool(s, p)
	}
	return c.vexpr(e)
}

// condition as a Prop
func (c *gfCtx) cond(e ast.Expr) string {
	s, p := c.bexpr(e)
	return asProp(s, p)
}

func unparen(e ast.Expr) ast.Expr {
	for {
		p, ok := e.(*ast.ParenExpr)
		if !ok {
			return e
		}
		e = p.X
	}
}

// boolean expression: (text, isProp)
func (c *gfCtx) bexpr(e ast.Expr) (string, bool) {
	e = unparen(e)
	if tv, ok := c.info.Types[e]; ok && tv.Value != nil && tv.Value.Kind() == constant.Bool {
		if constant.BoolVal(tv.Value) {
			return "true", false
		}
		return "false", false
	}
	switch x := e.(type) {
	case *ast.UnaryExpr:
		if x.Op == token.NOT {
			s, p := c.bexpr(x.X)
			if p {
				return "(¬" + s + ")", true
			}
			return "(!" + s + ")", false
		}
	case *ast.BinaryExpr:
		switch x.Op {
		case token.LAND, token.LOR:
			ls, lp := c.bexpr(x.X)
			saved := c.pre
			c.pre = nil
			rs, rp := c.bexpr(x.Y)
			rpre := c.pre
			c.pre = saved
			if len(rpre) == 0 {
				op := " ∧ "
				if x.Op == token.LOR {
					op = " ∨ "
				}
				return "(" + asProp(ls, lp) + op + asProp(rs, rp) + ")", true
			}
			// short circuit with a right operand that can panic
			inner := append(append([]string{}, rpre...), "pure "+asBool(rs, rp))
			var lines []string
			t := c.fresh()
			if c.pure {
				gfFail("short circuit with a panicking operand inside a closure")
			}
			if x.Op == token.LAND {
				lines = gfIf(asProp(ls, lp), inner, []string{"pure false"})
			} else {
				lines = gfIf(asProp(ls, lp), []string{"pure true"}, inner)
			}
			lines[0] = "let " + t + " : Bool ← (" + lines[0]
			lines[len(lines)-1] += ")"
			c.pre = append(c.pre, lines...)
			return t, false
		case token.EQL, token.NEQ, token.LSS, token.LEQ, token.GTR, token.GEQ:
			lt := c.typeOf(x.X)
			op := map[token.Token]string{token.EQL: "=", token.NEQ: "≠", token.LSS: "<", token.LEQ: "≤", token.GTR: ">", token.GEQ: "≥"}[x.Op]
			// comparisons with nil
			if isNil(c, x.Y) || isNil(c, x.X) {
				other := x.X
				if isNil(c, x.X) {
					other = x.Y
				}
				return c.nilCmp(other, x.Op)
			}
			if isFloat(lt) { // T2: comparisons of floats
				l, r := c.vexpr(x.X), c.vexpr(x.Y)
				switch x.Op {
				case token.LSS:
					return "(Go.f64Lt " + l + " " + r + ")", true
				case token.LEQ:
					return "(Go.f64Le " + l + " " + r + ")", true
				case token.GTR:
					return "(Go.f64Lt " + r + " " + l + ")", true
				case token.GEQ:
					return "(Go.f64Le " + r + " " + l + ")", true
				case token.EQL:
					return "(Go.f64Eq " + l + " " + r + ")", true
				}
				return "(¬Go.f64Eq " + l + " " + r + ")", true
			}
			if x.Op != token.EQL && x.Op != token.NEQ && !isInt(lt) {
				gfFail("ordering on %s", lt.String())
			}
			if isBool(lt) {
				l, r := c.expr(x.X), c.expr(x.Y)
				return "(" + l + " " + op + " " + r + ")", true
			}
			l := c.vexpr(x.X)
			r := c.vexpr(x.Y)
			return "(" + l + " " + op + " " + r + ")", true
		}
	}
	return c.vexpr(e), false
}

func isNil(c *gfCtx, e ast.Expr) bool {
	id, ok := unparen(e).(*ast.Ident)
	if !ok {
		return false
	}
	_, isN := c.info.ObjectOf(id).(*types.Nil)
	return isN
}

func (c *gfCtx) nilCmp(e ast.Expr, op token.Token) (string, bool) {
	var s string
	e = unparen(e)
	if sel, ok := e.(*ast.SelectorExpr); ok && gfNamedKey(c.typeOf(sel.X)) == gfMod+".Editor" && sel.Sel.Name == "ref" {
		s = "(Editor.isSub " + c.vexpr(sel.X) + ")"
		if op == token.EQL {
			return "(!" + s + ")", false
		}
		return s, false
	}
	if strings.HasPrefix(gfType(c.typeOf(e)), "Option") {
		s = "(Option.isNone " + c.vexpr(e) + ")"
		if op == token.EQL {
			return s, false
		}
		return "(!" + s + ")", false
	}
	gfFail("comparison with nil of %s", c.typeOf(e).String())
	return "", false
}

// `if c then (do a…) else (do b…)` as lines; the first line starts with `if`, no trailing parenthesis
func gfIf(cond string, a, b []string) []string {
	out := []string{"if " + cond + " then (do"}
	out = append(out, ind(a)...)
	out[len(out)-1] += ") else (do"
	out = append(out, ind(b)...)
	out[len(out)-1] += ")"
	return out
}

func (c *gfCtx) strLit(s string) string {
	if l, ok := gfStrLits[s]; ok {
		return l
	}
	// a string of mapped runes
	var parts []string
	for _, r := range s {
		l, ok := gfRuneLits[r]
		if !ok {
			gfFail("string literal %q has no Ctx mapping", s)
		}
		parts = append(parts, l)
	}
	return "[" + strings.Join(parts, ", ") + "]"
}

func (c *gfCtx) constVal(v constant.Value, t types.Type) (string, bool) {
	if isFloat(t) { // T2
		return gfFloatConst(v), true
	}
	switch v.Kind() {
	case constant.Int:
		if b, ok := t.Underlying().(*types.Basic); ok && (b.Kind() == types.Int32 || b.Kind() == types.UntypedRune) {
			n, _ := constant.Int64Val(v)
			if l, ok := gfRuneLits[rune(n)]; ok {
				return l, true
			}
			gfFail("rune literal %q has no Ctx mapping", rune(n))
		}
		if isInt(t) {
			return "(" + v.ExactString() + " : Int)", true
		}
	case constant.String:
		return c.strLit(constant.StringVal(v)), true
	}
	return "", false
}

// non-boolean expression (or a boolean one that is an identifier / call / field)
func (c *gfCtx) vexpr(e ast.Expr) string {
	e = unparen(e)
	// named constants and package variables with a mapping
	var ob types.Object
	switch x := e.(type) {
	case *ast.Ident:
		ob = c.info.ObjectOf(x)
	case *ast.SelectorExpr:
		if _, isPkg := c.info.ObjectOf(identOf(x.X)).(*types.PkgName); isPkg {
			ob = c.info.ObjectOf(x.Sel)
		}
	}
	if ob != nil {
		if _, isLocal := c.names[ob]; !isLocal {
			if l, ok := gfConsts[objKey(ob)]; ok {
				return l
			}
		}
	}
	if tv, ok := c.info.Types[e]; ok && tv.Value != nil {
		if s, ok := c.constVal(tv.Value, tv.Type); ok {
			return s
		}
		gfFail("constant %s", tv.Value.String())
	}
	switch x := e.(type) {
	case *ast.Ident:
		obj := c.info.ObjectOf(x)
		if v, ok := obj.(*types.Var); ok {
			if _, isPend := c.pend[obj]; isPend {
				gfFail("byte slice %s used outside `prefix + text + suffix`", x.Name)
			}
			if c.dirty[obj] {
				gfFail("%s escapes with an assigned unmodelled field", x.Name)
			}
			if v.Pkg() != nil && v.Parent() == v.Pkg().Scope() {
				gfFail("package variable %s", x.Name)
			}
			return c.name(obj)
		}
		gfFail("identifier %s", x.Name)
	case *ast.BasicLit:
		gfFail("literal %s", x.Value)
	case *ast.StarExpr:
		if strings.HasPrefix(gfType(c.typeOf(x.X)), "Option") {
			return c.hoist(gfType(c.typeOf(x)), "Go.deref "+c.vexpr(x.X))
		}
		return c.vexpr(x.X) // pointer to a struct value
	case *ast.UnaryExpr:
		switch x.Op {
		case token.SUB:
			if !isInt(c.typeOf(x)) {
				gfFail("unary - on %s", c.typeOf(x).String())
			}
			return "(-" + c.vexpr(x.X) + ")"
		case token.AND:
			if strings.HasPrefix(gfType(c.typeOf(x)), "Option") {
				return "(some " + c.vexpr(x.X) + ")"
			}
			gfFail("address-of outside a call of an in-out function")
		}
		gfFail("unary %s", x.Op)
	case *ast.BinaryExpr:
		t := c.typeOf(x)
		if isStringy(t) && x.Op == token.ADD {
			if s, ok := c.splice(x); ok {
				return s
			}
			l := c.vexpr(x.X)
			r := c.vexpr(x.Y)
			return "(" + l + " ++ " + r + ")"
		}
		if isRune(t) && x.Op == token.ADD && c.isOne(x.Y) && !c.isOne(x.X) {
			// r + 1 on a rune: the next code point
			return "(Go.runeSucc cx " + c.vexpr(x.X) + ")"
		}
		if isInt(t) {
			l := c.vexpr(x.X)
			switch x.Op {
			case token.ADD, token.SUB, token.MUL:
				r := c.vexpr(x.Y)
				return "(" + l + " " + x.Op.String() + " " + r + ")"
			case token.QUO, token.REM:
				fn, pfn := "Int.tdiv", "Go.intDiv"
				if x.Op == token.REM {
					fn, pfn = "Int.tmod", "Go.intMod"
				}
				r := c.vexpr(x.Y)
				if tv, ok := c.info.Types[x.Y]; ok && tv.Value != nil && constant.Sign(tv.Value) != 0 {
					return "(" + fn + " " + l + " " + r + ")"
				}
				return c.hoist("Int", pfn+" "+l+" "+r)
			}
		}
		gfFail("binary %s on %s", x.Op, t.String())
	case *ast.SelectorExpr:
		return c.selector(x)
	case *ast.IndexExpr:
		xt := c.typeOf(x.X)
		if arr, ok := xt.Underlying().(*types.Array); ok && arr.Len() == 2 { // T2: `d[0]`, `d[1]` on a pair
			tv, ok := c.info.Types[x.Index]
			if !ok || tv.Value == nil {
				gfFail("array index that is not a constant")
			}
			i, _ := constant.Int64Val(tv.Value) // in range: checked by the compiler
			return fmt.Sprintf("(%s.%d)", c.vexpr(x.X), i+1)
		}
		if _, ok := xt.Underlying().(*types.Slice); !ok {
			gfFail("index into %s", xt.String())
		}
		a := c.vexpr(x.X)
		i := c.vexpr(x.Index)
		return c.hoist(gfType(c.typeOf(x)), "Go.idx "+a+" "+i)
	case *ast.SliceExpr:
		xt := c.typeOf(x.X)
		if x.Slice3 {
			gfFail("3-index slice")
		}
		if _, ok := xt.Underlying().(*types.Slice); ok {
			a := c.vexpr(x.X)
			ty := gfType(xt)
			switch {
			case x.Low == nil && x.High != nil:
				return c.hoist(ty, "Go.sliceTo "+a+" "+c.vexpr(x.High))
			case x.Low != nil && x.High == nil:
				return c.hoist(ty, "Go.sliceFrom "+a+" "+c.vexpr(x.Low))
			case x.Low != nil && x.High != nil:
				if tv, ok := c.info.Types[x.Low]; ok && tv.Value != nil && constant.Sign(tv.Value) == 0 {
					return c.hoist(ty, "Go.sliceTo "+a+" "+c.vexpr(x.High))
				}
			}
			gfFail("slice expression shape")
		}
		if isStringy(xt) {
			a := c.vexpr(x.X)
			lo, hi := "(0 : Int)", "(Go.strLen cx "+a+")"
			if x.Low != nil {
				lo = c.vexpr(x.Low)
			}
			if x.High != nil {
				hi = c.vexpr(x.High)
			}
			return c.hoist("List α", "Go.strSlice cx "+a+" "+lo+" "+hi)
		}
		gfFail("slice of %s", xt.String())
	case *ast.CompositeLit:
		return c.composite(x)
	case *ast.CallExpr:
		return c.call(x)
	case *ast.FuncLit:
		return c.closure(x)
	}
	gfFail("expression %T", e)
	return ""
}

func identOf(e ast.Expr) *ast.Ident {
	id, _ := unparen(e).(*ast.Ident)
	if id == nil {
		return &ast.Ident{Name: "?"}
	}
	return id
}

// `p + t + q` with p, q pending byte slices `s[:a]`, `s[b:]` of one string s
func (c *gfCtx) splice(x *ast.BinaryExpr) (string, bool) {
	inner, ok := unparen(x.X).(*ast.BinaryExpr)
	if !ok || inner.Op != token.ADD {
		return "", false
	}
	pid, ok1 := unparen(inner.X).(*ast.Ident)
	qid, ok2 := unparen(x.Y).(*ast.Ident)
	if !ok1 || !ok2 {
		return "", false
	}
	p, okp := c.pend[c.info.ObjectOf(pid)]
	q, okq := c.pend[c.info.ObjectOf(qid)]
	if !okp || !okq {
		return "", false
	}
	if !p.isPrefix || q.isPrefix || p.base != q.base {
		gfFail("byte slices do not form `s[:a] + t + s[b:]`")
	}
	delete(c.pend, c.info.ObjectOf(pid))
	delete(c.pend, c.info.ObjectOf(qid))
	t := c.vexpr(inner.Y)
	return c.hoist("List α", "Go.strSplice cx "+p.base+" "+p.off+" "+q.off+" "+t), true
}

func (c *gfCtx) selector(x *ast.SelectorExpr) string {
	xt := c.typeOf(x.X)
	key := gfNamedKey(xt)
	// ed.ref.parent / .start / .end
	if inner, ok := unparen(x.X).(*ast.SelectorExpr); ok && inner.Sel.Name == "ref" && gfNamedKey(c.typeOf(inner.X)) == gfMod+".Editor" {
		fn := map[string]string{"parent": "Go.edRefParent", "start": "Go.edRefStart", "end": "Go.edRefEnd"}[x.Sel.Name]
		if fn == "" {
			gfFail("field ref.%s", x.Sel.Name)
		}
		return c.hoist(gfType(c.typeOf(x)), fn+" "+c.vexpr(inner.X))
	}
	if st, ok := gfStructs[key]; ok {
		// unmodelled field kept in a shadow local
		if id, ok := unparen(x.X).(*ast.Ident); ok {
			if m := c.shadowF[c.info.ObjectOf(id)]; m != nil {
				if n, ok := m[x.Sel.Name]; ok {
					return n
				}
			}
		}
		if key == gfMod+".Editor" && x.Sel.Name == "cache" {
			return "(Go.edCache " + c.vexpr(x.X) + ")"
		}
		lf, ok := st.fields[x.Sel.Name]
		if !ok {
			gfFail("field %s.%s has no model counterpart", key, x.Sel.Name)
		}
		base := c.fieldBase(x.X)
		if g, ok := st.get[x.Sel.Name]; ok {
			return "(" + g + " " + base + ")"
		}
		return "(" + base + "." + lf + ")"
	}
	gfFail("selector %s on %s", x.Sel.Name, xt.String())
	return ""
}

// base of a field read: an identifier whose unmodelled fields are dirty may still be read field-wise
func (c *gfCtx) fieldBase(e ast.Expr) string {
	if id, ok := unparen(e).(*ast.Ident); ok {
		if obj, ok := c.info.ObjectOf(id).(*types.Var); ok && c.dirty[obj] {
			return c.name(obj)
		}
	}
	return c.vexpr(e)
}

func (c *gfCtx) composite(x *ast.CompositeLit) string {
	t := c.typeOf(x)
	if _, ok := t.Underlying().(*types.Slice); ok {
		var els []string
		for _, el := range x.Elts {
			if _, isKV := el.(*ast.KeyValueExpr); isKV {
				gfFail("keyed slice literal")
			}
			els = append(els, c.expr(el))
		}
		return "([" + strings.Join(els, ", ") + "] : " + gfType(t) + ")"
	}
	if gfNamedKey(t) == gfMod+".Editor" {
		// Editor{Text: t, Options: o}: a root editor (no parent reference, no cache)
		text, opts := "([] : List α)", "({} : Options α)"
		for _, el := range x.Elts {
			kv, isKV := el.(*ast.KeyValueExpr)
			if !isKV {
				gfFail("positional Editor literal")
			}
			switch kv.Key.(*ast.Ident).Name {
			case "Text":
				text = c.expr(kv.Value)
			case "Options":
				opts = c.expr(kv.Value)
			default:
				gfFail("Editor literal sets %s", kv.Key.(*ast.Ident).Name)
			}
		}
		return "(Editor.root " + text + " " + opts + ")"
	}
	if st, ok := gfStructs[gfNamedKey(t)]; ok && st.order != nil {
		stt := t.Underlying().(*types.Struct)
		vals := map[string]string{}
		for i, el := range x.Elts {
			kv, isKV := el.(*ast.KeyValueExpr)
			if isKV {
				vals[kv.Key.(*ast.Ident).Name] = c.expr(kv.Value)
			} else {
				vals[stt.Field(i).Name()] = c.expr(el)
			}
		}
		var fs []string
		for _, gf := range st.order {
			v, ok := vals[gf]
			if !ok {
				for i := 0; i < stt.NumFields(); i++ {
					if stt.Field(i).Name() == gf {
						v = gfZero(stt.Field(i).Type())
					}
				}
			}
			delete(vals, gf)
			fs = append(fs, st.fields[gf]+" := "+v)
		}
		if len(vals) > 0 {
			gfFail("composite literal of %s sets an unmodelled field", gfNamedKey(t))
		}
		return "({ " + strings.Join(fs, ", ") + " } : " + st.lean + ")"
	}
	gfFail("composite literal of %s", t.String())
	return ""
}

// pure closure: parameters typed, body a single `return e`
func (c *gfCtx) closure(x *ast.FuncLit) string {
	var ps []string
	for _, f := range x.Type.Params.List {
		for _, n := range f.Names {
			ps = append(ps, "("+c.name(c.info.ObjectOf(n))+" : "+gfType(c.typeOf(f.Type))+")")
		}
		if len(f.Names) == 0 {
			gfFail("closure with unnamed parameter")
		}
	}
	if len(x.Body.List) != 1 {
		gfFail("closure body is not a single return")
	}
	ret, ok := x.Body.List[0].(*ast.ReturnStmt)
	if !ok || len(ret.Results) != 1 {
		gfFail("closure body is not a single return")
	}
	savedPure := c.pure
	c.pure = true
	body := c.expr(ret.Results[0])
	c.pure = savedPure
	return "(fun " + strings.Join(ps, " ") + " => " + body + ")"
}

func (c *gfCtx) calleeOf(x *ast.CallExpr) *types.Func {
	switch f := unparen(x.Fun).(type) {
	case *ast.Ident:
		fn, _ := c.info.ObjectOf(f).(*types.Func)
		return fn
	case *ast.SelectorExpr:
		fn, _ := c.info.ObjectOf(f.Sel).(*types.Func)
		return fn
	}
	return nil
}

// the in-out variable behind an argument `&x`, `x` (x a pointer parameter) or a receiver `x`
func (c *gfCtx) inoutVar(e ast.Expr) types.Object {
	e = unparen(e)
	if u, ok := e.(*ast.UnaryExpr); ok && u.Op == token.AND {
		e = unparen(u.X)
	}
	id, ok := e.(*ast.Ident)
	if !ok {
		gfFail("in-out argument is not a variable")
	}
	obj, ok := c.info.ObjectOf(id).(*types.Var)
	if !ok {
		gfFail("in-out argument is not a variable")
	}
	return obj
}

func (c *gfCtx) call(x *ast.CallExpr) string {
	// conversions
	if tv, ok := c.info.Types[x.Fun]; ok && tv.IsType() {
		if len(x.Args) != 1 {
			gfFail("conversion arity")
		}
		from, to := gfType(c.typeOf(x.Args[0])), gfType(tv.Type)
		if isRune(c.typeOf(x.Args[0])) && isStringy(tv.Type) {
			// string(r) for a rune r: the one-rune string
			return "(Go.stringOfRune " + c.vexpr(x.Args[0]) + ")"
		}
		if from == "Pct" && to == "Int" { // T2: `int(float64(n) * p)`, the only float arithmetic translated
			if mul, ok := unparen(x.Args[0]).(*ast.BinaryExpr); ok && mul.Op == token.MUL {
				if n, ok := c.floatOfInt(mul.X); ok {
					nv := c.vexpr(n)
					return "(Go.f64MulTrunc " + nv + " " + c.vexpr(mul.Y) + ")"
				}
				if n, ok := c.floatOfInt(mul.Y); ok {
					pv := c.vexpr(mul.X)
					return "(Go.f64MulTrunc " + c.vexpr(n) + " " + pv + ")"
				}
			}
			gfFail("conversion of a float expression other than float64(n) * p to int")
		}
		if from != to {
			gfFail("conversion %s → %s", from, to)
		}
		return c.vexpr(x.Args[0])
	}
	// builtins
	if id, ok := unparen(x.Fun).(*ast.Ident); ok {
		if _, isB := c.info.ObjectOf(id).(*types.Builtin); isB {
			switch id.Name {
			case "len":
				at := c.typeOf(x.Args[0])
				a := c.vexpr(x.Args[0])
				if isStringy(at) {
					return "(Go.strLen cx " + a + ")"
				}
				if _, ok := at.Underlying().(*types.Slice); ok {
					return "(Go.sliceLen " + a + ")"
				}
				gfFail("len of %s", at.String())
			case "append":
				a := c.vexpr(x.Args[0])
				if x.Ellipsis.IsValid() {
					return "(" + a + " ++ " + c.vexpr(x.Args[1]) + ")"
				}
				var els []string
				for _, el := range x.Args[1:] {
					els = append(els, c.expr(el))
				}
				return "(" + a + " ++ [" + strings.Join(els, ", ") + "])"
			case "make":
				// make([]T, 0, n): the empty slice (the capacity is evaluated for its panics only: ignored)
				if len(x.Args) >= 2 {
					if tv, ok := c.info.Types[x.Args[1]]; ok && tv.Value != nil && constant.Sign(tv.Value) == 0 {
						return "([] : " + gfType(c.typeOf(x)) + ")"
					}
				}
				if len(x.Args) == 2 {
					if sl, ok := c.typeOf(x).Underlying().(*types.Slice); ok {
						return c.hoist(gfType(c.typeOf(x)), "Go.makeSlice "+c.vexpr(x.Args[1])+" "+gfZero(sl.Elem()))
					}
				}
				gfFail("make shape")
			}
			gfFail("builtin %s", id.Name)
		}
	}
	fn := c.calleeOf(x)
	if fn == nil {
		return c.callValue(x)
	}
	full := fn.FullName()
	// receiver + arguments
	var argExprs []ast.Expr
	sig := fn.Type().(*types.Signature)
	if sig.Recv() != nil {
		argExprs = append(argExprs, x.Fun.(*ast.SelectorExpr).X)
	}
	argExprs = append(argExprs, x.Args...)
	key := strings.Replace(full, "(*", "(", 1)
	if sp, ok := c.w.specs[key]; ok {
		return c.callSpec(sp, fn, argExprs)
	}
	// special shapes
	switch full {
	case "fmt.Sprintf":
		if tv, ok := c.info.Types[x.Args[0]]; ok && tv.Value != nil {
			f := constant.StringVal(tv.Value)
			if f == strings.Repeat("%s", len(x.Args)-1) && len(x.Args) > 1 {
				var parts []string
				for _, a := range x.Args[1:] {
					if gfType(c.typeOf(a)) != "List α" {
						gfFail("Sprintf %%s of %s", c.typeOf(a).String())
					}
					parts = append(parts, c.vexpr(a))
				}
				return "(" + strings.Join(parts, " ++ ") + ")"
			}
		}
		gfFail("fmt.Sprintf shape")
	case "(*regexp.Regexp).ReplaceAllString":
		sel := x.Fun.(*ast.SelectorExpr)
		if id, ok := unparen(sel.X).(*ast.Ident); ok && c.isSpaceCollapser(id) {
			if tv, ok := c.info.Types[x.Args[1]]; ok && tv.Value != nil && constant.StringVal(tv.Value) == " " {
				return "(Go.collapseSpaceRuns cx " + c.vexpr(x.Args[0]) + ")"
			}
		}
		gfFail("regexp call shape")
	case "unicode.IsSpace":
		// unicode.IsSpace(gc[0]) inside a closure
		if ix, ok := unparen(x.Args[0]).(*ast.IndexExpr); ok && c.pure {
			if tv, ok := c.info.Types[ix.Index]; ok && tv.Value != nil && constant.Sign(tv.Value) == 0 {
				return "(Go.isSpaceHead cx " + c.vexpr(ix.X) + ")"
			}
		}
	}
	p, ok := gfPrims[full]
	if !ok {
		gfFail("call of %s has no mapping", full)
	}
	if sig.Variadic() {
		gfFail("variadic call of %s", full)
	}
	s := p.lean
	for i := len(argExprs) - 1; i >= 0; i-- { // evaluate left to right, substitute
		_ = i
	}
	vals := make([]string, len(argExprs))
	for i, a := range argExprs {
		isM := false
		for _, k := range p.mclos {
			if k == i {
				isM = true
			}
		}
		if fl, ok := unparen(a).(*ast.FuncLit); ok && isM {
			vals[i] = c.mclosure(fl)
			continue
		}
		if id, ok := unparen(a).(*ast.Ident); ok {
			if c.mfuncs[c.info.ObjectOf(id)] {
				if !isM {
					gfFail("monadic closure %s passed where a pure function is expected", id.Name)
				}
				vals[i] = c.name(c.info.ObjectOf(id))
				continue
			} else if isM {
				gfFail("argument %s is not a local closure", id.Name)
			}
		}
		vals[i] = c.expr(a)
		if i == 0 && sig.Recv() != nil {
			if pt, ok := c.typeOf(a).(*types.Pointer); ok {
				if _, rp := sig.Recv().Type().(*types.Pointer); !rp && strings.HasPrefix(gfType(pt), "Option") {
					vals[i] = c.hoist(gfType(pt.Elem()), "Go.deref "+vals[i])
				}
			}
		}
	}
	for i := len(vals) - 1; i >= 0; i-- {
		s = strings.ReplaceAll(s, fmt.Sprintf("$%d", i), vals[i])
	}
	if p.monadic {
		return c.hoist(gfType(sig.Results()), s)
	}
	return s
}

// type of a monadic closure
func gfMType(sig *types.Signature) string {
	var ps []string
	for i := 0; i < sig.Params().Len(); i++ {
		ps = append(ps, gfType(sig.Params().At(i).Type()))
	}
	if sig.Results().Len() != 1 {
		gfFail("closure with %d results", sig.Results().Len())
	}
	ps = append(ps, "R ("+gfType(sig.Results().At(0).Type())+")")
	return "(" + strings.Join(ps, " → ") + ")"
}

// monadic closure: any statements, `return e` ↦ `pure e`; must not assign captured variables
func (c *gfCtx) mclosure(x *ast.FuncLit) string {
	if c.pure {
		gfFail("closure inside a pure closure")
	}
	var ps []string
	for _, f := range x.Type.Params.List {
		if len(f.Names) == 0 {
			gfFail("closure with unnamed parameter")
		}
		for _, n := range f.Names {
			ps = append(ps, "("+c.name(c.info.ObjectOf(n))+" : "+gfType(c.typeOf(f.Type))+")")
		}
	}
	if vs := c.assigned([]ast.Node{x.Body}, x); len(vs) > 0 {
		gfFail("closure assigns captured variable %s", vs[0].name)
	}
	savedPre, savedLoop, savedInout, savedFd, savedRes := c.pre, c.inLoop, c.inout, c.fd, c.results
	c.pre, c.inLoop, c.inout = nil, 0, nil
	savedSwk := c.swk // T1
	c.swk = nil
	defer func() { c.swk = savedSwk }()
	c.fd = &ast.FuncDecl{Type: x.Type, Body: x.Body}
	c.results = x.Type.Results.NumFields()
	lines := c.stmts(x.Body.List, func() []string { gfFail("closure end reached without return"); return nil })
	c.pre, c.inLoop, c.inout, c.fd, c.results = savedPre, savedLoop, savedInout, savedFd, savedRes
	return "(fun " + strings.Join(ps, " ") + " => do\n      " + strings.Join(indN(lines, "      "), "\n      ") + ")"
}

// re-indent the continuation lines of multi-line items
func indN(lines []string, pre string) []string {
	out := make([]string, len(lines))
	for i, l := range lines {
		out[i] = strings.ReplaceAll(l, "\n", "\n"+pre)
	}
	return out
}

// call of a function value (closure parameter / local): pure application
func (c *gfCtx) callValue(x *ast.CallExpr) string {
	id, ok := unparen(x.Fun).(*ast.Ident)
	if !ok {
		gfFail("call of %T", x.Fun)
	}
	if _, ok := c.typeOf(id).Underlying().(*types.Signature); !ok {
		gfFail("call of %s", id.Name)
	}
	sig := c.typeOf(id).Underlying().(*types.Signature)
	obj := c.info.ObjectOf(id)
	parts := []string{c.name(obj)}
	for _, a := range x.Args {
		parts = append(parts, c.expr(a))
	}
	if c.mfuncs[obj] {
		return c.hoist(gfType(sig.Results()), strings.Join(parts, " "))
	}
	return "(" + strings.Join(parts, " ") + ")"
}

func (c *gfCtx) isSpaceCollapser(id *ast.Ident) bool {
	obj, ok := c.info.ObjectOf(id).(*types.Var)
	if !ok || obj.Pkg() == nil || obj.Parent() != obj.Pkg().Scope() || id.Name != "spaceCollapser" {
		return false
	}
	// its initialiser must be regexp.MustCompile(" +")
	for _, f := range c.pkg.Syntax {
		for _, d := range f.Decls {
			gd, ok := d.(*ast.GenDecl)
			if !ok || gd.Tok != token.VAR {
				continue
			}
			for _, s := range gd.Specs {
				vs := s.(*ast.ValueSpec)
				for i, n := range vs.Names {
					if c.info.ObjectOf(n) == obj && i < len(vs.Values) {
						return exprText(c.pkg.Fset, vs.Values[i]) == `regexp.MustCompile(" +")`
					}
				}
			}
		}
	}
	return false
}

// call of a translated function: monadic; in-out parameters are re-bound from the extra results
func (c *gfCtx) callSpec(sp *gfSpec, fn *types.Func, argExprs []ast.Expr) string {
	if why := c.w.ensure(sp); why != "" {
		gfFail("callee %s refused (%s)", sp.goName(), why)
	}
	sig := fn.Type().(*types.Signature)
	// parameter names, receiver first
	var pnames []string
	if sig.Recv() != nil {
		pnames = append(pnames, sig.Recv().Name())
	}
	for i := 0; i < sig.Params().Len(); i++ {
		pnames = append(pnames, sig.Params().At(i).Name())
	}
	isInout := func(n string) int {
		for i, io := range sp.inout {
			if io == n {
				return i
			}
		}
		return -1
	}
	vals := make([]string, len(argExprs))
	ioObjs := make([]types.Object, len(sp.inout))
	for i, a := range argExprs {
		if k := isInout(pnames[i]); k >= 0 {
			obj := c.inoutVar(a)
			ioObjs[k] = obj
			vals[i] = c.name(obj)
		} else if fl, ok := unparen(a).(*ast.FuncLit); ok {
			vals[i] = c.mclosure(fl)
		} else if id, ok := unparen(a).(*ast.Ident); ok && c.mfuncs[c.info.ObjectOf(id)] {
			vals[i] = c.name(c.info.ObjectOf(id))
		} else {
			vals[i] = c.expr(a)
		}
	}
	c.checkClosureCaptures(sp, argExprs, ioObjs) // T1
	nres := sig.Results().Len()
	total := nres + len(sp.inout)
	t := c.hoist(c.w.sigs[sp.key()+"#res"], sp.lean+" cx "+strings.Join(vals, " "))
	for k, obj := range ioObjs {
		ty := gfType(obj.Type())
		c.pre = append(c.pre, fmt.Sprintf("let %s : %s := %s", c.name(obj), ty, gfProj(t, nres+k, total)))
	}
	switch nres {
	case 0:
		return "()"
	case 1:
		return gfProj(t, 0, total)
	}
	// multiple results: a tuple value of the Go results only
	var rs []string
	for i := 0; i < nres; i++ {
		rs = append(rs, gfProj(t, i, total))
	}
	return "(" + strings.Join(rs, ", ") + ")"
}

// gofn, part 3: statements, functions, output file.

type gfVar struct{ name, ty string }

func (c *gfCtx) take() []string {
	p := c.pre
	c.pre = nil
	return p
}

func isPanicCall(c *gfCtx, e ast.Expr) bool {
	call, ok := unparen(e).(*ast.CallExpr)
	if !ok {
		return false
	}
	id, ok := unparen(call.Fun).(*ast.Ident)
	if !ok || id.Name != "panic" {
		return false
	}
	_, isB := c.info.ObjectOf(id).(*types.Builtin)
	return isB
}

// does n contain a return (outside closures) / a panic statement?
func (c *gfCtx) exits(n ast.Node) (ret, pan bool) {
	brk, _ := loopCtl(n, false)
	if brk {
		pan = true // a `break` ends the branch like a panic does: continuation duplication
	}
	ast.Inspect(n, func(m ast.Node) bool {
		switch s := m.(type) {
		case *ast.FuncLit:
			return false
		case *ast.ReturnStmt:
			ret = true
		case *ast.ExprStmt:
			if isPanicCall(c, s.X) {
				pan = true
			}
		}
		return true
	})
	return
}

// does the loop body n contain a `break` of this loop / a `return`?  (continue, goto, labels: refused)
func loopCtl(n ast.Node, strict bool) (brk, ret bool) {
	var walk func(m ast.Node, nested bool)
	walk = func(m ast.Node, nested bool) {
		ast.Inspect(m, func(k ast.Node) bool {
			if k == nil || k == m {
				return true
			}
			switch s := k.(type) {
			case *ast.FuncLit:
				return false
			case *ast.ForStmt:
				walk(s.Body, true)
				return false
			case *ast.RangeStmt:
				walk(s.Body, true)
				return false
			case *ast.SwitchStmt, *ast.TypeSwitchStmt, *ast.SelectStmt:
				if strict {
					gfFail("switch/select inside a loop")
				}
				return false
			case *ast.BranchStmt:
				if s.Label != nil || s.Tok != token.BREAK {
					if strict {
						gfFail("continue/goto/labelled break")
					}
					return true
				}
				if !nested {
					brk = true
				}
			case *ast.ReturnStmt:
				if nested && strict {
					gfFail("return inside a nested loop")
				}
				ret = true
			}
			return true
		})
	}
	walk(n, false)
	return
}

func tupleOf(vars []gfVar) (val, ty string) {
	if len(vars) == 0 {
		return "()", "Unit"
	}
	var ns, ts []string
	for _, v := range vars {
		ns = append(ns, v.name)
		ts = append(ts, v.ty)
	}
	if len(vars) == 1 {
		return ns[0], ts[0]
	}
	return "(" + strings.Join(ns, ", ") + ")", strings.Join(ts, " × ")
}

func unpack(src string, vars []gfVar) []string {
	var out []string
	if len(vars) == 1 && vars[0].name == src {
		return nil
	}
	for i, v := range vars {
		out = append(out, fmt.Sprintf("let %s : %s := %s", v.name, v.ty, gfProj(src, i, len(vars))))
	}
	return out
}

// variables assigned inside `nodes` whose declaration lies outside `outer`
func (c *gfCtx) assigned(nodes []ast.Node, outer ast.Node) []gfVar {
	var out []gfVar
	seen := map[string]bool{}
	add := func(obj types.Object, field string) {
		if obj == nil {
			return
		}
		v, ok := obj.(*types.Var)
		if !ok || v.Name() == "_" {
			return
		}
		if outer != nil && v.Pos() >= outer.Pos() && v.Pos() < outer.End() {
			return
		}
		name, ty := "", ""
		if m := c.shadowF[obj]; m != nil && field != "" {
			if n, ok := m[field]; ok {
				name, ty = n, "Option (List α)"
			}
		}
		if name == "" {
			name, ty = c.name(obj), gfType(v.Type())
		}
		if !seen[name] {
			seen[name] = true
			out = append(out, gfVar{name, ty})
		}
	}
	lhs := func(e ast.Expr) {
		e = unparen(e)
		field := ""
		for {
			switch x := e.(type) {
			case *ast.SelectorExpr:
				field = x.Sel.Name
				e = unparen(x.X)
				continue
			case *ast.IndexExpr:
				e = unparen(x.X)
				continue
			case *ast.StarExpr:
				e = unparen(x.X)
				continue
			}
			break
		}
		if id, ok := e.(*ast.Ident); ok {
			add(c.info.ObjectOf(id), field)
		}
	}
	for _, n := range nodes {
		if n == nil {
			continue
		}
		ast.Inspect(n, func(m ast.Node) bool {
			switch s := m.(type) {
			case *ast.FuncLit:
				return false
			case *ast.AssignStmt:
				if s.Tok != token.DEFINE {
					for _, l := range s.Lhs {
						lhs(l)
					}
				} else {
					// `:=` may re-assign an existing variable when at least one is new
					for _, l := range s.Lhs {
						if id, ok := l.(*ast.Ident); ok && c.info.Defs[id] == nil {
							lhs(l)
						}
					}
				}
			case *ast.IncDecStmt:
				lhs(s.X)
			case *ast.CallExpr:
				if id, ok := unparen(s.Fun).(*ast.Ident); ok && id.Name == "copy" && len(s.Args) == 2 {
					lhs(s.Args[0])
				}
				fn := c.calleeOf(s)
				if fn == nil {
					return true
				}
				sp, ok := c.w.specs[strings.Replace(fn.FullName(), "(*", "(", 1)]
				if !ok || len(sp.inout) == 0 {
					return true
				}
				sig := fn.Type().(*types.Signature)
				var args []ast.Expr
				var pn []string
				if sig.Recv() != nil {
					args = append(args, s.Fun.(*ast.SelectorExpr).X)
					pn = append(pn, sig.Recv().Name())
				}
				args = append(args, s.Args...)
				for i := 0; i < sig.Params().Len(); i++ {
					pn = append(pn, sig.Params().At(i).Name())
				}
				for i, a := range args {
					for _, io := range sp.inout {
						if i < len(pn) && pn[i] == io {
							a = unparen(a)
							if u, ok := a.(*ast.UnaryExpr); ok && u.Op == token.AND {
								a = unparen(u.X)
							}
							if id, ok := a.(*ast.Ident); ok {
								add(c.info.ObjectOf(id), "")
							}
						}
					}
				}
			}
			return true
		})
	}
	return out
}

func ind(lines []string) []string {
	out := make([]string, len(lines))
	for i, l := range lines {
		out[i] = "    " + strings.ReplaceAll(l, "\n", "\n    ")
	}
	return out
}

// `let <pat> : ty ← (if c then (do a) else (do b))`
func letIf(target, ty, cond string, a, b []string) []string {
	lines := gfIf(cond, a, b)
	lines[0] = "let " + target + " : " + ty + " ← (" + lines[0]
	lines[len(lines)-1] += ")"
	return lines
}

func (c *gfCtx) retLine(vals []string) string {
	for _, io := range c.inout {
		vals = append(vals, c.name(io))
	}
	switch len(vals) {
	case 0:
		return "pure ()"
	case 1:
		return "pure " + vals[0]
	}
	return "pure (" + strings.Join(vals, ", ") + ")"
}

// set field `f` of the struct variable obj to value v
func (c *gfCtx) setField(obj types.Object, field, v string) string {
	key := gfNamedKey(obj.Type())
	st, ok := gfStructs[key]
	if !ok {
		gfFail("field assignment on %s", obj.Type().String())
	}
	if m := c.shadowF[obj]; m != nil {
		if n, ok := m[field]; ok {
			c.dirty[obj] = true
			return fmt.Sprintf("let %s : Option (List α) := %s", n, v)
		}
	}
	lf, ok := st.fields[field]
	if !ok {
		gfFail("field %s.%s has no model counterpart", key, field)
	}
	n := c.name(obj)
	if s, ok := st.set[field]; ok {
		return fmt.Sprintf("let %s : %s := (%s %s %s)", n, st.lean, s, n, v)
	}
	return fmt.Sprintf("let %s : %s := { %s with %s := %s }", n, st.lean, n, lf, v)
}

func (c *gfCtx) assignTo(l ast.Expr, v string, define bool) []string {
	l = unparen(l)
	switch x := l.(type) {
	case *ast.Ident:
		if x.Name == "_" {
			return nil
		}
		obj := c.info.ObjectOf(x)
		if _, ok := obj.(*types.Var); !ok {
			gfFail("assignment to %s", x.Name)
		}
		if vv := obj.(*types.Var); vv.Pkg() != nil && vv.Parent() == vv.Pkg().Scope() {
			gfFail("assignment to package variable %s", x.Name)
		}
		delete(c.dirty, obj)
		return []string{fmt.Sprintf("let %s : %s := %s", c.name(obj), gfType(obj.Type()), v)}
	case *ast.SelectorExpr:
		id, ok := unparen(x.X).(*ast.Ident)
		if !ok {
			gfFail("assignment to a nested field")
		}
		return []string{c.setField(c.info.ObjectOf(id), x.Sel.Name, v)}
	case *ast.IndexExpr:
		if _, ok := c.typeOf(x.X).Underlying().(*types.Slice); !ok {
			gfFail("element assignment on %s", c.typeOf(x.X).String())
		}
		cur := c.vexpr(x.X)
		i := c.vexpr(x.Index)
		pre := c.take()
		t := c.fresh()
		pre = append(pre, fmt.Sprintf("let %s : %s ← Go.sliceSet %s %s %s", t, gfType(c.typeOf(x.X)), cur, i, v))
		return append(pre, c.assignTo(x.X, t, false)...)
	}
	gfFail("assignment to %T", l)
	return nil
}

func (c *gfCtx) stmts(list []ast.Stmt, k func() []string) []string {
	if len(list) == 0 {
		return k()
	}
	rest := func() []string { return c.stmts(list[1:], k) }
	switch s := list[0].(type) {
	case *ast.EmptyStmt:
		return rest()
	case *ast.BlockStmt:
		return c.stmts(append(append([]ast.Stmt{}, s.List...), list[1:]...), k)
	case *ast.BranchStmt:
		if s.Tok == token.BREAK && s.Label == nil && len(c.swk) > 0 && c.swk[len(c.swk)-1].inLoop == c.inLoop {
			return c.swk[len(c.swk)-1].after() // T1: `break` inside a switch case (not inside a loop of that case)
		}
		if s.Tok == token.BREAK && s.Label == nil && len(c.ctl) > 0 && c.ctl[len(c.ctl)-1] != "" {
			return []string{"pure (" + c.ctl[len(c.ctl)-1] + ", Go.Ctl.brk)"}
		}
		gfFail("branch statement %s", s.Tok)
	case *ast.ReturnStmt:
		if c.inLoop > 0 {
			if !(c.inLoop == 1 && len(c.ctl) == 1 && c.ctl[0] != "") || len(c.inout) > 0 {
				gfFail("return inside a loop")
			}
			var vals []string
			for _, r := range s.Results {
				vals = append(vals, c.expr(r))
			}
			rv := "()"
			if len(vals) == 1 {
				rv = vals[0]
			} else if len(vals) > 1 {
				rv = "(" + strings.Join(vals, ", ") + ")"
			}
			return append(c.take(), "pure ("+c.ctl[0]+", Go.Ctl.ret "+rv+")")
		}
		var vals []string
		for _, r := range s.Results {
			vals = append(vals, c.expr(r))
		}
		if len(s.Results) == 0 && c.fd.Type.Results != nil && len(c.fd.Type.Results.List) > 0 {
			gfFail("bare return with results")
		}
		if len(s.Results) == 1 && c.fd.Type.Results != nil && c.fd.Type.Results.NumFields() > 1 {
			gfFail("return of a multi-valued call")
		}
		return append(c.take(), c.retLine(vals))
	case *ast.ExprStmt:
		if isPanicCall(c, s.X) {
			return []string{"throw Err.explicit"}
		}
		call, ok := unparen(s.X).(*ast.CallExpr)
		if !ok {
			gfFail("expression statement %T", s.X)
		}
		// copy(dst, src)
		if id, ok := unparen(call.Fun).(*ast.Ident); ok && id.Name == "copy" {
			if _, isB := c.info.ObjectOf(id).(*types.Builtin); isB {
				src := c.vexpr(call.Args[1])
				dst := c.vexpr(call.Args[0])
				out := c.take()
				out = append(out, c.assignTo(call.Args[0], "(Go.copySlice "+dst+" "+src+")", false)...)
				return append(out, rest()...)
			}
		}
		n := len(c.pre)
		c.vexpr(call)
		if len(c.pre) == n {
			gfFail("call statement without a modelled effect")
		}
		return append(c.take(), rest()...)
	case *ast.DeclStmt:
		gd := s.Decl.(*ast.GenDecl)
		if gd.Tok == token.CONST || gd.Tok == token.TYPE {
			return rest()
		}
		var out []string
		for _, sp := range gd.Specs {
			vs := sp.(*ast.ValueSpec)
			for i, n := range vs.Names {
				obj := c.info.ObjectOf(n)
				v := ""
				if i < len(vs.Values) {
					v = c.expr(vs.Values[i])
				} else if len(vs.Values) == 0 {
					v = gfZero(obj.Type())
				} else {
					gfFail("var declaration shape")
				}
				out = append(out, c.take()...)
				if n.Name != "_" {
					out = append(out, fmt.Sprintf("let %s : %s := %s", c.name(obj), gfType(obj.Type()), v))
				}
			}
		}
		return append(out, rest()...)
	case *ast.IncDecStmt:
		op := "+"
		if s.Tok == token.DEC {
			op = "-"
		}
		v := "(" + c.vexpr(s.X) + " " + op + " (1 : Int))"
		if isRune(c.typeOf(s.X)) {
			// r++ on a rune: the next code point
			if s.Tok != token.INC {
				gfFail("-- on a rune")
			}
			v = "(Go.runeSucc cx " + c.vexpr(s.X) + ")"
		} else if !isInt(c.typeOf(s.X)) {
			gfFail("%s on %s", s.Tok, c.typeOf(s.X).String())
		}
		out := c.take()
		out = append(out, c.assignTo(s.X, v, false)...)
		return append(out, rest()...)
	case *ast.AssignStmt:
		return append(c.assign(s), rest()...)
	case *ast.IfStmt:
		if s.Init != nil {
			s2 := *s
			s2.Init = nil
			return c.stmts(append([]ast.Stmt{s.Init, &s2}, list[1:]...), k)
		}
		cond := c.cond(s.Cond)
		pre := c.take()
		var elseStmts []ast.Stmt
		if s.Else != nil {
			elseStmts = []ast.Stmt{s.Else}
		}
		ret, pan := c.exits(s)
		if ret || pan {
			if ret && c.inLoop > 0 && !(c.inLoop == 1 && len(c.ctl) == 1 && c.ctl[0] != "") {
				gfFail("return inside a loop")
			}
			thenL := c.stmts(append(append([]ast.Stmt{}, s.Body.List...), list[1:]...), k)
			elseL := c.stmts(append(append([]ast.Stmt{}, elseStmts...), list[1:]...), k)
			return append(pre, gfIf(cond, thenL, elseL)...)
		}
		nodes := []ast.Node{s.Body}
		if s.Else != nil {
			nodes = append(nodes, s.Else)
		}
		vars := c.assigned(nodes, s)
		val, ty := tupleOf(vars)
		kk := func() []string { return []string{"pure " + val} }
		thenL := c.stmts(s.Body.List, kk)
		elseL := c.stmts(elseStmts, kk)
		if len(vars) == 1 {
			pre = append(pre, letIf(vars[0].name, ty, cond, thenL, elseL)...)
		} else {
			t := c.fresh()
			pre = append(pre, letIf(t, ty, cond, thenL, elseL)...)
			pre = append(pre, unpack(t, vars)...)
		}
		return append(pre, rest()...)
	case *ast.SwitchStmt:
		return c.switchStmt(s, list[1:], k) // T1
	case *ast.ForStmt:
		lines, rt := c.forStmt(s)
		return c.afterLoop(lines, rt, rest)
	case *ast.RangeStmt:
		lines, rt := c.rangeStmt(s)
		return c.afterLoop(lines, rt, rest)
	}
	gfFail("statement %T", list[0])
	return nil
}

// ---------------------------------------------------------------------------------------------
// T1: switch statements; closures that read an in-out argument of the call they are passed to

type gfSwFrame struct {
	inLoop int             // c.inLoop when the switch was entered: a `break` at that loop depth leaves the switch
	after  func() []string // the translation of everything that follows the switch
}

// `switch init; tag { case a, b: … default: … }` (also without tag) as an if-chain in source order, the default
// clause last.  Go compares the tag with the case values top to bottom, left to right, and runs the first
// clause that matches; without `fallthrough` (refused) control then leaves the switch, as a `break` does.
// When a clause returns, panics or breaks, the statements after the switch are the continuation of every
// clause (duplicated, like for an `if` that returns); otherwise the switch is a bound tuple of the variables
// it assigns, like an `if` that assigns.  Case values must be free of panics (no hoisting).
func (c *gfCtx) switchStmt(s *ast.SwitchStmt, tail []ast.Stmt, k func() []string) []string {
	if s.Init != nil {
		s2 := *s
		s2.Init = nil
		return c.stmts(append([]ast.Stmt{s.Init, &s2}, tail...), k)
	}
	var out []string
	tag := ""
	var tagTy types.Type
	if s.Tag != nil {
		tagTy = c.typeOf(s.Tag)
		b, isBasic := tagTy.Underlying().(*types.Basic)
		if !isBasic || !(isInt(tagTy) || isStringy(tagTy) || isBool(tagTy) || b.Kind() == types.Int32) {
			gfFail("switch on %s", tagTy.String())
		}
		v := c.expr(s.Tag)
		out = c.take()
		if _, isId := unparen(s.Tag).(*ast.Ident); isId {
			tag = v
		} else {
			tag = c.fresh()
			out = append(out, fmt.Sprintf("let %s : %s := %s", tag, gfType(tagTy), v))
		}
	}
	var clauses []*ast.CaseClause
	var conds []string
	var def *ast.CaseClause
	exitsAny := false
	var nodes []ast.Node
	for _, st := range s.Body.List {
		cl, ok := st.(*ast.CaseClause)
		if !ok {
			gfFail("switch body %T", st)
		}
		if ret, pan := c.exits(cl); ret || pan {
			exitsAny = true
		}
		nodes = append(nodes, cl)
		if cl.List == nil {
			def = cl
			continue
		}
		var alts []string
		for _, e := range cl.List {
			var a string
			switch {
			case s.Tag == nil:
				a = c.cond(e)
			case isBool(tagTy):
				a = "(" + tag + " = " + c.expr(e) + ")"
			default:
				a = "(" + tag + " = " + c.vexpr(e) + ")"
			}
			if len(c.pre) > 0 {
				gfFail("case value that can panic")
			}
			alts = append(alts, a)
		}
		cond := alts[0]
		if len(alts) > 1 {
			cond = "(" + strings.Join(alts, " ∨ ") + ")"
		}
		clauses = append(clauses, cl)
		conds = append(conds, cond)
	}
	if len(clauses) == 0 {
		gfFail("switch without case clauses")
	}
	depth := len(c.swk)
	outside := func(f func() []string) func() []string { // run f with the switch stack as it is outside this switch
		return func() []string {
			saved := c.swk
			c.swk = c.swk[:depth:depth]
			defer func() { c.swk = saved }()
			return f()
		}
	}
	var build func(i int, end func() []string) []string
	build = func(i int, end func() []string) []string {
		if i == len(clauses) {
			if def != nil {
				return c.stmts(def.Body, end)
			}
			return end()
		}
		thenL := c.stmts(clauses[i].Body, end)
		return gfIf(conds[i], thenL, build(i+1, end))
	}
	if exitsAny {
		if c.inLoop > 0 {
			gfFail("switch with return/break inside a loop")
		}
		after := outside(func() []string { return c.stmts(tail, k) })
		c.swk = append(c.swk, gfSwFrame{c.inLoop, after})
		lines := build(0, after)
		c.swk = c.swk[:depth]
		return append(out, lines...)
	}
	vars := c.assigned(nodes, s)
	val, ty := tupleOf(vars)
	kk := func() []string { return []string{"pure " + val} }
	c.swk = append(c.swk, gfSwFrame{c.inLoop, outside(kk)})
	lines := build(0, kk)
	c.swk = c.swk[:depth]
	target := c.fresh()
	if len(vars) == 1 {
		target = vars[0].name
	}
	lines[0] = "let " + target + " : " + ty + " ← (" + lines[0]
	lines[len(lines)-1] += ")"
	out = append(out, lines...)
	if len(vars) != 1 {
		out = append(out, unpack(target, vars)...)
	}
	return append(out, c.stmts(tail, k)...)
}

// A closure literal passed to a translated function together with an in-out argument `x` is translated as a
// Lean function that sees the value `x` has when the call starts.  In Go the closure shares `x` with the callee,
// so it sees the callee's writes.  The two agree when the callee writes its in-out parameter only after its last
// use of the function parameter; this is checked on the callee's top-level statements, otherwise the caller is
// refused.
func (c *gfCtx) checkClosureCaptures(sp *gfSpec, argExprs []ast.Expr, ioObjs []types.Object) {
	for _, a := range argExprs {
		fl, ok := unparen(a).(*ast.FuncLit)
		if !ok {
			continue
		}
		for _, obj := range ioObjs {
			reads := false
			ast.Inspect(fl.Body, func(m ast.Node) bool {
				if id, ok := m.(*ast.Ident); ok && obj != nil && c.info.ObjectOf(id) == obj {
					reads = true
				}
				return !reads
			})
			if reads && !c.w.writesInoutLate(sp) {
				gfFail("closure reads %s, which %s may write before its last call of the closure", obj.Name(), sp.goName())
			}
		}
	}
}

// every use of a function-typed parameter of sp lies in a top-level statement before the first top-level
// statement that may write an in-out parameter (assignment through it, or it is the receiver / an argument of a call)
func (w *gfWorld) writesInoutLate(sp *gfSpec) bool {
	fd, pkg := w.funcs[sp.key()], w.funcPkg[sp.key()]
	if fd == nil || fd.Body == nil {
		return false
	}
	info := pkg.TypesInfo
	ios, fns := map[types.Object]bool{}, map[types.Object]bool{}
	fields := []*ast.FieldList{fd.Recv, fd.Type.Params}
	for _, fl := range fields {
		if fl == nil {
			continue
		}
		for _, f := range fl.List {
			for _, n := range f.Names {
				o := info.ObjectOf(n)
				for _, io := range sp.inout {
					if n.Name == io {
						ios[o] = true
					}
				}
				if _, isF := o.Type().Underlying().(*types.Signature); isF {
					fns[o] = true
				}
			}
		}
	}
	isIO := func(e ast.Expr) bool {
		e = unparen(e)
		if u, ok := e.(*ast.UnaryExpr); ok && u.Op == token.AND {
			e = unparen(u.X)
		}
		id, ok := e.(*ast.Ident)
		return ok && ios[info.ObjectOf(id)]
	}
	root := func(e ast.Expr) ast.Expr {
		for {
			switch x := unparen(e).(type) {
			case *ast.SelectorExpr:
				e = x.X
				continue
			case *ast.IndexExpr:
				e = x.X
				continue
			case *ast.StarExpr:
				e = x.X
				continue
			case *ast.SliceExpr:
				e = x.X
				continue
			}
			return unparen(e)
		}
	}
	written := false
	for _, st := range fd.Body.List {
		usesFn, writes := false, false
		ast.Inspect(st, func(m ast.Node) bool {
			switch x := m.(type) {
			case *ast.Ident:
				if fns[info.ObjectOf(x)] {
					usesFn = true
				}
			case *ast.AssignStmt:
				for _, l := range x.Lhs {
					if isIO(root(l)) {
						writes = true
					}
				}
			case *ast.IncDecStmt:
				if isIO(root(x.X)) {
					writes = true
				}
			case *ast.RangeStmt:
				if x.Tok == token.ASSIGN && ((x.Key != nil && isIO(root(x.Key))) || (x.Value != nil && isIO(root(x.Value)))) {
					writes = true
				}
			case *ast.CallExpr:
				if sel, ok := unparen(x.Fun).(*ast.SelectorExpr); ok && isIO(sel.X) {
					writes = true
				}
				for _, a := range x.Args {
					if isIO(a) || (len(x.Args) > 0 && a == x.Args[0] && isIO(root(a)) && isBuiltin(info, x.Fun, "copy", "append")) {
						writes = true
					}
				}
			case *ast.UnaryExpr:
				if x.Op == token.AND && isIO(root(x.X)) {
					writes = true
				}
			}
			return true
		})
		if usesFn && (written || writes) {
			return false
		}
		if writes {
			written = true
		}
	}
	return true
}

func isBuiltin(info *types.Info, fun ast.Expr, names ...string) bool {
	id, ok := unparen(fun).(*ast.Ident)
	if !ok {
		return false
	}
	if _, isB := info.ObjectOf(id).(*types.Builtin); !isB {
		return false
	}
	for _, n := range names {
		if id.Name == n {
			return true
		}
	}
	return false
}

// after a loop that may `return`: the rest runs only when the loop did not return
func (c *gfCtx) afterLoop(lines []string, rt string, rest func() []string) []string {
	if rt == "" {
		return append(lines, rest()...)
	}
	out := append(lines, "(match "+rt+" with")
	out = append(out, "  | some v_ret => pure v_ret")
	out = append(out, "  | none => (do")
	out = append(out, ind(rest())...)
	out[len(out)-1] += "))"
	return out
}

func (c *gfCtx) assign(s *ast.AssignStmt) []string {
	var out []string
	// pending byte slices `p := s[:a]`, `q := s[b:]`
	if s.Tok == token.DEFINE && len(s.Lhs) == 1 && len(s.Rhs) == 1 {
		if sl, ok := unparen(s.Rhs[0]).(*ast.SliceExpr); ok && isStringy(c.typeOf(sl.X)) && !sl.Slice3 &&
			((sl.Low == nil) != (sl.High == nil)) {
			if id, ok := s.Lhs[0].(*ast.Ident); ok && id.Name != "_" {
				base := c.vexpr(sl.X)
				p := gfPend{base: base, isPrefix: sl.Low == nil}
				if sl.Low == nil {
					p.off = c.vexpr(sl.High)
				} else {
					p.off = c.vexpr(sl.Low)
				}
				if len(c.pre) > 0 {
					gfFail("byte slice with a panicking operand")
				}
				c.pend[c.info.ObjectOf(id)] = p
				return nil
			}
		}
	}
	// `x.ref = &parentRef{parent: &p, start: a, end: b}` on an Editor x: x becomes a sub-editor of p
	if s.Tok == token.ASSIGN && len(s.Lhs) == 1 && len(s.Rhs) == 1 {
		if sel, ok := unparen(s.Lhs[0]).(*ast.SelectorExpr); ok && sel.Sel.Name == "ref" &&
			gfNamedKey(c.typeOf(sel.X)) == gfMod+".Editor" {
			id, ok1 := unparen(sel.X).(*ast.Ident)
			u, ok2 := unparen(s.Rhs[0]).(*ast.UnaryExpr)
			if !ok1 || !ok2 || u.Op != token.AND {
				gfFail("assignment to ref")
			}
			lit, ok3 := unparen(u.X).(*ast.CompositeLit)
			if !ok3 || gfNamedKey(c.typeOf(lit)) != gfMod+".parentRef" {
				gfFail("assignment to ref")
			}
			vals := map[string]string{}
			for _, el := range lit.Elts {
				kv, ok := el.(*ast.KeyValueExpr)
				if !ok {
					gfFail("positional parentRef literal")
				}
				k := kv.Key.(*ast.Ident).Name
				if k == "parent" {
					pu, ok := unparen(kv.Value).(*ast.UnaryExpr)
					if !ok || pu.Op != token.AND {
						gfFail("parentRef.parent is not an address")
					}
					vals[k] = c.vexpr(pu.X)
				} else {
					vals[k] = c.expr(kv.Value)
				}
			}
			if len(vals) != 3 || vals["parent"] == "" || vals["start"] == "" || vals["end"] == "" {
				gfFail("parentRef literal shape")
			}
			obj := c.info.ObjectOf(id)
			out = append(out, c.take()...)
			return append(out, fmt.Sprintf("let %s : Editor α := (Go.edWithRef %s %s %s %s)", c.name(obj), c.name(obj), vals["parent"], vals["start"], vals["end"]))
		}
	}
	// local closure `f := func(…) … { … }`: a monadic Lean function
	if s.Tok == token.DEFINE && len(s.Lhs) == 1 && len(s.Rhs) == 1 {
		if fl, ok := unparen(s.Rhs[0]).(*ast.FuncLit); ok {
			id := s.Lhs[0].(*ast.Ident)
			obj := c.info.ObjectOf(id)
			body := c.mclosure(fl)
			c.mfuncs[obj] = true
			return []string{fmt.Sprintf("let %s : %s := %s", c.name(obj), gfMType(obj.Type().Underlying().(*types.Signature)), body)}
		}
	}
	if len(c.pend) > 0 {
		// a pending byte slice must be consumed by the next statement
		defer func() {
			if len(c.pend) > 0 {
				gfFail("byte slice not consumed by `prefix + text + suffix` in the next statement")
			}
		}()
	}
	switch s.Tok {
	case token.ASSIGN, token.DEFINE:
		if len(s.Lhs) > 1 && len(s.Rhs) == 1 {
			v := c.vexpr(s.Rhs[0])
			out = append(out, c.take()...)
			t := c.fresh()
			tup, ok := c.typeOf(s.Rhs[0]).(*types.Tuple)
			if !ok {
				gfFail("multi-assignment from %T", s.Rhs[0])
			}
			out = append(out, fmt.Sprintf("let %s : %s := %s", t, gfType(tup), v))
			for i, l := range s.Lhs {
				out = append(out, c.assignTo(l, gfProj(t, i, len(s.Lhs)), s.Tok == token.DEFINE)...)
			}
			return out
		}
		if len(s.Lhs) != len(s.Rhs) {
			gfFail("assignment arity")
		}
		if len(s.Lhs) == 1 {
			v := c.expr(s.Rhs[0])
			out = append(out, c.take()...)
			return append(out, c.assignTo(s.Lhs[0], v, s.Tok == token.DEFINE)...)
		}
		// parallel assignment: all right-hand sides first
		var ts []string
		for _, r := range s.Rhs {
			v := c.expr(r)
			out = append(out, c.take()...)
			t := c.fresh()
			out = append(out, fmt.Sprintf("let %s : %s := %s", t, gfType(c.typeOf(r)), v))
			ts = append(ts, t)
		}
		for i, l := range s.Lhs {
			out = append(out, c.assignTo(l, ts[i], s.Tok == token.DEFINE)...)
		}
		return out
	case token.ADD_ASSIGN, token.SUB_ASSIGN, token.MUL_ASSIGN:
		if len(s.Lhs) != 1 {
			gfFail("assignment arity")
		}
		lt := c.typeOf(s.Lhs[0])
		cur := c.vexpr(s.Lhs[0])
		r := c.vexpr(s.Rhs[0])
		var v string
		switch {
		case isStringy(lt) && s.Tok == token.ADD_ASSIGN:
			v = "(" + cur + " ++ " + r + ")"
		case isRune(lt) && s.Tok == token.ADD_ASSIGN && c.isOne(s.Rhs[0]):
			v = "(Go.runeSucc cx " + cur + ")"
		case isInt(lt):
			op := map[token.Token]string{token.ADD_ASSIGN: "+", token.SUB_ASSIGN: "-", token.MUL_ASSIGN: "*"}[s.Tok]
			v = "(" + cur + " " + op + " " + r + ")"
		default:
			gfFail("%s on %s", s.Tok, lt.String())
		}
		out = append(out, c.take()...)
		return append(out, c.assignTo(s.Lhs[0], v, false)...)
	}
	gfFail("assignment %s", s.Tok)
	return nil
}

func (c *gfCtx) fuel() string {
	if c.loopIdx >= len(c.spec.fuel) {
		gfFail("no fuel given for loop %d", c.loopIdx+1)
	}
	f := c.spec.fuel[c.loopIdx]
	c.loopIdx++
	// The fuel expression names variables of the Go function. After a harmless rename (or the removal of a
	// temporary) such a name no longer exists: refuse the function - its theorem then holds vacuously and the
	// tie falls back to the correspondence - rather than emit a file that does not compile and takes every
	// property down (behaviour-preserving rewrite H11c).
	for _, id := range gfFuelIdent.FindAllString(f, -1) {
		if c.used[id] == 0 {
			gfFail("the fuel expression of loop %d refers to %s, which is not a variable of this function any more", c.loopIdx, id)
		}
	}
	return f
}

var gfFuelIdent = regexp.MustCompile(`v_[A-Za-z0-9_]+`)

func hasBranch(n ast.Node) bool {
	found := false
	ast.Inspect(n, func(m ast.Node) bool {
		if _, ok := m.(*ast.BranchStmt); ok {
			found = true
		}
		if _, ok := m.(*ast.FuncLit); ok {
			return false
		}
		return !found
	})
	return found
}

func (c *gfCtx) forStmt(s *ast.ForStmt) ([]string, string) {
	var out []string
	if s.Init != nil {
		out = c.stmts([]ast.Stmt{s.Init}, func() []string { return nil })
	}
	brk, ret := loopCtl(s.Body, true)
	isCtl := brk || ret
	if s.Cond == nil {
		gfFail("loop without condition")
	}
	fuel := c.fuel()
	nodes := []ast.Node{s.Body}
	if s.Post != nil {
		nodes = append(nodes, s.Post)
	}
	vars := c.assigned(nodes, s.Body)
	if len(vars) == 0 {
		gfFail("loop assigns no variable")
	}
	val, ty := tupleOf(vars)
	un := unpack("s", vars)
	lam := "fun (s : " + ty + ") => do"
	if len(vars) == 1 {
		lam = "fun (" + vars[0].name + " : " + ty + ") => do"
		un = nil
	}
	c.inLoop++
	if isCtl {
		c.ctl = append(c.ctl, val)
	} else {
		c.ctl = append(c.ctl, "")
	}
	// condition
	cb := c.expr(s.Cond)
	condL := append(append(append([]string{}, un...), c.take()...), "pure "+cb)
	// body
	body := append([]ast.Stmt{}, s.Body.List...)
	if s.Post != nil {
		body = append(body, s.Post)
	}
	endL := "pure " + val
	if isCtl {
		endL = "pure (" + val + ", Go.Ctl.next)"
	}
	bodyL := append(append([]string{}, un...), c.stmts(body, func() []string { return []string{endL} })...)
	c.inLoop--
	c.ctl = c.ctl[:len(c.ctl)-1]
	t := c.fresh()
	if len(vars) == 1 && !isCtl {
		t = vars[0].name
	}
	if isCtl {
		out = append(out, fmt.Sprintf("let %s : (%s) × Option (%s) ← Go.whileCtlM (%s) (%s", t, ty, c.resTy, fuel, lam))
	} else {
		out = append(out, fmt.Sprintf("let %s : %s ← Go.whileM (%s) (%s", t, ty, fuel, lam))
	}
	out = append(out, ind(condL)...)
	out[len(out)-1] += ") (" + lam
	out = append(out, ind(bodyL)...)
	out[len(out)-1] += ") " + val
	if isCtl {
		out = append(out, unpack(t+".1", vars)...)
		if ret {
			return out, t + ".2"
		}
		return out, ""
	}
	out = append(out, unpack(t, vars)...)
	return out, ""
}

func (c *gfCtx) rangeStmt(s *ast.RangeStmt) ([]string, string) {
	xt := c.typeOf(s.X)
	brk, ret := loopCtl(s.Body, true)
	isCtl := brk || ret
	if s.Tok != token.DEFINE && (s.Key != nil || s.Value != nil) {
		gfFail("range with assignment to existing variables")
	}
	var elemTy string
	overString := false
	if sl, ok := xt.Underlying().(*types.Slice); ok {
		elemTy = gfType(sl.Elem())
	} else if isStringy(xt) {
		// `for byteIdx := range s`: the byte offset of every rune
		if s.Value != nil {
			gfFail("range over a string with a rune variable")
		}
		elemTy, overString = "Int", true
	} else {
		gfFail("range over %s", xt.String())
	}
	xs := c.vexpr(s.X)
	if overString {
		xs = "(Go.strByteOffsets cx " + xs + ")"
	}
	out := c.take()
	// a body that writes elements of the ranged slice: the slice is part of the loop state, the loop runs over
	// the snapshot (for its length only) and reads the current element at the start of every iteration
	mutates := false
	if bid, ok := unparen(s.X).(*ast.Ident); ok {
		robj := c.info.ObjectOf(bid)
		ast.Inspect(s.Body, func(m ast.Node) bool {
			if as, ok := m.(*ast.AssignStmt); ok {
				for _, l := range as.Lhs {
					if id, ok := unparen(l).(*ast.Ident); ok && c.info.ObjectOf(id) == robj {
						gfFail("range body re-assigns the ranged slice")
					}
					if ix, ok := unparen(l).(*ast.IndexExpr); ok {
						if id, ok := unparen(ix.X).(*ast.Ident); ok && c.info.ObjectOf(id) == robj {
							mutates = true
						}
					}
				}
			}
			return true
		})
	}
	kn, vn := "_i", "_x"
	if id, ok := s.Key.(*ast.Ident); ok && id.Name != "_" {
		kn = c.name(c.info.ObjectOf(id))
	}
	if id, ok := s.Value.(*ast.Ident); ok && id.Name != "_" {
		vn = c.name(c.info.ObjectOf(id))
	}
	if overString {
		kn, vn = "_i", kn // Go's key is the byte offset: the element of the ranged list
		if vn == "_i" {
			vn = "_x"
		}
	}
	vars := c.assigned([]ast.Node{s.Body}, s)
	val, ty := tupleOf(vars)
	un := unpack("s", vars)
	sn := "s"
	if len(vars) == 1 {
		sn = vars[0].name
		un = nil
	}
	if mutates {
		if kn == "_i" {
			kn = "v_rangeIdx"
		}
		if vn != "_x" {
			un = append(un, fmt.Sprintf("let %s : %s ← Go.idx %s %s", vn, elemTy, xs, kn))
			vn = "_x"
		}
	}
	c.inLoop++
	endL := "pure " + val
	if isCtl {
		c.ctl = append(c.ctl, val)
		endL = "pure (" + val + ", Go.Ctl.next)"
	} else {
		c.ctl = append(c.ctl, "")
	}
	bodyL := append(append([]string{}, un...), c.stmts(s.Body.List, func() []string { return []string{endL} })...)
	c.inLoop--
	c.ctl = c.ctl[:len(c.ctl)-1]
	t := c.fresh()
	if len(vars) == 1 && !isCtl {
		t = vars[0].name
	}
	if isCtl {
		out = append(out, fmt.Sprintf("let %s : (%s) × Option (%s) ← Go.forRangeCtlM %s (fun (%s : Int) (%s : %s) (%s : %s) => do", t, ty, c.resTy, xs, kn, vn, elemTy, sn, ty))
	} else {
		out = append(out, fmt.Sprintf("let %s : %s ← Go.forRangeM %s (fun (%s : Int) (%s : %s) (%s : %s) => do", t, ty, xs, kn, vn, elemTy, sn, ty))
	}
	out = append(out, ind(bodyL)...)
	out[len(out)-1] += ") " + val
	if isCtl {
		out = append(out, unpack(t+".1", vars)...)
		if ret {
			return out, t + ".2"
		}
		return out, ""
	}
	out = append(out, unpack(t, vars)...)
	return out, ""
}

// ---------------------------------------------------------------------------------------------
// functions

func (w *gfWorld) signature(sp *gfSpec, fd *ast.FuncDecl, pkg *packages.Package) (params []string, res string, objs []types.Object, inout []*types.Var) {
	info := pkg.TypesInfo
	add := func(fl *ast.FieldList) {
		if fl == nil {
			return
		}
		for _, f := range fl.List {
			if len(f.Names) == 0 {
				gfFail("unnamed parameter")
			}
			for _, n := range f.Names {
				objs = append(objs, info.ObjectOf(n))
			}
		}
	}
	add(fd.Recv)
	add(fd.Type.Params)
	for _, io := range sp.inout {
		found := false
		for _, o := range objs {
			if o.Name() == io {
				if _, ok := o.Type().(*types.Pointer); !ok {
					gfFail("in-out parameter %s is not a pointer", io)
				}
				inout = append(inout, o.(*types.Var))
				found = true
			}
		}
		if !found {
			gfFail("in-out parameter %s not found", io)
		}
	}
	for _, o := range objs {
		if _, ok := o.Type().(*types.Pointer); ok {
			isIO := false
			for _, io := range inout {
				if io == o {
					isIO = true
				}
			}
			if !isIO {
				gfFail("pointer parameter %s is not declared in-out", o.Name())
			}
		}
	}
	var rs []string
	if fd.Type.Results != nil {
		for _, f := range fd.Type.Results.List {
			n := len(f.Names)
			if n == 0 {
				n = 1
			}
			for i := 0; i < n; i++ {
				rs = append(rs, gfType(info.TypeOf(f.Type)))
			}
		}
	}
	for _, io := range inout {
		rs = append(rs, gfType(io.Type()))
	}
	res = "Unit"
	if len(rs) > 0 {
		res = strings.Join(rs, " × ")
	}
	return
}

func (w *gfWorld) translate(sp *gfSpec) (def string, err error) {
	key := sp.key()
	fd, pkg := w.funcs[key], w.funcPkg[key]
	if fd == nil || fd.Body == nil {
		return "", gfErr{"function not found"}
	}
	var header string
	defer func() {
		if r := recover(); r != nil {
			if e, ok := r.(gfErr); ok {
				err = e
				if header != "" {
					def = header + "\n  throw Err.explicit\n"
				}
				return
			}
			panic(r)
		}
	}()
	c := &gfCtx{w: w, pkg: pkg, info: pkg.TypesInfo, spec: sp, fd: fd, names: map[types.Object]string{}, used: map[string]int{},
		pend: map[types.Object]gfPend{}, shadowF: map[types.Object]map[string]string{}, dirty: map[types.Object]bool{},
		mfuncs: map[types.Object]bool{}}
	_, res, objs, inout := w.signature(sp, fd, pkg)
	c.inout = inout
	var ps []string
	for _, o := range objs {
		ps = append(ps, "("+c.name(o)+" : "+gfType(o.Type())+")")
		if _, ok := o.Type().Underlying().(*types.Signature); ok {
			c.mfuncs[o] = true
		}
	}
	header = fmt.Sprintf("def %s {α : Type} [DecidableEq α] (cx : Ctx α) %s : R (%s) := do", sp.lean, strings.Join(ps, " "), res)
	c.resTy = res
	w.sigs[key+"#res"] = res
	var lines []string
	// named results are variables with zero values
	if fd.Type.Results != nil {
		for _, f := range fd.Type.Results.List {
			for _, n := range f.Names {
				o := c.info.ObjectOf(n)
				lines = append(lines, fmt.Sprintf("let %s : %s := %s", c.name(o), gfType(o.Type()), gfZero(o.Type())))
			}
		}
	}
	// unmodelled Editor field `cache`: kept in a shadow local
	for _, o := range objs {
		if gfNamedKey(o.Type()) == gfMod+".Editor" {
			usesCache := false
			ast.Inspect(fd.Body, func(m ast.Node) bool {
				if se, ok := m.(*ast.SelectorExpr); ok && se.Sel.Name == "cache" {
					if id, ok := unparen(se.X).(*ast.Ident); ok && c.info.ObjectOf(id) == o {
						usesCache = true
					}
				}
				return true
			})
			if usesCache {
				n := c.name(o) + "_cache"
				c.shadowF[o] = map[string]string{"cache": n}
				lines = append(lines, fmt.Sprintf("let %s : Option (List α) := (Go.edCache %s)", n, c.name(o)))
			}
		}
	}
	end := func() []string {
		if fd.Type.Results != nil && len(fd.Type.Results.List) > 0 {
			gfFail("function end reached without return")
		}
		return []string{c.retLine(nil)}
	}
	lines = append(lines, c.stmts(fd.Body.List, end)...)
	if c.loopIdx != len(sp.fuel) {
		gfFail("fuel given for %d loops, found %d", len(sp.fuel), c.loopIdx)
	}
	var sb strings.Builder
	sb.WriteString(header + "\n")
	for _, l := range lines {
		sb.WriteString("  " + strings.ReplaceAll(l, "\n", "\n  ") + "\n")
	}
	return sb.String(), nil
}

// translate sp (and, first, everything it calls); returns "" or the reason for refusal
func (w *gfWorld) ensure(sp *gfSpec) string {
	key := sp.key()
	if st, ok := w.status[key]; ok {
		return st
	}
	if w.active[key] {
		return "recursion"
	}
	w.active[key] = true
	def, err := w.translate(sp)
	w.active[key] = false
	if err != nil {
		w.status[key] = err.Error()
		if w.status[key] == "" {
			w.status[key] = "refused"
		}
	} else {
		w.status[key] = ""
	}
	w.defs[key] = def
	w.order = append(w.order, key)
	return w.status[key]
}

func writeCode(dir, repo string) (string, error) {
	cfg := &packages.Config{Mode: packages.NeedName | packages.NeedSyntax | packages.NeedTypes |
		packages.NeedTypesInfo | packages.NeedFiles, Dir: repo}
	pkgs, err := packages.Load(cfg, "./...")
	if err != nil {
		return "", err
	}
	w := &gfWorld{pkgs: map[string]*packages.Package{}, status: map[string]string{}, defs: map[string]string{}, sigs: map[string]string{},
		active: map[string]bool{}, specs: map[string]*gfSpec{}, funcs: map[string]*ast.FuncDecl{}, funcPkg: map[string]*packages.Package{}}
	for i := range gfSpecs {
		w.specs[gfSpecs[i].key()] = &gfSpecs[i]
	}
	for _, p := range pkgs {
		if len(p.Errors) > 0 {
			return "", fmt.Errorf("package %s has errors: %v", p.PkgPath, p.Errors[0])
		}
		w.pkgs[p.PkgPath] = p
		for _, f := range p.Syntax {
			if strings.HasSuffix(p.Fset.Position(f.Pos()).Filename, "_test.go") {
				continue
			}
			for _, d := range f.Decls {
				fd, ok := d.(*ast.FuncDecl)
				if !ok {
					continue
				}
				if fn, ok := p.TypesInfo.ObjectOf(fd.Name).(*types.Func); ok {
					k := strings.Replace(fn.FullName(), "(*", "(", 1)
					if _, want := w.specs[k]; want {
						w.funcs[k] = fd
						w.funcPkg[k] = p
					}
				}
			}
		}
	}
	for i := range gfSpecs {
		w.ensure(&gfSpecs[i])
	}
	var sb strings.Builder
	sb.WriteString("-- GENERATED by harness translate (harness/gofn.go: go/packages, typed Go → Lean) from /repo. DO NOT EDIT.\n")
	sb.WriteString("import RosedVerif.Model.GoPrims\nset_option linter.unusedVariables false\nnamespace RosedVerif.Gen.Code\nopen RosedVerif\n\n")
	nOK := 0
	var refused []string
	for _, key := range w.order {
		sp := w.specs[key]
		if w.status[key] == "" {
			nOK++
			fmt.Fprintf(&sb, "/-- %s (translated) -/\n%s\ndef %s_extracted : Bool := true\n\n", sp.goName(), w.defs[key], sp.lean)
		} else {
			refused = append(refused, sp.goName())
			fmt.Fprintf(&sb, "-- %s: extraction refused: %s\n", sp.goName(), strings.ReplaceAll(w.status[key], "\n", " "))
			if w.defs[key] != "" {
				sb.WriteString(w.defs[key])
			} else {
				fmt.Fprintf(&sb, "-- (no stub: the signature could not be mapped)\n")
			}
			fmt.Fprintf(&sb, "\ndef %s_extracted : Bool := false\n\n", sp.lean)
		}
	}
	sb.WriteString("end RosedVerif.Gen.Code\n")
	msg := fmt.Sprintf("code=extracted(%d)/refused(%d:%s)", nOK, len(refused), strings.Join(refused, ","))
	return msg, writeIfChanged(filepath.Join(dir, "Code.lean"), sb.String())
}
