package main

// Runner: executes protocol cases against the REAL code (in-process, under
// recover, with a watchdog) and prints canonical results.

import (
	"bufio"
	"fmt"
	"os"
	"strconv"
	"strings"
	"time"
	"unicode/utf8"

	"github.com/dekarrin/rosed"
	vh "github.com/dekarrin/rosed/verifhook"
)

type entry struct {
	ed  rosed.Editor
	bad bool
}

func obsEditor(e rosed.Editor) string {
	if !sawRaw && !utf8.ValidString(e.Text) {
		return "X~invalid"
	}
	sub := 0
	if e.IsSubEditor() {
		sub = 1
	}
	return "E~" + encText(e.Text) + "~" + encOpts(e.Options) + "~" + strconv.Itoa(sub)
}

func digitsOf(n int) string { return strconv.Itoa(n) }

// Callback results are handed to the library as windows of longer arrays whose spare capacity holds
// sentinels (seeded change C08i: `append` into the slice a callback returned writes into the caller's
// memory). guardsIntact is checked after the operation.
const cbSentinel = "\x00SENTINEL\x00"

// One registry per library call (never package-level: the race stress runs evalStep in 8 goroutines).
type cbGuards struct{ g [][2][]string } // (full buffer, copy of what was returned)

func (cg *cbGuards) guardSlice(res []string) []string {
	if res == nil {
		return nil
	}
	buf := make([]string, len(res)+3)
	copy(buf, res)
	for i := len(res); i < len(buf); i++ {
		buf[i] = cbSentinel
	}
	cg.g = append(cg.g, [2][]string{buf, append([]string(nil), res...)})
	return buf[:len(res)]
}

func (cg *cbGuards) intact() bool {
	ok := true
	for _, g := range cg.g {
		buf, want := g[0], g[1]
		for i := range buf {
			if i < len(want) && buf[i] != want[i] || i >= len(want) && buf[i] != cbSentinel {
				ok = false
			}
		}
	}
	cg.g = cg.g[:0]
	return ok
}

func lineFn(id int, log *[]string, cg *cbGuards) rosed.LineOperation {
	f := lineFn0(id, log)
	return func(idx int, line string) []string { return cg.guardSlice(f(idx, line)) }
}

func lineFn0(id int, log *[]string) rosed.LineOperation {
	return func(idx int, line string) []string {
		*log = append(*log, encText(line))
		switch id {
		case 0:
			return []string{line}
		case 1:
			return []string{}
		case 2:
			return []string{line, line}
		case 3:
			if idx%2 == 1 {
				return nil
			}
			return []string{line}
		case 4:
			return []string{">" + line}
		case 5:
			return []string{line, ""}
		case 6:
			return []string{digitsOf(idx) + line}
		case 7:
			// a callback that itself uses the library on another multi-line text (buffers shared
			// between nested calls would be overwritten here); it returns its argument
			inner := rosed.Edit(line + "\n" + line + "\nx\ny\nz\n").Indent(1)
			if inner.LineCount() < 0 {
				return nil
			}
			return []string{line}
		}
		return []string{line}
	}
}

func paraFn(id int, log *[]string, cg *cbGuards) rosed.ParagraphOperation {
	f := paraFn0(id, log)
	return func(idx int, para, pre, suf string) []string { return cg.guardSlice(f(idx, para, pre, suf)) }
}

func paraFn0(id int, log *[]string) rosed.ParagraphOperation {
	return func(idx int, para, pre, suf string) []string {
		*log = append(*log, encText(para)+"_"+encText(pre)+"_"+encText(suf))
		switch id {
		case 0:
			return []string{para}
		case 1:
			return []string{}
		case 2:
			return []string{para, para}
		case 3:
			return []string{pre + para + suf}
		case 4:
			if idx%2 == 0 {
				return []string{para}
			}
			return nil
		case 5:
			return []string{digitsOf(idx) + para}
		}
		return []string{para}
	}
}

// evalStep returns the entry to append and the observation.
func evalStep(pool []entry, step string) (ent entry, obs string) {
	defer func() {
		if r := recover(); r != nil {
			ent = entry{bad: true}
			obs = "X~panic"
		}
	}()
	a := strings.Split(step, ",")
	bad := entry{bad: true}
	get := func(s string) (rosed.Editor, bool) {
		i, err := strconv.Atoi(s)
		if err != nil || i < 0 || i >= len(pool) || pool[i].bad {
			return rosed.Editor{}, false
		}
		return pool[i].ed, true
	}
	edRes := func(e rosed.Editor) (entry, string) {
		o := obsEditor(e)
		if o == "X~invalid" {
			return bad, o
		}
		return entry{ed: e}, o
	}
	if len(a) < 2 {
		return bad, "X~parse"
	}
	if a[0] == "edit" && len(a) == 3 {
		t, ok1 := decText(a[1])
		o, ok2 := decOpts(a[2])
		if !ok1 || !ok2 {
			return bad, "X~parse"
		}
		return edRes(rosed.Edit(t).WithOptions(o))
	}
	e, ok := get(a[1])
	if !ok {
		return bad, "X~dep"
	}
	ints := func(ss ...string) ([]int, bool) {
		out := make([]int, len(ss))
		for i, s := range ss {
			n, ok := decInt(s)
			if !ok {
				return nil, false
			}
			out[i] = n
		}
		return out, true
	}
	switch {
	case a[0] == "withopts" && len(a) == 3:
		o, ok := decOpts(a[2])
		if !ok {
			return bad, "X~parse"
		}
		return edRes(e.WithOptions(o))
	case a[0] == "chars" && len(a) == 4:
		n, ok := ints(a[2], a[3])
		if !ok {
			return bad, "X~parse"
		}
		return edRes(e.Chars(n[0], n[1]))
	case a[0] == "charsfrom" && len(a) == 3:
		n, ok := ints(a[2])
		if !ok {
			return bad, "X~parse"
		}
		return edRes(e.CharsFrom(n[0]))
	case a[0] == "charsto" && len(a) == 3:
		n, ok := ints(a[2])
		if !ok {
			return bad, "X~parse"
		}
		return edRes(e.CharsTo(n[0]))
	case a[0] == "lines" && len(a) == 4:
		n, ok := ints(a[2], a[3])
		if !ok {
			return bad, "X~parse"
		}
		return edRes(e.Lines(n[0], n[1]))
	case a[0] == "linesfrom" && len(a) == 3:
		n, ok := ints(a[2])
		if !ok {
			return bad, "X~parse"
		}
		return edRes(e.LinesFrom(n[0]))
	case a[0] == "linesto" && len(a) == 3:
		n, ok := ints(a[2])
		if !ok {
			return bad, "X~parse"
		}
		return edRes(e.LinesTo(n[0]))
	case a[0] == "commit" && len(a) == 2:
		return edRes(e.Commit())
	case a[0] == "commitall" && len(a) == 2:
		return edRes(e.CommitAll())
	case a[0] == "wrap" && len(a) == 4:
		n, ok := ints(a[2])
		if !ok {
			return bad, "X~parse"
		}
		if a[3] == "=" {
			return edRes(e.Wrap(n[0]))
		}
		o, ok := decOpts(a[3])
		if !ok {
			return bad, "X~parse"
		}
		return edRes(e.WrapOpts(n[0], o))
	case a[0] == "justify" && len(a) == 4:
		n, ok := ints(a[2])
		if !ok {
			return bad, "X~parse"
		}
		if a[3] == "=" {
			return edRes(e.Justify(n[0]))
		}
		o, ok := decOpts(a[3])
		if !ok {
			return bad, "X~parse"
		}
		return edRes(e.JustifyOpts(n[0], o))
	case a[0] == "align" && len(a) == 5:
		n, ok := ints(a[2], a[3])
		if !ok {
			return bad, "X~parse"
		}
		if a[4] == "=" {
			return edRes(e.Align(rosed.Alignment(n[0]), n[1]))
		}
		o, ok := decOpts(a[4])
		if !ok {
			return bad, "X~parse"
		}
		return edRes(e.AlignOpts(rosed.Alignment(n[0]), n[1], o))
	case a[0] == "collapse" && len(a) == 3:
		if a[2] == "=" {
			return edRes(e.CollapseSpace())
		}
		o, ok := decOpts(a[2])
		if !ok {
			return bad, "X~parse"
		}
		return edRes(e.CollapseSpaceOpts(o))
	case a[0] == "indent" && len(a) == 4:
		n, ok := ints(a[2])
		if !ok {
			return bad, "X~parse"
		}
		if a[3] == "=" {
			return edRes(e.Indent(n[0]))
		}
		o, ok := decOpts(a[3])
		if !ok {
			return bad, "X~parse"
		}
		return edRes(e.IndentOpts(n[0], o))
	case a[0] == "insert" && len(a) == 4:
		n, ok := ints(a[2])
		t, ok2 := decText(a[3])
		if !ok || !ok2 {
			return bad, "X~parse"
		}
		return edRes(e.Insert(n[0], t))
	case a[0] == "delete" && len(a) == 4:
		n, ok := ints(a[2], a[3])
		if !ok {
			return bad, "X~parse"
		}
		return edRes(e.Delete(n[0], n[1]))
	case a[0] == "overtype" && len(a) == 4:
		n, ok := ints(a[2])
		t, ok2 := decText(a[3])
		if !ok || !ok2 {
			return bad, "X~parse"
		}
		return edRes(e.Overtype(n[0], t))
	case a[0] == "twocol" && len(a) == 9:
		n, ok := ints(a[2], a[5], a[6])
		l, ok1 := decText(a[3])
		r, ok2 := decText(a[4])
		p, ok3 := decPct(a[7])
		if !ok || !ok1 || !ok2 || !ok3 {
			return bad, "X~parse"
		}
		if a[8] == "=" {
			return edRes(e.InsertTwoColumns(n[0], l, r, n[1], n[2], p))
		}
		o, ok := decOpts(a[8])
		if !ok {
			return bad, "X~parse"
		}
		return edRes(e.InsertTwoColumnsOpts(n[0], l, r, n[1], n[2], p, o))
	case a[0] == "deftable" && len(a) == 6:
		n, ok := ints(a[2], a[4])
		d, ok1 := decDefs(a[3])
		if !ok || !ok1 {
			return bad, "X~parse"
		}
		if a[5] == "=" {
			return edRes(e.InsertDefinitionsTable(n[0], d, n[1]))
		}
		o, ok := decOpts(a[5])
		if !ok {
			return bad, "X~parse"
		}
		return edRes(e.InsertDefinitionsTableOpts(n[0], d, n[1], o))
	case a[0] == "table" && len(a) == 6:
		n, ok := ints(a[2], a[4])
		d, ok1 := decTable(a[3])
		if !ok || !ok1 {
			return bad, "X~parse"
		}
		// give every row spare capacity guarded by sentinels, keep a deep copy, and check after
		// the call that the library wrote neither into the rows nor behind them
		const sentinel = "\x00verif-sentinel"
		fulls := make([][]string, len(d))
		orig := make([][]string, len(d))
		for i := range d {
			full := make([]string, len(d[i])+3)
			copy(full, d[i])
			for j := len(d[i]); j < len(full); j++ {
				full[j] = sentinel
			}
			fulls[i] = full
			orig[i] = append([]string{}, d[i]...)
			d[i] = full[:len(d[i])]
		}
		argsIntact := func() bool {
			for i := range fulls {
				if len(d[i]) != len(orig[i]) {
					return false
				}
				for j := range orig[i] {
					if fulls[i][j] != orig[i][j] {
						return false
					}
				}
				for j := len(orig[i]); j < len(fulls[i]); j++ {
					if fulls[i][j] != sentinel {
						return false
					}
				}
			}
			return true
		}
		defer func() {
			if !argsIntact() {
				ent, obs = bad, "X~argmut"
			}
		}()
		if a[5] == "=" {
			return edRes(e.InsertTable(n[0], d, n[1]))
		}
		o, ok := decOpts(a[5])
		if !ok {
			return bad, "X~parse"
		}
		return edRes(e.InsertTableOpts(n[0], d, n[1], o))
	case a[0] == "apply" && len(a) == 4:
		f, err := strconv.Atoi(a[2])
		if err != nil {
			return bad, "X~parse"
		}
		var log []string
		var cg cbGuards
		var res rosed.Editor
		if a[3] == "=" {
			res = e.Apply(lineFn(f, &log, &cg))
		} else {
			o, ok := decOpts(a[3])
			if !ok {
				return bad, "X~parse"
			}
			res = e.ApplyOpts(lineFn(f, &log, &cg), o)
		}
		en, ob := edRes(res)
		if !cg.intact() {
			return bad, "X~argmut"
		}
		if en.bad {
			return en, ob
		}
		return en, ob + "~calls=" + strings.Join(log, "/")
	case a[0] == "applypara" && len(a) == 4:
		f, err := strconv.Atoi(a[2])
		if err != nil {
			return bad, "X~parse"
		}
		var log []string
		var cg cbGuards
		var res rosed.Editor
		if a[3] == "=" {
			res = e.ApplyParagraphs(paraFn(f, &log, &cg))
		} else {
			o, ok := decOpts(a[3])
			if !ok {
				return bad, "X~parse"
			}
			res = e.ApplyParagraphsOpts(paraFn(f, &log, &cg), o)
		}
		en, ob := edRes(res)
		if !cg.intact() {
			return bad, "X~argmut"
		}
		if en.bad {
			return en, ob
		}
		return en, ob + "~calls=" + strings.Join(log, "/")
	case a[0] == "charcount" && len(a) == 2:
		return entry{ed: e}, "I~" + strconv.Itoa(e.CharCount())
	case a[0] == "linecount" && len(a) == 2:
		return entry{ed: e}, "I~" + strconv.Itoa(e.LineCount())
	case a[0] == "string" && len(a) == 2:
		s := e.String()
		if !sawRaw && !utf8.ValidString(s) {
			return entry{ed: e}, "X~invalid"
		}
		return entry{ed: e}, "S~" + encText(s)
	}
	return bad, "X~parse"
}

func digest(en entry) (out string) {
	if en.bad {
		return "B"
	}
	e := en.ed
	safe := func(f func() string) (s string) {
		defer func() {
			if r := recover(); r != nil {
				s = "X~panic"
			}
		}()
		s = f()
		return
	}
	str := safe(func() string {
		s := e.String()
		if !sawRaw && !utf8.ValidString(s) {
			return "X~invalid"
		}
		return encText(s)
	})
	com := safe(func() string {
		s := e.Commit().Text
		if !sawRaw && !utf8.ValidString(s) {
			return "X~invalid"
		}
		return encText(s)
	})
	cc := safe(func() string { return strconv.Itoa(e.CharCount()) })
	lc := safe(func() string { return strconv.Itoa(e.LineCount()) })
	return encText(e.Text) + "^" + encOpts(e.Options) + "^" + cc + "^" + lc + "^" + str + "^" + com
}

func evalProg(steps string, withDigest bool) string {
	var pool []entry
	var outs []string
	for _, st := range strings.Split(steps, ";") {
		en, obs := evalStep(pool, st)
		pool = append(pool, en)
		if withDigest {
			ds := make([]string, len(pool))
			for i, p := range pool {
				ds[i] = digest(p)
			}
			obs += "#" + strings.Join(ds, "+")
		}
		outs = append(outs, obs)
	}
	return strings.Join(outs, ";")
}

func showLinesBlock(b vh.Block) string {
	parts := make([]string, len(b.Lines))
	for i, l := range b.Lines {
		parts[i] = encText(l.String())
	}
	return "L~" + strings.Join(parts, "/")
}

func evalCase(kind string, args []string) (res string) {
	// every case starts from the package-level state the library has at start-up
	vh.GemResetZero()
	sawRaw = false
	defer func() {
		if r := recover(); r != nil {
			res = "X~panic"
		}
	}()
	switch {
	case kind == "preds" && len(args) == 1:
		n, err := strconv.ParseInt(args[0], 10, 64)
		if err != nil {
			return "X~parse"
		}
		return strconv.Itoa(int(vh.GemPreds(rune(int32(n)))))
	case kind == "split" && len(args) == 1:
		if args[0] == "-" {
			return encInts(vh.GemSplit([]rune{}))
		}
		parts := strings.Split(args[0], ".")
		rs := make([]rune, len(parts))
		for i, p := range parts {
			n, err := strconv.ParseInt(p, 16, 64)
			if err != nil {
				return "X~parse"
			}
			rs[i] = rune(n)
		}
		return encInts(vh.GemSplit(rs))
	case kind == "probe" && len(args) == 1:
		n, err := strconv.ParseInt(args[0], 10, 64)
		if err != nil {
			return "X~parse"
		}
		c := rune(int32(n))
		ps := [][]rune{{0x61, c}, {c, 0x61}, {c, 0x308}, {0x1F468, 0x200D, c}, {0x1F468, c, 0x200D, 0x1F469},
			{0x1F1E9, c}, {0x1100, c}, {c, 0x1161}, {c, 0x11A8},
			// four more: the nine above cannot tell CR/LF/Control, ZWJ/SpacingMark and V/LV apart
			// (theorem C02_probes_distinguish, found while proving it)
			{0x0D, c}, {c, 0x0A}, {0x1F468, c, 0x1F469}, {0x1161, c}}
		outs := make([]string, len(ps))
		for i, p := range ps {
			outs[i] = encInts(vh.GemSplit(p))
		}
		return strings.Join(outs, ";")
	case kind == "r2i" && len(args) == 3:
		a, err := strconv.Atoi(args[0])
		b, ok1 := decInt(args[1])
		c, ok2 := decInt(args[2])
		if err != nil || !ok1 || !ok2 {
			return "X~parse"
		}
		s, e := vh.RangeToIndexes(a, b, c)
		return fmt.Sprintf("%d,%d", s, e)
	case kind == "hist" && len(args) == 1:
		return evalHist(args[0])
	case kind == "progz" && len(args) == 1:
		var pool []entry
		var flags []string
		for _, st := range strings.Split(args[0], ";") {
			en, ob := evalStep(pool, st)
			pool = append(pool, en)
			if ob == "X~argmut" {
				flags = append(flags, "M")
			} else if vh.GemZeroFilled() {
				flags = append(flags, "1")
			} else {
				flags = append(flags, "0")
			}
		}
		return strings.Join(flags, ",")
	case kind == "rel" && len(args) == 2:
		return evalProg(args[1], false)
	case kind == "prog" && len(args) == 1:
		return evalProg(args[0], false)
	case kind == "pool" && len(args) == 1:
		return evalProg(args[0], true)
	case kind == "collapse" && len(args) == 2:
		t, ok1 := decText(args[0])
		sep, ok2 := decText(args[1])
		if !ok1 || !ok2 {
			return "X~parse"
		}
		return "S~" + encText(vh.CollapseSpace(vh.GemNew(t), vh.GemNew(sep)).String())
	case kind == "wrapl" && len(args) == 3:
		t, ok1 := decText(args[0])
		w, ok2 := decInt(args[1])
		sep, ok3 := decText(args[2])
		if !ok1 || !ok2 || !ok3 {
			return "X~parse"
		}
		return showLinesBlock(vh.Wrap(vh.GemNew(t), w, vh.GemNew(sep)))
	case kind == "justl" && len(args) == 2:
		t, ok1 := decText(args[0])
		w, ok2 := decInt(args[1])
		if !ok1 || !ok2 {
			return "X~parse"
		}
		return "S~" + encText(vh.JustifyLine(vh.GemNew(t), w).String())
	case kind == "alignl" && len(args) == 3:
		t, ok1 := decText(args[1])
		w, ok2 := decInt(args[2])
		if !ok1 || !ok2 {
			return "X~parse"
		}
		switch args[0] {
		case "L":
			return "S~" + encText(vh.AlignLineLeft(vh.GemNew(t), w).String())
		case "R":
			return "S~" + encText(vh.AlignLineRight(vh.GemNew(t), w).String())
		default:
			return "S~" + encText(vh.AlignLineCenter(vh.GemNew(t), w).String())
		}
	case kind == "withdefaults" && len(args) == 1:
		o, ok := decOpts(args[0])
		if !ok {
			return "X~parse"
		}
		return encOpts(o.WithDefaults()) + ";" + encOpts(o.WithDefaults().WithDefaults())
	}
	return "X~parse"
}

// cmdRun reads cases from stdin and writes results to stdout, one per line,
// flushed per line. A case that exceeds the watchdog prints X~timeout and the
// process exits with status 3 (the orchestrator restarts after that case).
func cmdRun(timeout time.Duration) int {
	in := bufio.NewReaderSize(os.Stdin, 1<<20)
	out := bufio.NewWriterSize(os.Stdout, 1<<16)
	defer out.Flush()
	type done struct {
		id, kind string
		args     []string
		res      string
	}
	var all []done
	eval := func(p []string) (string, bool) {
		ch := make(chan string, 1)
		go func() { ch <- evalCase(p[1], p[2:]) }()
		select {
		case r := <-ch:
			return r, true
		case <-time.After(timeout):
			return "X~timeout", false
		}
	}
	for {
		line, err := in.ReadString('\n')
		line = strings.TrimRight(line, "\r\n")
		if line != "" {
			p := strings.Split(line, "|")
			if len(p) < 2 {
				fmt.Fprintln(out, "?|X~parse")
			} else {
				r, ok := eval(p)
				fmt.Fprintln(out, p[0]+"|"+r)
				if !ok {
					out.Flush()
					return 3
				}
				all = append(all, done{p[0], p[1], p[2:], r})
			}
		}
		if err != nil {
			break
		}
	}
	// second pass, in reverse order, in the same process: the library has no state that may
	// survive between calls, so every case must give the same result whatever ran before it
	// ("the same operation with the same arguments always returns the same result", C08; "no
	// operation writes to package-level state", C20).  Differences are reported on '#N' lines.
	out.Flush()
	for i := len(all) - 1; i >= 0; i-- {
		d := all[i]
		if strings.HasPrefix(d.res, "X~") {
			continue
		}
		r, ok := eval(append([]string{d.id, d.kind}, d.args...))
		if !ok {
			break
		}
		if r != d.res {
			fmt.Fprintln(out, "#N|"+d.id+"|"+d.res+"|"+r)
		}
	}
	return 0
}
