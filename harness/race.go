package main

// Parallel stress for C20: the steps of a program after a shared prefix are run from several
// goroutines at once on the SAME pool (shared Editor values, shared parents of sub-editors) and
// every goroutine's observations must equal the sequential ones. Built with -race, the Go race
// detector watches the library while this runs.

import (
	"bufio"
	"fmt"
	"os"
	"strings"
	"sync"
)

func cmdRace(workers int) int {
	in := bufio.NewReaderSize(os.Stdin, 1<<20)
	out := bufio.NewWriterSize(os.Stdout, 1<<16)
	defer out.Flush()
	bad := 0
	for {
		line, err := in.ReadString('\n')
		line = strings.TrimRight(line, "\r\n")
		if line != "" {
			p := strings.Split(line, "|")
			if len(p) >= 3 && (p[1] == "progz" || p[1] == "prog" || p[1] == "pool") {
				steps := strings.Split(p[2], ";")
				// announce the case first: if the race detector stops the process, the last
				// announced id is the failing input
				fmt.Fprintln(out, "BEGIN "+p[0])
				out.Flush()
				k := len(steps) / 2
				if k < 1 {
					k = 1
				}
				var pool []entry
				for _, st := range steps[:k] {
					en, _ := evalStep(pool, st)
					pool = append(pool, en)
				}
				// sequential reference for the tail
				seq := func() []string {
					loc := append([]entry{}, pool...)
					var obs []string
					for _, st := range steps[k:] {
						en, ob := evalStep(loc, st)
						loc = append(loc, en)
						obs = append(obs, ob)
					}
					return obs
				}
				want := seq()
				var wg sync.WaitGroup
				res := make([][]string, workers)
				for w := 0; w < workers; w++ {
					wg.Add(1)
					go func(w int) {
						defer wg.Done()
						res[w] = seq()
					}(w)
				}
				wg.Wait()
				ok := true
				for w := 0; w < workers; w++ {
					if strings.Join(res[w], ";") != strings.Join(want, ";") {
						ok = false
					}
				}
				again := seq()
				if strings.Join(again, ";") != strings.Join(want, ";") {
					ok = false
				}
				if ok {
					fmt.Fprintln(out, p[0]+"|ok")
				} else {
					fmt.Fprintln(out, p[0]+"|fail:C20 parallel result differs from the sequential result")
					bad++
				}
			}
		}
		if err != nil {
			break
		}
	}
	if bad > 0 {
		return 1
	}
	return 0
}
