package main

import (
	"fmt"
	"os"
	"strconv"
	"time"
)

func main() {
	if len(os.Args) < 2 {
		fmt.Println("usage: harness <translate|...>")
		os.Exit(2)
	}
	switch os.Args[1] {
	case "translate":
		os.Exit(cmdTranslate(os.Args[2], os.Args[3]))
	case "gen":
		seed, _ := strconv.ParseInt(os.Args[4], 10, 64)
		os.Exit(cmdGen(os.Args[2], os.Args[3], seed))
	case "digest":
		os.Exit(cmdDigest(os.Args[2]))
	case "race":
		os.Exit(cmdRace(8))
	case "run":
		wd := 10 * time.Second
		if v, err := strconv.Atoi(os.Getenv("VERIF_WATCHDOG_S")); err == nil && v > 0 {
			wd = time.Duration(v) * time.Second // ./check re-runs a timed-out case alone with a long watchdog
		}
		os.Exit(cmdRun(wd))
	default:
		fmt.Println("unknown command", os.Args[1])
		os.Exit(2)
	}
}
