package main

import (
	"fmt"
	"os"
	"strconv"
	"time"
)

func main() {
	if len(os.Args) < 2 {
		fmt.Println("usage: harness <translate|...>")
		os.Exit(2)
	}
	switch os.Args[1] {
	case "translate":
		os.Exit(cmdTranslate(os.Args[2], os.Args[3]))
	case "gen":
		seed, _ := strconv.ParseInt(os.Args[4], 10, 64)
		os.Exit(cmdGen(os.Args[2], os.Args[3], seed))
	case "digest":
		os.Exit(cmdDigest(os.Args[2]))
	case "race":
		os.Exit(cmdRace(8))
	case "run":
		os.Exit(cmdRun(10 * time.Second))
	default:
		fmt.Println("unknown command", os.Args[1])
		os.Exit(2)
	}
}
