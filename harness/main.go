package main

import (
	"fmt"
	"os"
	"time"
)

func main() {
	if len(os.Args) < 2 {
		fmt.Println("usage: harness <translate|...>")
		os.Exit(2)
	}
	switch os.Args[1] {
	case "translate":
		os.Exit(cmdTranslate(os.Args[2], os.Args[3]))
	case "run":
		os.Exit(cmdRun(10 * time.Second))
	default:
		fmt.Println("unknown command", os.Args[1])
		os.Exit(2)
	}
}
