module verifharness

go 1.15

require github.com/dekarrin/rosed v0.0.0

replace github.com/dekarrin/rosed => /repo
