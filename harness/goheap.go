package main

// goheap: pointer-level Go → Lean translator for package internal/gem (string.go, gem.go).
// Output: lean/RosedVerif/Gen/GemCode.lean, regenerated on every run; target vocabulary:
// lean/RosedVerif/Heap/GoHeapPrims.lean (namespace RosedVerif.HGo, heap monad `HM`).
//
// Scheme (see the header of GoHeapPrims.lean for the semantic conventions and the documented limits):
//   * gem.String ↦ H.GStr, `gc *[]int` ↦ Option Nat (cell index), `*p` ↦ HGo.load, `*p = e` ↦ HGo.store,
//     `(*p)[i] = e` / `copy(*p, s)` ↦ load + list update + HGo.update, `new([]int)` ↦ HGo.newCell,
//     `&local` ↦ HGo.newCellOf, `[]rune`/`string` ↦ List Int, `[]int` ↦ Option (List Int), int ↦ Int;
//   * every function is `… : HGo.HM τ`, a restricted `do` (let / let ← / if / pure / HGo.panic); effectful
//     sub-expressions are hoisted into temporaries in Go's left-to-right order;
//   * an `if` without return/panic/break inside becomes a bound tuple of the variables it assigns, any
//     other `if` duplicates the continuation;
//   * `for init; cond; post` ↦ HGo.whileM / HGo.whileCtlM (break/return) with the fuel of the spec table,
//     `for i, x := range xs` ↦ HGo.forRangeM;
//   * dead-allocation elimination (generic): `x = new(T)` / `x := S{f: new(T)}` is kept pending; it is
//     dropped if the next thing that happens to it is a plain assignment `x = e` / `x.f = e`, otherwise it
//     is materialised before the next effect, use, loop, join or return;
//   * a call STATEMENT `f(args)` / `x.m(args)` of a function of this package that is not in the spec table is INLINED
//     (T5; generic): its parameters are bound to the arguments (value semantics), its body is translated in place.
//     Only loop-free bodies without `return`/`break`/`defer`/`go`/closures, no results, no recursion; the list
//     `tiedFunctions` names every function whose pointer-level behaviour is the subject of the generated file: the
//     functions of the spec table and the unexported helpers ALL of whose call sites in the package were inlined
//     into translated functions (Props/C20: every pointer write of package gem lies in one of them);
//   * anything else ⇒ the function is refused (stub + `_extracted := false`); so is every caller of it.

import (
	"fmt"
	"go/ast"
	"go/constant"
	"go/token"
	"go/types"
	"path/filepath"
	"sort"
	"strings"

	"golang.org/x/tools/go/packages"
)

const ghPkg = gfMod + "/internal/gem"

type ghSpec struct {
	recv, fn, lean string
	fuel           []string // one Lean expression per `for init; cond; post` loop, in source order
}

var ghSpecs = []ghSpec{
	{"String", "initialized", "gemInitialized", nil},
	{"String", "clone", "gemClone", nil},
	{"", "New", "gemNew", nil},
	{"", "Split", "gemSplit", nil},
	{"String", "Len", "gemLen", nil},
	{"String", "CharAt", "gemCharAt", []string{"v_str.runes.length + 1"}},
	{"String", "GraphemeIndexes", "gemGraphemeIndexes", nil},
	{"String", "Runes", "gemRunes", nil},
	{"String", "Add", "gemAdd", nil},
	{"String", "Sub", "gemSub", nil},
	{"String", "SetCharAt", "gemSetCharAt", nil},
	{"", "Repeat", "gemRepeat", []string{"v_count.toNat + 1"}},
	{"", "RepeatStr", "gemRepeatStr", nil},
	{"String", "IndexFunc", "gemIndexFunc", []string{"v_str.runes.length + 1"}},
	{"String", "IsEmpty", "gemIsEmpty", nil},
	{"String", "String", "gemString", nil},
	{"String", "Reverse", "gemReverse", []string{"v_str.runes.length + 1", "v_str.runes.length + 1"}},
	{"String", "LastIndexFunc", "gemLastIndexFunc", nil},
}

func (sp *ghSpec) key() string {
	if sp.recv != "" {
		return "(" + ghPkg + "." + sp.recv + ")." + sp.fn
	}
	return ghPkg + "." + sp.fn
}

func (sp *ghSpec) goName() string {
	if sp.recv != "" {
		return "gem." + sp.recv + "." + sp.fn
	}
	return "gem." + sp.fn
}

// callees that are not translated here: Go function ↦ pure Lean primitive
var ghPrims = map[string]string{
	gfMod + "/internal/util.RangeToIndexes": "HGo.rangeToIndexes",
	ghPkg + ".shouldBreakAfter":             "HGo.shouldBreakAfter",
}

// ---------------------------------------------------------------------------------------------
// types

type ghKind int

const (
	khInt ghKind = iota
	khBool
	khRunes // []rune, string: List Int
	khInts  // []int: Option (List Int)
	khIntss // [][]int: List (Option (List Int))
	khPtr   // *[]int: Option Nat
	khGStr
	khPred // func([]rune) bool
	khPair // (int, int)
	khOther
)

func ghKindOf(t types.Type) ghKind {
	if t == nil {
		return khOther
	}
	if n, ok := t.(*types.Named); ok {
		if n.Obj().Pkg() != nil && n.Obj().Pkg().Path() == ghPkg && n.Obj().Name() == "String" {
			return khGStr
		}
		return khOther
	}
	switch u := t.Underlying().(type) {
	case *types.Basic:
		switch {
		case u.Kind() == types.Int || u.Kind() == types.Int32 || u.Kind() == types.UntypedInt || u.Kind() == types.UntypedRune:
			return khInt
		case u.Info()&types.IsBoolean != 0:
			return khBool
		case u.Info()&types.IsString != 0:
			return khRunes
		}
	case *types.Slice:
		switch ghKindOf(u.Elem()) {
		case khInt:
			if b, ok := u.Elem().Underlying().(*types.Basic); ok && b.Kind() == types.Int32 {
				return khRunes
			}
			if b, ok := u.Elem().Underlying().(*types.Basic); ok && b.Kind() == types.Int {
				return khInts
			}
		case khInts:
			return khIntss
		}
	case *types.Pointer:
		if ghKindOf(u.Elem()) == khInts {
			return khPtr
		}
	case *types.Signature:
		if u.Params().Len() == 1 && u.Results().Len() == 1 && ghKindOf(u.Params().At(0).Type()) == khRunes &&
			ghKindOf(u.Results().At(0).Type()) == khBool {
			if _, isStr := u.Params().At(0).Type().Underlying().(*types.Basic); !isStr {
				return khPred
			}
		}
	case *types.Tuple:
		if u.Len() == 2 && ghKindOf(u.At(0).Type()) == khInt && ghKindOf(u.At(1).Type()) == khInt {
			return khPair
		}
	}
	return khOther
}

func ghLeanType(k ghKind) string {
	switch k {
	case khInt:
		return "Int"
	case khBool:
		return "Bool"
	case khRunes:
		return "List Int"
	case khInts:
		return "Option (List Int)"
	case khIntss:
		return "List (Option (List Int))"
	case khPtr:
		return "Option Nat"
	case khGStr:
		return "H.GStr"
	case khPred:
		return "List Int → Bool"
	case khPair:
		return "Int × Int"
	}
	gfFail("unsupported type")
	return ""
}

func ghType(t types.Type) string {
	k := ghKindOf(t)
	if k == khOther {
		gfFail("unsupported type %s", t)
	}
	return ghLeanType(k)
}

func ghZero(k ghKind) string {
	switch k {
	case khInt:
		return "(0 : Int)"
	case khBool:
		return "false"
	case khRunes:
		return "([] : List Int)"
	case khInts:
		return "(none : Option (List Int))"
	case khIntss:
		return "([] : List (Option (List Int)))"
	case khPtr:
		return "(none : Option Nat)"
	case khGStr:
		return "(⟨[], none⟩ : H.GStr)"
	}
	gfFail("no zero value")
	return ""
}

// ---------------------------------------------------------------------------------------------
// context

type ghVar struct {
	obj  types.Object
	name string
	ty   string
}

type ghPending struct { // a `new([]int)` stored in obj (field == "") or obj.field, not yet materialised
	obj   types.Object
	field string
}

type ghLoop struct {
	marker string // placeholder for the state tuple
	isFunc bool   // pseudo-frame of the function body
}

type ghCtx struct {
	w       *ghWorld
	info    *types.Info
	spec    *ghSpec
	fd      *ast.FuncDecl
	names   map[types.Object]string
	used    map[string]int
	pre     []string
	tmp     int
	pend    []ghPending
	loopIdx int
	resKind ghKind
	touched []map[types.Object]bool // stack: variables re-bound while translating a region
	loops   []ghLoop                // enclosing loops with Ctl bodies (innermost last)
	markers int
	inl     []*ast.FuncDecl // T5: helpers whose bodies were inlined into this function (their variables are local to them)
	inlNow  map[string]bool // T5: helpers being inlined right now (recursion guard)
}

type ghWorld struct {
	pkg    *packages.Package
	specs  map[string]*ghSpec
	funcs  map[string]*ast.FuncDecl
	status map[string]string
	defs   map[string]string
	resTy  map[string]ghKind
	active map[string]bool
	order  []string
	zeroOK bool
	// T5: every function of the package (inlining of helpers), and where each helper was inlined
	allFuncs  map[string]*ast.FuncDecl
	inlinedIn map[string]map[string]bool // helper ↦ set of spec keys it was inlined into
}

func (c *ghCtx) fresh() string {
	c.tmp++
	return fmt.Sprintf("t%d", c.tmp)
}

func (c *ghCtx) name(obj types.Object) string {
	if n, ok := c.names[obj]; ok {
		return n
	}
	base := "v_" + obj.Name()
	n := base
	if k := c.used[base]; k > 0 {
		n = fmt.Sprintf("%s_%d", base, k)
	}
	c.used[base]++
	c.names[obj] = n
	return n
}

func (c *ghCtx) kindOf(e ast.Expr) ghKind { return ghKindOf(c.info.TypeOf(e)) }

func (c *ghCtx) take() []string {
	l := c.pre
	c.pre = nil
	return l
}

func (c *ghCtx) hoist(ty, rhs string) string {
	t := c.fresh()
	c.pre = append(c.pre, fmt.Sprintf("let %s : %s ← %s", t, ty, rhs))
	return t
}

func (c *ghCtx) touch(obj types.Object) {
	for _, m := range c.touched {
		m[obj] = true
	}
}

func (c *ghCtx) pushTouched() { c.touched = append(c.touched, map[types.Object]bool{}) }

// variables re-bound in the region just translated that were declared before `before` (or are parameters)
func (c *ghCtx) popTouched(region ast.Node) []ghVar {
	m := c.touched[len(c.touched)-1]
	c.touched = c.touched[:len(c.touched)-1]
	var vs []ghVar
	for o := range m {
		if o.Pos() >= region.Pos() && o.Pos() < region.End() {
			continue // declared inside the region
		}
		if c.inlinedLocal(o, region) {
			continue // T5: a variable of an inlined helper is not visible outside the inlined body
		}
		vs = append(vs, ghVar{o, c.name(o), ghType(o.Type())})
	}
	sort.Slice(vs, func(i, j int) bool { return vs[i].obj.Pos() < vs[j].obj.Pos() })
	return vs
}

func ghTuple(vs []ghVar) (val, ty string) {
	if len(vs) == 0 {
		return "()", "Unit"
	}
	var ns, ts []string
	for _, v := range vs {
		ns = append(ns, v.name)
		ts = append(ts, v.ty)
	}
	if len(vs) == 1 {
		return ns[0], ts[0]
	}
	return "(" + strings.Join(ns, ", ") + ")", strings.Join(ts, " × ")
}

// `let v : ty := src.<projection>` for every variable of the tuple
func ghUnpack(src string, vs []ghVar) []string {
	var ls []string
	for i, v := range vs {
		p := src
		if len(vs) > 1 {
			for j := 0; j < i; j++ {
				p += ".2"
			}
			if i < len(vs)-1 {
				p += ".1"
			}
		}
		ls = append(ls, fmt.Sprintf("let %s : %s := %s", v.name, v.ty, p))
	}
	return ls
}

func ghInd(lines []string) []string {
	out := make([]string, len(lines))
	for i, l := range lines {
		out[i] = "    " + strings.ReplaceAll(l, "\n", "\n    ")
	}
	return out
}

// `(do\n    l1\n    l2)`
func ghBlock(lines []string) string {
	return "(do\n" + strings.Join(ghInd(lines), "\n") + ")"
}

func (c *ghCtx) localVar(e ast.Expr) types.Object {
	id, ok := unparen(e).(*ast.Ident)
	if !ok {
		return nil
	}
	o := c.info.ObjectOf(id)
	v, ok := o.(*types.Var)
	if !ok || v.IsField() || v.Parent() == nil || v.Parent() == v.Pkg().Scope() {
		return nil
	}
	return o
}

func (c *ghCtx) isZeroVar(e ast.Expr) bool {
	id, ok := unparen(e).(*ast.Ident)
	if !ok {
		return false
	}
	o := c.info.ObjectOf(id)
	return o != nil && o.Pkg() != nil && o.Pkg().Path() == ghPkg && o.Name() == "Zero" && o.Parent() == o.Pkg().Scope()
}

func (c *ghCtx) isNil(e ast.Expr) bool {
	id, ok := unparen(e).(*ast.Ident)
	if !ok {
		return false
	}
	_, isNil := c.info.ObjectOf(id).(*types.Nil)
	return isNil
}

func (c *ghCtx) builtin(x *ast.CallExpr) string {
	if id, ok := unparen(x.Fun).(*ast.Ident); ok {
		if b, ok := c.info.ObjectOf(id).(*types.Builtin); ok {
			return b.Name()
		}
	}
	return ""
}

func (c *ghCtx) isNewCall(e ast.Expr) bool {
	x, ok := unparen(e).(*ast.CallExpr)
	return ok && c.builtin(x) == "new" && len(x.Args) == 1 && c.kindOf(e) == khPtr
}

var _ = constant.Int
var _ = token.ADD
var _ = filepath.Join

// ---------------------------------------------------------------------------------------------
// pending allocations

func (c *ghCtx) pendIdx(obj types.Object, field string) int {
	for i, p := range c.pend {
		if p.obj == obj && p.field == field {
			return i
		}
	}
	return -1
}

// emit the allocation of pending entry i
func (c *ghCtx) materialise(i int) []string {
	p := c.pend[i]
	c.pend = append(c.pend[:i:i], c.pend[i+1:]...)
	t := c.fresh()
	ls := []string{fmt.Sprintf("let %s : Option Nat ← HGo.newCell", t)}
	n := c.name(p.obj)
	if p.field == "" {
		ls = append(ls, fmt.Sprintf("let %s : Option Nat := %s", n, t))
	} else {
		ls = append(ls, fmt.Sprintf("let %s : H.GStr := { %s with %s := %s }", n, n, p.field, t))
	}
	c.touch(p.obj)
	return ls
}

func (c *ghCtx) materialiseAll() []string {
	var ls []string
	for len(c.pend) > 0 {
		ls = append(ls, c.materialise(0)...)
	}
	return ls
}

// does n use the pending pointer (the variable itself, or the field that holds it)?
func (c *ghCtx) usesPending(n ast.Node, p ghPending) bool {
	used := false
	var visit func(m ast.Node) bool
	visit = func(m ast.Node) bool {
		if used || m == nil {
			return false
		}
		switch x := m.(type) {
		case *ast.SelectorExpr:
			if o := c.localVar(x.X); o != nil && o == p.obj {
				if p.field != "" && ghField(x.Sel.Name) != p.field {
					return false // another field of the same variable
				}
				used = true
				return false
			}
		case *ast.Ident:
			if c.info.ObjectOf(x) == p.obj {
				used = true
			}
		}
		return true
	}
	ast.Inspect(n, visit)
	return used
}

func ghField(goName string) string {
	switch goName {
	case "r":
		return "runes"
	case "gc":
		return "cell"
	}
	gfFail("unknown field %s", goName)
	return ""
}

// does evaluating n have an effect on the heap or the event list (conservative)?
func (c *ghCtx) effectful(n ast.Node) bool {
	eff := false
	ast.Inspect(n, func(m ast.Node) bool {
		switch x := m.(type) {
		case *ast.CallExpr:
			switch c.builtin(x) {
			case "len", "make", "append", "new":
				return true
			case "copy":
				if _, ok := unparen(x.Args[0]).(*ast.StarExpr); ok {
					eff = true
				}
				return true
			case "":
				if tv, ok := c.info.Types[x.Fun]; ok && tv.IsType() {
					return true // conversion
				}
				if fn := c.calleeOf(x); fn != nil {
					if _, ok := ghPrims[fn.FullName()]; ok {
						return true
					}
				}
			}
			eff = true
		case *ast.UnaryExpr:
			if x.Op == token.AND {
				eff = true
			}
		case *ast.AssignStmt:
			for _, l := range x.Lhs {
				if ghThroughPointer(l) {
					eff = true
				}
			}
		case *ast.IncDecStmt:
			if ghThroughPointer(x.X) {
				eff = true
			}
		}
		return true
	})
	return eff
}

// `*p` or `(*p)[i]` as an assignment target
func ghThroughPointer(l ast.Expr) bool {
	l = unparen(l)
	if _, ok := l.(*ast.StarExpr); ok {
		return true
	}
	if ix, ok := l.(*ast.IndexExpr); ok {
		return ghThroughPointer(ix.X)
	}
	return false
}

// before a simple statement / a condition: pending allocations that it uses, and all of them if it is
// effectful, are materialised — except the one a plain assignment `x = e` / `x.f = e` overwrites
func (c *ghCtx) settle(n ast.Node) []string {
	var ls []string
	kill := -1
	if as, ok := n.(*ast.AssignStmt); ok && as.Tok == token.ASSIGN && len(as.Lhs) == 1 && len(as.Rhs) == 1 {
		l := unparen(as.Lhs[0])
		var obj types.Object
		field := ""
		if se, ok := l.(*ast.SelectorExpr); ok {
			obj, field = c.localVar(se.X), ghField(se.Sel.Name)
		} else {
			obj = c.localVar(l)
		}
		if obj != nil {
			if i := c.pendIdx(obj, field); i >= 0 && !c.usesPending(as.Rhs[0], c.pend[i]) {
				kill = i
			}
		}
	}
	eff := c.effectful(n)
	for i := 0; i < len(c.pend); {
		if i == kill {
			i++
			continue
		}
		if eff || c.usesPending(n, c.pend[i]) {
			if kill > i {
				kill--
			}
			ls = append(ls, c.materialise(i)...)
			continue
		}
		i++
	}
	if kill >= 0 {
		c.pend = append(c.pend[:kill:kill], c.pend[kill+1:]...) // dead allocation: never materialised
		ls = append(ls, "-- (dead allocation dropped: the pointer is overwritten before any use)")
	}
	return ls
}

// ---------------------------------------------------------------------------------------------
// expressions

func (c *ghCtx) calleeOf(x *ast.CallExpr) *types.Func {
	switch f := unparen(x.Fun).(type) {
	case *ast.Ident:
		fn, _ := c.info.ObjectOf(f).(*types.Func)
		return fn
	case *ast.SelectorExpr:
		fn, _ := c.info.ObjectOf(f.Sel).(*types.Func)
		return fn
	}
	return nil
}

// condition as a decidable Prop
func (c *ghCtx) cond(e ast.Expr) string {
	e = unparen(e)
	switch x := e.(type) {
	case *ast.UnaryExpr:
		if x.Op == token.NOT {
			return "(¬ " + c.cond(x.X) + ")"
		}
	case *ast.BinaryExpr:
		switch x.Op {
		case token.LAND, token.LOR:
			a := c.cond(x.X)
			n := len(c.pre)
			b := c.cond(x.Y)
			if len(c.pre) != n {
				gfFail("short-circuit operator with an effectful right operand")
			}
			if x.Op == token.LAND {
				return "(" + a + " ∧ " + b + ")"
			}
			return "(" + a + " ∨ " + b + ")"
		case token.EQL, token.NEQ:
			op := " = "
			if x.Op == token.NEQ {
				op = " ≠ "
			}
			if c.isNil(x.Y) || c.isNil(x.X) {
				o := x.X
				if c.isNil(x.X) {
					o = x.Y
				}
				switch c.kindOf(o) {
				case khPtr, khInts:
					return "(" + c.expr(o) + op + "none)"
				}
				gfFail("comparison with nil of a slice whose nil-ness is not modelled")
			}
			ka, kb := c.kindOf(x.X), c.kindOf(x.Y)
			if ka != kb || (ka != khInt && ka != khBool) {
				gfFail("unsupported comparison")
			}
			return "(" + c.expr(x.X) + op + c.expr(x.Y) + ")"
		case token.LSS, token.GTR, token.LEQ, token.GEQ:
			if c.kindOf(x.X) != khInt || c.kindOf(x.Y) != khInt {
				gfFail("unsupported comparison")
			}
			op := map[token.Token]string{token.LSS: " < ", token.GTR: " > ", token.LEQ: " ≤ ", token.GEQ: " ≥ "}[x.Op]
			return "(" + c.expr(x.X) + op + c.expr(x.Y) + ")"
		}
	}
	if c.kindOf(e) != khBool {
		gfFail("condition is not boolean")
	}
	return "(" + c.expr(e) + " = true)"
}

func (c *ghCtx) intLit(v constant.Value) string {
	if i, ok := constant.Int64Val(v); ok {
		return fmt.Sprintf("(%d : Int)", i)
	}
	gfFail("integer constant out of range")
	return ""
}

// value of e as a pure Lean term; effects are hoisted into c.pre
func (c *ghCtx) expr(e ast.Expr) string {
	e = unparen(e)
	if tv, ok := c.info.Types[e]; ok && tv.Value != nil {
		switch tv.Value.Kind() {
		case constant.Int:
			return c.intLit(tv.Value)
		case constant.Bool:
			if constant.BoolVal(tv.Value) {
				return "true"
			}
			return "false"
		}
		gfFail("unsupported constant")
	}
	switch x := e.(type) {
	case *ast.Ident:
		if c.isZeroVar(x) {
			if !c.w.zeroOK {
				gfFail("package variable Zero is assigned somewhere or has an unexpected initialiser")
			}
			return "H.zero"
		}
		if o := c.localVar(x); o != nil {
			ghType(o.Type())
			return c.name(o)
		}
		gfFail("unsupported identifier %s", x.Name)
	case *ast.UnaryExpr:
		switch x.Op {
		case token.SUB:
			return "(-" + c.expr(x.X) + ")"
		case token.NOT:
			return "(!" + c.expr(x.X) + ")"
		case token.AND:
			o := c.localVar(x.X)
			if o == nil || c.kindOf(x.X) != khInts {
				gfFail("address of something that is not a local []int")
			}
			c.checkNotUsedAfter(o, x.End())
			return c.hoist("Option Nat", "HGo.newCellOf "+c.name(o))
		}
	case *ast.BinaryExpr:
		switch x.Op {
		case token.ADD, token.SUB, token.MUL:
			if c.kindOf(x.X) != khInt || c.kindOf(x.Y) != khInt {
				gfFail("unsupported arithmetic")
			}
			op := map[token.Token]string{token.ADD: " + ", token.SUB: " - ", token.MUL: " * "}[x.Op]
			a := c.expr(x.X)
			return "(" + a + op + c.expr(x.Y) + ")"
		case token.EQL, token.NEQ, token.LSS, token.GTR, token.LEQ, token.GEQ, token.LAND, token.LOR:
			return "(decide " + c.cond(x) + ")"
		}
	case *ast.StarExpr:
		if c.kindOf(x.X) != khPtr {
			gfFail("unsupported dereference")
		}
		return c.hoist("Option (List Int)", "HGo.load "+c.expr(x.X))
	case *ast.SelectorExpr:
		if c.kindOf(x.X) == khGStr {
			return "(" + c.expr(x.X) + "." + ghField(x.Sel.Name) + ")"
		}
	case *ast.IndexExpr:
		a := c.expr(x.X)
		i := c.expr(x.Index)
		switch c.kindOf(x.X) {
		case khRunes:
			if _, isStr := c.info.TypeOf(x.X).Underlying().(*types.Basic); isStr {
				gfFail("byte index into a string")
			}
			return c.hoist("Int", fmt.Sprintf("HGo.liftR (Go.idx %s %s)", a, i))
		case khInts:
			return c.hoist("Int", fmt.Sprintf("HGo.liftR (HGo.oidx %s %s)", a, i))
		case khIntss:
			return c.hoist("Option (List Int)", fmt.Sprintf("HGo.liftR (Go.idx %s %s)", a, i))
		}
	case *ast.SliceExpr:
		if x.Slice3 {
			gfFail("3-index slice")
		}
		k := c.kindOf(x.X)
		if _, isStr := c.info.TypeOf(x.X).Underlying().(*types.Basic); isStr || (k != khRunes && k != khInts) {
			gfFail("unsupported slice expression")
		}
		a := c.expr(x.X)
		lo, hi := "(0 : Int)", ""
		if x.Low != nil {
			lo = c.expr(x.Low)
		}
		if x.High != nil {
			hi = c.expr(x.High)
		} else if k == khRunes {
			hi = "(Go.sliceLen " + a + ")"
		} else {
			hi = "(HGo.olen " + a + ")"
		}
		if k == khRunes {
			return c.hoist("List Int", fmt.Sprintf("HGo.liftR (HGo.slice %s %s %s)", a, lo, hi))
		}
		return c.hoist("Option (List Int)", fmt.Sprintf("HGo.liftR (HGo.oslice %s %s %s)", a, lo, hi))
	case *ast.CompositeLit:
		return c.composite(x)
	case *ast.CallExpr:
		return c.call(x)
	}
	gfFail("unsupported expression %T", e)
	return ""
}

func (c *ghCtx) checkNotUsedAfter(o types.Object, pos token.Pos) {
	ast.Inspect(c.fd.Body, func(m ast.Node) bool {
		if id, ok := m.(*ast.Ident); ok && id.Pos() >= pos && c.info.ObjectOf(id) == o {
			gfFail("local %s is used after its address was taken", o.Name())
		}
		return true
	})
	// no loop may contain the address-of (the variable would be re-used by the next iteration)
}

func (c *ghCtx) composite(x *ast.CompositeLit) string {
	switch c.kindOf(x) {
	case khRunes:
		if len(x.Elts) == 0 {
			return "([] : List Int)"
		}
	case khInts:
		if len(x.Elts) == 0 {
			return "(some [] : Option (List Int))"
		}
	case khGStr:
		r, g := "([] : List Int)", "(none : Option Nat)"
		for _, el := range x.Elts {
			kv, ok := el.(*ast.KeyValueExpr)
			if !ok {
				gfFail("unkeyed struct literal")
			}
			switch ghField(kv.Key.(*ast.Ident).Name) {
			case "runes":
				r = c.expr(kv.Value)
			case "cell":
				if c.isNil(kv.Value) {
					break
				}
				g = c.expr(kv.Value)
			}
		}
		return "(⟨" + r + ", " + g + "⟩ : H.GStr)"
	}
	gfFail("unsupported composite literal")
	return ""
}

func (c *ghCtx) call(x *ast.CallExpr) string {
	switch c.builtin(x) {
	case "len":
		a := c.expr(x.Args[0])
		switch c.kindOf(x.Args[0]) {
		case khRunes:
			if _, isStr := c.info.TypeOf(x.Args[0]).Underlying().(*types.Basic); isStr {
				gfFail("len of a string (bytes)")
			}
			return "(Go.sliceLen " + a + ")"
		case khInts:
			return "(HGo.olen " + a + ")"
		case khIntss:
			return "(Go.sliceLen " + a + ")"
		}
		gfFail("len of an unsupported type")
	case "make":
		if len(x.Args) != 2 {
			gfFail("make with capacity")
		}
		n := c.expr(x.Args[1])
		switch c.kindOf(x) {
		case khRunes:
			return c.hoist("List Int", "HGo.liftR (Go.makeSlice "+n+" (0 : Int))")
		case khInts:
			return c.hoist("Option (List Int)", "HGo.liftR (HGo.omake "+n+")")
		case khIntss:
			return c.hoist("List (Option (List Int))", "HGo.liftR (Go.makeSlice "+n+" (none : Option (List Int)))")
		}
		gfFail("make of an unsupported type")
	case "append":
		if len(x.Args) != 2 {
			gfFail("append with other than two arguments")
		}
		a := c.expr(x.Args[0])
		b := c.expr(x.Args[1])
		switch c.kindOf(x) {
		case khRunes:
			if x.Ellipsis != token.NoPos {
				return "(" + a + " ++ " + b + ")"
			}
			return "(" + a + " ++ [" + b + "])"
		case khInts:
			if x.Ellipsis == token.NoPos {
				return "(HGo.oappend " + a + " [" + b + "])"
			}
		}
		gfFail("unsupported append")
	case "new":
		if c.kindOf(x) != khPtr {
			gfFail("new of an unsupported type")
		}
		return c.hoist("Option Nat", "HGo.newCell")
	case "":
	default:
		gfFail("unsupported builtin %s", c.builtin(x))
	}
	// conversion
	if tv, ok := c.info.Types[x.Fun]; ok && tv.IsType() {
		if c.kindOf(x) == khRunes && c.kindOf(x.Args[0]) == khRunes {
			return c.expr(x.Args[0]) // []rune(s), string(r): identities on code points
		}
		gfFail("unsupported conversion")
	}
	// call of a predicate parameter
	if o := c.localVar(x.Fun); o != nil && ghKindOf(o.Type()) == khPred {
		return "(" + c.name(o) + " " + c.expr(x.Args[0]) + ")"
	}
	fn := c.calleeOf(x)
	if fn == nil {
		gfFail("unsupported call")
	}
	var args []string
	if se, ok := unparen(x.Fun).(*ast.SelectorExpr); ok && fn.Type().(*types.Signature).Recv() != nil {
		args = append(args, c.expr(se.X))
	}
	for _, a := range x.Args {
		args = append(args, c.expr(a))
	}
	if p, ok := ghPrims[fn.FullName()]; ok {
		return "(" + p + " " + strings.Join(args, " ") + ")"
	}
	sp := c.w.specs[fn.FullName()]
	if sp == nil {
		gfFail("call of %s, which is outside the translated subset", fn.FullName())
	}
	if st := c.w.ensure(sp); st != "" {
		gfFail("callee %s was refused", sp.goName())
	}
	return c.hoist(ghLeanType(c.w.resTy[sp.key()]), sp.lean+" "+strings.Join(args, " "))
}

// ---------------------------------------------------------------------------------------------
// statements

// does n contain a return, a panic, or a break (that leaves n's enclosing loop)?
func (c *ghCtx) hasExit(n ast.Node) bool {
	found := false
	ast.Inspect(n, func(m ast.Node) bool {
		switch x := m.(type) {
		case *ast.ReturnStmt:
			found = true
		case *ast.BranchStmt:
			found = true
		case *ast.CallExpr:
			if c.builtin(x) == "panic" {
				found = true
			}
		case *ast.FuncLit:
			return false
		}
		return !found
	})
	return found
}

func (c *ghCtx) bind(obj types.Object, val string) string {
	c.touch(obj)
	return fmt.Sprintf("let %s : %s := %s", c.name(obj), ghType(obj.Type()), val)
}

// the value of `rhs` converted for a target of kind k (nil literal)
func (c *ghCtx) rvalue(rhs ast.Expr, k ghKind) string {
	if c.isNil(rhs) {
		switch k {
		case khInts, khPtr:
			return ghZero(k)
		}
		gfFail("nil assigned to a slice whose nil-ness is not modelled")
	}
	if c.kindOf(rhs) != k {
		gfFail("assignment between different kinds")
	}
	return c.expr(rhs)
}

// `l = v` for an already translated value v
func (c *ghCtx) assignTo(l ast.Expr, rhs ast.Expr, op token.Token) []string {
	l = unparen(l)
	k := c.kindOf(l)
	binop := map[token.Token]string{token.ADD_ASSIGN: " + ", token.SUB_ASSIGN: " - "}[op]
	value := func(cur string) string {
		if binop != "" {
			if k != khInt {
				gfFail("compound assignment on a non-integer")
			}
			return "(" + cur + binop + c.expr(rhs) + ")"
		}
		return c.rvalue(rhs, k)
	}
	switch x := l.(type) {
	case *ast.Ident:
		if x.Name == "_" {
			gfFail("blank assignment")
		}
		o := c.localVar(x)
		if o == nil {
			gfFail("assignment to a non-local %s", x.Name)
		}
		if binop == "" && c.isNewCall(rhs) {
			c.pend = append(c.pend, ghPending{o, ""})
			return append(c.take(), c.bind(o, "(none : Option Nat)"))
		}
		if binop == "" && k == khGStr {
			if cl, ok := unparen(rhs).(*ast.CompositeLit); ok {
				// `x := String{r: …, gc: new([]int)}`: the allocation stays pending
				for _, el := range cl.Elts {
					if kv, ok := el.(*ast.KeyValueExpr); ok && ghField(kv.Key.(*ast.Ident).Name) == "cell" && c.isNewCall(kv.Value) {
						r := "([] : List Int)"
						for _, e2 := range cl.Elts {
							if kv2 := e2.(*ast.KeyValueExpr); ghField(kv2.Key.(*ast.Ident).Name) == "runes" {
								r = c.expr(kv2.Value)
							}
						}
						c.pend = append(c.pend, ghPending{o, "cell"})
						return append(c.take(), c.bind(o, "(⟨"+r+", none⟩ : H.GStr)"))
					}
				}
			}
		}
		v := value(c.name(o))
		return append(c.take(), c.bind(o, v))
	case *ast.SelectorExpr:
		o := c.localVar(x.X)
		if o == nil || ghKindOf(o.Type()) != khGStr {
			gfFail("assignment to a field of something that is not a local String")
		}
		f := ghField(x.Sel.Name)
		n := c.name(o)
		if binop == "" && c.isNewCall(rhs) {
			c.pend = append(c.pend, ghPending{o, f})
			return append(c.take(), c.bind(o, fmt.Sprintf("{ %s with %s := none }", n, f)))
		}
		v := value("(" + n + "." + f + ")")
		return append(c.take(), c.bind(o, fmt.Sprintf("{ %s with %s := %s }", n, f, v)))
	case *ast.StarExpr:
		if c.kindOf(x.X) != khPtr {
			gfFail("unsupported dereference")
		}
		p := c.expr(x.X)
		if binop != "" {
			gfFail("compound assignment to a cell")
		}
		v := c.rvalue(rhs, khInts)
		return append(c.take(), fmt.Sprintf("HGo.store %s %s", p, v))
	case *ast.IndexExpr:
		base := unparen(x.X)
		bk := c.kindOf(base)
		var setter func(cur, i, v string) string
		switch bk {
		case khRunes, khIntss:
			setter = func(cur, i, v string) string { return fmt.Sprintf("HGo.liftR (Go.sliceSet %s %s %s)", cur, i, v) }
		case khInts:
			setter = func(cur, i, v string) string { return fmt.Sprintf("HGo.liftR (HGo.osliceSet %s %s %s)", cur, i, v) }
		default:
			gfFail("element assignment into an unsupported type")
		}
		bty := ghLeanType(bk)
		elemOf := func(cur, i string) string {
			if binop == "" {
				return ""
			}
			if bk == khInts {
				return c.hoist("Int", fmt.Sprintf("HGo.liftR (HGo.oidx %s %s)", cur, i))
			}
			return c.hoist("Int", fmt.Sprintf("HGo.liftR (Go.idx %s %s)", cur, i))
		}
		switch b := base.(type) {
		case *ast.StarExpr: // (*p)[i] = v
			p := c.expr(b.X)
			i := c.expr(x.Index)
			cur := c.hoist("Option (List Int)", "HGo.load "+p)
			v := value(elemOf(cur, i))
			nv := c.hoist(bty, setter(cur, i, v))
			return append(c.take(), fmt.Sprintf("HGo.update %s %s", p, nv))
		case *ast.Ident:
			o := c.localVar(b)
			if o == nil {
				gfFail("element assignment into a non-local")
			}
			i := c.expr(x.Index)
			v := value(elemOf(c.name(o), i))
			nv := c.hoist(bty, setter(c.name(o), i, v))
			return append(c.take(), c.bind(o, nv))
		case *ast.SelectorExpr: // s.r[i] = v
			o := c.localVar(b.X)
			if o == nil || ghKindOf(o.Type()) != khGStr {
				gfFail("element assignment into a field of a non-local")
			}
			f := ghField(b.Sel.Name)
			n := c.name(o)
			i := c.expr(x.Index)
			v := value(elemOf("("+n+"."+f+")", i))
			nv := c.hoist(bty, setter("("+n+"."+f+")", i, v))
			return append(c.take(), c.bind(o, fmt.Sprintf("{ %s with %s := %s }", n, f, nv)))
		}
	}
	gfFail("unsupported assignment target")
	return nil
}

func (c *ghCtx) assign(s *ast.AssignStmt) []string {
	switch s.Tok {
	case token.ASSIGN, token.DEFINE, token.ADD_ASSIGN, token.SUB_ASSIGN:
	default:
		gfFail("unsupported assignment operator")
	}
	if len(s.Lhs) == 2 && len(s.Rhs) == 1 && c.kindOf(s.Rhs[0]) == khPair {
		t := c.fresh()
		v := c.expr(s.Rhs[0])
		ls := append(c.take(), fmt.Sprintf("let %s : Int × Int := %s", t, v))
		for i, l := range s.Lhs {
			o := c.localVar(l)
			if o == nil || ghKindOf(o.Type()) != khInt {
				gfFail("unsupported tuple assignment")
			}
			ls = append(ls, c.bind(o, fmt.Sprintf("%s.%d", t, i+1)))
		}
		return ls
	}
	if len(s.Lhs) != 1 || len(s.Rhs) != 1 {
		gfFail("parallel assignment")
	}
	return c.assignTo(s.Lhs[0], s.Rhs[0], s.Tok)
}

// `if x == nil { x = []T{} }` on a slice whose nil-ness is not modelled: the identity on lists
func (c *ghCtx) isNilNormalisation(s *ast.IfStmt) bool {
	if s.Init != nil || s.Else != nil || len(s.Body.List) != 1 {
		return false
	}
	b, ok := unparen(s.Cond).(*ast.BinaryExpr)
	if !ok || b.Op != token.EQL || !c.isNil(b.Y) || c.kindOf(b.X) != khRunes {
		return false
	}
	as, ok := s.Body.List[0].(*ast.AssignStmt)
	if !ok || as.Tok != token.ASSIGN || len(as.Lhs) != 1 || len(as.Rhs) != 1 {
		return false
	}
	if types.ExprString(unparen(as.Lhs[0])) != types.ExprString(unparen(b.X)) {
		return false
	}
	if se, ok := unparen(b.X).(*ast.SelectorExpr); ok {
		if c.localVar(se.X) == nil {
			return false
		}
	} else if c.localVar(b.X) == nil {
		return false
	}
	cl, ok := unparen(as.Rhs[0]).(*ast.CompositeLit)
	return ok && len(cl.Elts) == 0 && c.kindOf(cl) == khRunes
}

func (c *ghCtx) retLines(val string) []string {
	fr := c.loops[len(c.loops)-1]
	if fr.isFunc {
		return []string{"pure " + val}
	}
	return []string{fmt.Sprintf("pure (%s, Go.Ctl.ret %s)", fr.marker, val)}
}

func (c *ghCtx) newMarker() string {
	c.markers++
	return fmt.Sprintf("⟪S%d⟫", c.markers)
}

func ghReplace(lines []string, marker, val string) []string {
	out := make([]string, len(lines))
	for i, l := range lines {
		out[i] = strings.ReplaceAll(l, marker, val)
	}
	return out
}

func (c *ghCtx) stmts(list []ast.Stmt, k func() []string) []string {
	if len(list) == 0 {
		return k()
	}
	rest := func() []string { return c.stmts(list[1:], k) }
	switch s := list[0].(type) {
	case *ast.EmptyStmt:
		return rest()
	case *ast.AssignStmt:
		ls := c.settle(s)
		ls = append(ls, c.assign(s)...)
		return append(ls, rest()...)
	case *ast.IncDecStmt:
		ls := c.settle(s)
		op := token.ADD_ASSIGN
		if s.Tok == token.DEC {
			op = token.SUB_ASSIGN
		}
		one := &ast.BasicLit{Kind: token.INT, Value: "1"}
		c.info.Types[one] = types.TypeAndValue{Type: types.Typ[types.Int], Value: constant.MakeInt64(1)}
		ls = append(ls, c.assignTo(s.X, one, op)...)
		return append(ls, rest()...)
	case *ast.DeclStmt:
		gd, ok := s.Decl.(*ast.GenDecl)
		if !ok || gd.Tok != token.VAR {
			gfFail("unsupported declaration")
		}
		var ls []string
		for _, sp := range gd.Specs {
			vs := sp.(*ast.ValueSpec)
			if len(vs.Values) != 0 && len(vs.Values) != len(vs.Names) {
				gfFail("unsupported var declaration")
			}
			for i, n := range vs.Names {
				o := c.info.ObjectOf(n)
				if len(vs.Values) == 0 {
					ls = append(ls, c.bind(o, ghZero(ghKindOf(o.Type()))))
					continue
				}
				ls = append(ls, c.settle(vs.Values[i])...)
				v := c.rvalue(vs.Values[i], ghKindOf(o.Type()))
				ls = append(ls, c.take()...)
				ls = append(ls, c.bind(o, v))
			}
		}
		return append(ls, rest()...)
	case *ast.ExprStmt:
		x, ok := unparen(s.X).(*ast.CallExpr)
		if !ok {
			gfFail("unsupported expression statement")
		}
		switch c.builtin(x) {
		case "panic":
			return []string{"HGo.panic Err.explicit"}
		case "copy":
			ls := c.settle(s)
			ls = append(ls, c.copyStmt(x)...)
			return append(ls, rest()...)
		}
		return c.inlineCallStmt(s, x, rest) // T5
	case *ast.ReturnStmt:
		if len(s.Results) != 1 {
			gfFail("return of other than one value")
		}
		ls := c.materialiseAll()
		v := c.rvalue(s.Results[0], c.resKind)
		ls = append(ls, c.take()...)
		return append(ls, c.retLines(v)...)
	case *ast.BranchStmt:
		fr := c.loops[len(c.loops)-1]
		if s.Tok != token.BREAK || s.Label != nil || fr.isFunc {
			gfFail("unsupported branch statement")
		}
		ls := c.materialiseAll()
		return append(ls, fmt.Sprintf("pure (%s, Go.Ctl.brk)", fr.marker))
	case *ast.BlockStmt:
		return c.stmts(append(append([]ast.Stmt{}, s.List...), list[1:]...), k)
	case *ast.IfStmt:
		return c.ifStmt(s, rest)
	case *ast.ForStmt:
		return c.forStmt(s, rest)
	case *ast.RangeStmt:
		return c.rangeStmt(s, rest)
	}
	gfFail("unsupported statement %T", list[0])
	return nil
}

// T5: o is a parameter/local of an inlined helper and `region` is not part of that helper's body
func (c *ghCtx) inlinedLocal(o types.Object, region ast.Node) bool {
	for _, fd := range c.inl {
		if o.Pos() >= fd.Pos() && o.Pos() < fd.End() {
			return !(region.Pos() >= fd.Pos() && region.End() <= fd.End())
		}
	}
	return false
}

func ghFuncName(fn *types.Func) string {
	if r := fn.Type().(*types.Signature).Recv(); r != nil {
		t := r.Type()
		if pt, ok := t.(*types.Pointer); ok {
			t = pt.Elem()
		}
		if n, ok := t.(*types.Named); ok {
			return n.Obj().Name() + "." + fn.Name()
		}
	}
	return fn.Name()
}

// T5: a call statement of a helper of this package that is not in the spec table: bind the parameters to the
// arguments (Go's left-to-right evaluation, value semantics) and translate the body in place
func (c *ghCtx) inlineCallStmt(s *ast.ExprStmt, x *ast.CallExpr, rest func() []string) []string {
	fn := c.calleeOf(x)
	if fn == nil || fn.Pkg() == nil || fn.Pkg().Path() != ghPkg {
		gfFail("unsupported call statement")
	}
	key := fn.FullName()
	if _, isSpec := c.w.specs[key]; isSpec {
		gfFail("unsupported call statement (result of %s dropped)", key)
	}
	fd := c.w.allFuncs[key]
	if fd == nil || fd.Body == nil {
		gfFail("call statement of %s, whose body is not available", key)
	}
	if c.inlNow[key] {
		gfFail("recursive helper %s", key)
	}
	sig := fn.Type().(*types.Signature)
	if sig.Results().Len() != 0 || sig.Variadic() {
		gfFail("helper %s has results or is variadic", key)
	}
	bad := ""
	ast.Inspect(fd.Body, func(m ast.Node) bool {
		switch m.(type) {
		case *ast.ReturnStmt, *ast.BranchStmt, *ast.ForStmt, *ast.RangeStmt, *ast.DeferStmt, *ast.GoStmt, *ast.FuncLit,
			*ast.LabeledStmt, *ast.SwitchStmt, *ast.TypeSwitchStmt, *ast.SelectStmt:
			bad = fmt.Sprintf("%T", m)
		}
		return bad == ""
	})
	if bad != "" {
		gfFail("helper %s is not inlined: its body contains %s", key, bad)
	}
	// parameters (receiver first) and the expressions they are bound to
	var params []types.Object
	var args []ast.Expr
	if fd.Recv != nil {
		se, ok := unparen(x.Fun).(*ast.SelectorExpr)
		if !ok || len(fd.Recv.List) != 1 || len(fd.Recv.List[0].Names) != 1 {
			gfFail("helper %s: unnamed receiver", key)
		}
		if _, isPtr := sig.Recv().Type().(*types.Pointer); isPtr {
			gfFail("helper %s has a pointer receiver", key)
		}
		params = append(params, c.info.ObjectOf(fd.Recv.List[0].Names[0]))
		args = append(args, se.X)
	}
	i := 0
	for _, f := range fd.Type.Params.List {
		if len(f.Names) == 0 {
			gfFail("helper %s: unnamed parameter", key)
		}
		for _, n := range f.Names {
			if i >= len(x.Args) {
				gfFail("helper %s: argument count", key)
			}
			params = append(params, c.info.ObjectOf(n))
			args = append(args, x.Args[i])
			i++
		}
	}
	if i != len(x.Args) {
		gfFail("helper %s: argument count", key)
	}
	ls := c.settle(s)
	for j, o := range params {
		if o == nil || o.Name() == "_" {
			gfFail("helper %s: unnamed parameter", key)
		}
		k := ghKindOf(o.Type())
		switch k {
		case khInt, khBool, khRunes, khInts, khPtr, khGStr:
		default:
			gfFail("helper %s: parameter %s of an unsupported type", key, o.Name())
		}
		v := c.rvalue(args[j], k)
		ls = append(ls, c.take()...)
		ls = append(ls, c.bind(o, v))
	}
	ls = append(ls, fmt.Sprintf("-- (inlined: %s)", ghFuncName(fn)))
	c.inl = append(c.inl, fd)
	if c.inlNow == nil {
		c.inlNow = map[string]bool{}
	}
	c.inlNow[key] = true
	if c.w.inlinedIn[key] == nil {
		c.w.inlinedIn[key] = map[string]bool{}
	}
	c.w.inlinedIn[key][c.spec.key()] = true
	body := c.stmts(fd.Body.List, func() []string {
		c.inlNow[key] = false
		return rest()
	})
	c.inlNow[key] = false
	return append(ls, body...)
}

func (c *ghCtx) copyStmt(x *ast.CallExpr) []string {
	dst, src := unparen(x.Args[0]), x.Args[1]
	k := c.kindOf(dst)
	if k != c.kindOf(src) || (k != khRunes && k != khInts) {
		gfFail("unsupported copy")
	}
	newVal := func(cur, s string) string {
		if k == khRunes {
			return "(Go.copySlice " + cur + " " + s + ")"
		}
		return "(HGo.ocopy " + cur + " " + s + ")"
	}
	switch d := dst.(type) {
	case *ast.StarExpr:
		p := c.expr(d.X)
		cur := c.hoist("Option (List Int)", "HGo.load "+p)
		sv := c.expr(src)
		return append(c.take(), fmt.Sprintf("HGo.update %s %s", p, newVal(cur, sv)))
	case *ast.Ident:
		o := c.localVar(d)
		if o == nil {
			gfFail("copy into a non-local")
		}
		sv := c.expr(src)
		return append(c.take(), c.bind(o, newVal(c.name(o), sv)))
	case *ast.SelectorExpr:
		o := c.localVar(d.X)
		if o == nil || ghKindOf(o.Type()) != khGStr {
			gfFail("copy into a field of a non-local")
		}
		f, n := ghField(d.Sel.Name), c.name(o)
		sv := c.expr(src)
		return append(c.take(), c.bind(o, fmt.Sprintf("{ %s with %s := %s }", n, f, newVal("("+n+"."+f+")", sv))))
	}
	gfFail("unsupported copy destination")
	return nil
}

func (c *ghCtx) ifStmt(s *ast.IfStmt, rest func() []string) []string {
	if s.Init != nil {
		gfFail("if with an init statement")
	}
	if c.isNilNormalisation(s) {
		return append([]string{"-- (`if x == nil { x = []T{} }`: the identity on the list abstraction)"}, rest()...)
	}
	ls := c.settle(s.Cond)
	cond := c.cond(s.Cond)
	ls = append(ls, c.take()...)
	var elseList []ast.Stmt
	if s.Else != nil {
		elseList = []ast.Stmt{s.Else}
	}
	saved := append([]ghPending{}, c.pend...)
	if c.hasExit(s.Body) || (s.Else != nil && c.hasExit(s.Else)) {
		// continuation duplicated into both arms
		a := c.stmts(s.Body.List, rest)
		c.pend = append([]ghPending{}, saved...)
		b := c.stmts(elseList, rest)
		return append(ls, fmt.Sprintf("if %s then %s else %s", cond, ghBlock(a), ghBlock(b)))
	}
	// join: the arms yield the tuple of the variables they assign
	m := c.newMarker()
	c.pushTouched()
	end := func() []string { return append(c.materialiseAll(), "pure "+m) }
	a := c.stmts(s.Body.List, end)
	c.pend = append([]ghPending{}, saved...)
	b := c.stmts(elseList, end)
	vars := c.popTouched(s)
	for _, v := range vars {
		c.touch(v.obj)
	}
	val, ty := ghTuple(vars)
	a, b = ghReplace(a, m, val), ghReplace(b, m, val)
	t := c.fresh()
	ls = append(ls, fmt.Sprintf("let %s : %s ← (if %s then %s else %s)", t, ty, cond, ghBlock(a), ghBlock(b)))
	ls = append(ls, ghUnpack(t, vars)...)
	return append(ls, rest()...)
}

func (c *ghCtx) afterLoop(t string, vars []ghVar, ctl bool, rest func() []string) []string {
	if !ctl {
		return append(ghUnpack(t, vars), rest()...)
	}
	ls := ghUnpack(t+".1", vars)
	rv := c.fresh()
	retl := c.retLines(rv)
	ls = append(ls, fmt.Sprintf("match %s.2 with\n| some %s => %s\n| none => %s", t, rv, ghBlock(retl), ghBlock(rest())))
	return ls
}

func (c *ghCtx) forStmt(s *ast.ForStmt, rest func() []string) []string {
	if s.Cond == nil {
		gfFail("for without a condition")
	}
	if c.loopIdx >= len(c.spec.fuel) {
		gfFail("no fuel given for loop %d", c.loopIdx+1)
	}
	ls := c.materialiseAll()
	if s.Init != nil {
		ls = append(ls, c.stmts([]ast.Stmt{s.Init}, func() []string { return nil })...)
	}
	fuel := c.spec.fuel[c.loopIdx]
	c.loopIdx++
	for _, id := range gfFuelIdent.FindAllString(fuel, -1) { // as in gofn.go: a renamed variable refuses the function
		if c.used[id] == 0 {
			gfFail("the fuel expression of loop %d refers to %s, which is not a variable of this function any more", c.loopIdx, id)
		}
	}
	ctl := c.hasExit(s.Body)
	m := c.newMarker()
	c.pushTouched()
	// condition
	cpre := c.settle(s.Cond)
	cond := c.cond(s.Cond)
	cpre = append(cpre, c.take()...)
	cpre = append(cpre, "pure (decide "+cond+")")
	// body, then post
	var post []ast.Stmt
	if s.Post != nil {
		post = []ast.Stmt{s.Post}
	}
	var body []string
	if ctl {
		c.loops = append(c.loops, ghLoop{marker: m})
		body = c.stmts(s.Body.List, func() []string {
			fr := c.loops[len(c.loops)-1]
			c.loops = c.loops[:len(c.loops)-1]
			p := c.stmts(post, func() []string { return append(c.materialiseAll(), fmt.Sprintf("pure (%s, Go.Ctl.next)", m)) })
			c.loops = append(c.loops, fr)
			return p
		})
		c.loops = c.loops[:len(c.loops)-1]
	} else {
		body = c.stmts(append(append([]ast.Stmt{}, s.Body.List...), post...), func() []string {
			return append(c.materialiseAll(), "pure "+m)
		})
	}
	// the state: variables declared before the loop body that the loop re-binds
	region := ast.Node(s.Body)
	vars := c.popTouched(region)
	for _, v := range vars {
		c.touch(v.obj)
	}
	val, ty := ghTuple(vars)
	body = ghReplace(body, m, val)
	un := ghUnpack("s", vars)
	t := c.fresh()
	comb := "HGo.whileM"
	if ctl {
		comb = "HGo.whileCtlM"
	}
	ls = append(ls, fmt.Sprintf("let %s ← %s (%s)\n    (fun (s : %s) => %s)\n    (fun (s : %s) => %s)\n    %s",
		t, comb, fuel, ty, ghBlock(append(append([]string{}, un...), cpre...)), ty, ghBlock(append(append([]string{}, un...), body...)), val))
	return append(ls, c.afterLoop(t, vars, ctl, rest)...)
}

func (c *ghCtx) rangeStmt(s *ast.RangeStmt, rest func() []string) []string {
	if s.Tok != token.DEFINE && s.Key != nil {
		gfFail("range with assignment to existing variables")
	}
	if c.hasExit(s.Body) {
		gfFail("break/return/panic inside a range loop")
	}
	ls := c.materialiseAll()
	ls = append(ls, c.settle(s.X)...)
	xs := c.expr(s.X)
	ls = append(ls, c.take()...)
	elemTy := "Int"
	switch c.kindOf(s.X) {
	case khRunes:
		if _, isStr := c.info.TypeOf(s.X).Underlying().(*types.Basic); isStr {
			gfFail("range over a string")
		}
	case khInts:
		xs = "(HGo.olist " + xs + ")"
	default:
		gfFail("range over an unsupported type")
	}
	kn, vn := "_i", "_x"
	if id, ok := s.Key.(*ast.Ident); ok && id.Name != "_" {
		kn = c.name(c.info.ObjectOf(id))
	}
	if s.Value != nil {
		if id, ok := s.Value.(*ast.Ident); ok && id.Name != "_" {
			vn = c.name(c.info.ObjectOf(id))
			// the value variable is a snapshot: refuse a body that writes elements through a pointer or into the ranged slice
			ast.Inspect(s.Body, func(m ast.Node) bool {
				if as, ok := m.(*ast.AssignStmt); ok {
					for _, l := range as.Lhs {
						if _, ok := unparen(l).(*ast.IndexExpr); ok {
							gfFail("range with a value variable and element writes in the body")
						}
					}
				}
				return true
			})
		}
	}
	m := c.newMarker()
	c.pushTouched()
	body := c.stmts(s.Body.List, func() []string { return append(c.materialiseAll(), "pure "+m) })
	vars := c.popTouched(s)
	for _, v := range vars {
		c.touch(v.obj)
	}
	val, ty := ghTuple(vars)
	body = ghReplace(body, m, val)
	t := c.fresh()
	ls = append(ls, fmt.Sprintf("let %s ← HGo.forRangeM %s\n    (fun (%s : Int) (%s : %s) (s : %s) => %s)\n    %s",
		t, xs, kn, vn, elemTy, ty, ghBlock(append(ghUnpack("s", vars), body...)), val))
	return append(append(ls, ghUnpack(t, vars)...), rest()...)
}

// ---------------------------------------------------------------------------------------------
// functions

func (w *ghWorld) translate(sp *ghSpec) (def string, err error) {
	key := sp.key()
	fd := w.funcs[key]
	if fd == nil || fd.Body == nil {
		return "", gfErr{"function not found"}
	}
	var header string
	defer func() {
		if r := recover(); r != nil {
			if e, ok := r.(gfErr); ok {
				err = e
				if header != "" {
					def = header + "\n  HGo.panic Err.explicit\n"
				}
				return
			}
			panic(r)
		}
	}()
	c := &ghCtx{w: w, info: w.pkg.TypesInfo, spec: sp, fd: fd, names: map[types.Object]string{}, used: map[string]int{},
		loops: []ghLoop{{isFunc: true}}}
	var ps []string
	addParam := func(n *ast.Ident) {
		o := c.info.ObjectOf(n)
		if n.Name == "_" || o == nil {
			gfFail("unnamed parameter")
		}
		ps = append(ps, "("+c.name(o)+" : "+ghType(o.Type())+")")
	}
	if fd.Recv != nil {
		if len(fd.Recv.List) != 1 || len(fd.Recv.List[0].Names) != 1 {
			gfFail("unnamed receiver")
		}
		addParam(fd.Recv.List[0].Names[0])
	}
	for _, f := range fd.Type.Params.List {
		for _, n := range f.Names {
			addParam(n)
		}
	}
	if fd.Type.Results == nil || len(fd.Type.Results.List) != 1 || len(fd.Type.Results.List[0].Names) != 0 {
		gfFail("other than one unnamed result")
	}
	c.resKind = ghKindOf(c.info.TypeOf(fd.Type.Results.List[0].Type))
	res := ghLeanType(c.resKind)
	w.resTy[key] = c.resKind
	header = fmt.Sprintf("def %s %s : HGo.HM (%s) := do", sp.lean, strings.Join(ps, " "), res)
	c.pushTouched()
	lines := c.stmts(fd.Body.List, func() []string {
		gfFail("function end reached without return")
		return nil
	})
	if c.loopIdx != len(sp.fuel) {
		gfFail("fuel given for %d loops, found %d", len(sp.fuel), c.loopIdx)
	}
	var sb strings.Builder
	sb.WriteString(header + "\n")
	for _, l := range lines {
		sb.WriteString("  " + strings.ReplaceAll(l, "\n", "\n  ") + "\n")
	}
	return sb.String(), nil
}

// translate sp (and, first, everything it calls); returns "" or the reason for refusal
func (w *ghWorld) ensure(sp *ghSpec) string {
	key := sp.key()
	if st, ok := w.status[key]; ok {
		return st
	}
	if w.active[key] {
		return "recursion"
	}
	w.active[key] = true
	def, err := w.translate(sp)
	w.active[key] = false
	if err != nil {
		w.status[key] = err.Error()
		if w.status[key] == "" {
			w.status[key] = "refused"
		}
	} else {
		w.status[key] = ""
	}
	w.defs[key] = def
	w.order = append(w.order, key)
	return w.status[key]
}

// `Zero` ↦ H.zero is only right if the variable is never assigned and starts as {empty, non-nil pointer}
func (w *ghWorld) checkZero() bool {
	ok := false
	bad := false
	info := w.pkg.TypesInfo
	isZero := func(e ast.Expr) bool {
		for {
			switch x := unparen(e).(type) {
			case *ast.SelectorExpr:
				e = x.X
				continue
			case *ast.IndexExpr:
				e = x.X
				continue
			case *ast.Ident:
				o := info.ObjectOf(x)
				return o != nil && o.Name() == "Zero" && o.Pkg() != nil && o.Parent() == o.Pkg().Scope()
			}
			return false
		}
	}
	for _, f := range w.pkg.Syntax {
		if strings.HasSuffix(w.pkg.Fset.Position(f.Pos()).Filename, "_test.go") {
			continue
		}
		ast.Inspect(f, func(m ast.Node) bool {
			switch x := m.(type) {
			case *ast.ValueSpec:
				for i, n := range x.Names {
					o := info.ObjectOf(n)
					if n.Name == "Zero" && o != nil && o.Parent() == o.Pkg().Scope() && i < len(x.Values) {
						if cl, isCl := unparen(x.Values[i]).(*ast.CompositeLit); isCl {
							rOK, gOK := false, false
							for _, el := range cl.Elts {
								kv, isKV := el.(*ast.KeyValueExpr)
								if !isKV {
									continue
								}
								switch kv.Key.(*ast.Ident).Name {
								case "r":
									if rl, isL := unparen(kv.Value).(*ast.CompositeLit); isL && len(rl.Elts) == 0 {
										rOK = true
									}
								case "gc":
									if u, isU := unparen(kv.Value).(*ast.UnaryExpr); isU && u.Op == token.AND {
										gOK = true
									}
									if ce, isC := unparen(kv.Value).(*ast.CallExpr); isC {
										if id, isI := ce.Fun.(*ast.Ident); isI && id.Name == "new" {
											gOK = true
										}
									}
								}
							}
							ok = rOK && gOK
						}
					}
				}
			case *ast.AssignStmt:
				for _, l := range x.Lhs {
					if isZero(l) {
						bad = true
					}
				}
			case *ast.IncDecStmt:
				if isZero(x.X) {
					bad = true
				}
			case *ast.UnaryExpr:
				if x.Op == token.AND && isZero(x.X) {
					bad = true
				}
			}
			return true
		})
	}
	return ok && !bad
}

// T5: translated functions, plus every unexported helper whose call sites in the whole package are all call
// statements inside translated (extracted) functions or inside other such helpers (there they were inlined)
func (w *ghWorld) tiedFunctions() []string {
	info := w.pkg.TypesInfo
	covered := map[string]bool{}
	for key, st := range w.status {
		if st == "" {
			covered[key] = true
		}
	}
	// call sites of every function of the package: callee ↦ list of (enclosing function, is a statement)
	type site struct {
		in   string
		stmt bool
	}
	sites := map[string][]site{}
	for key, fd := range w.allFuncs {
		if fd.Body == nil {
			continue
		}
		stmtCalls := map[*ast.CallExpr]bool{}
		ast.Inspect(fd.Body, func(m ast.Node) bool {
			if es, ok := m.(*ast.ExprStmt); ok {
				if ce, ok := unparen(es.X).(*ast.CallExpr); ok {
					stmtCalls[ce] = true
				}
			}
			return true
		})
		ast.Inspect(fd.Body, func(m ast.Node) bool {
			switch x := m.(type) {
			case *ast.CallExpr:
				var id *ast.Ident
				switch f := unparen(x.Fun).(type) {
				case *ast.Ident:
					id = f
				case *ast.SelectorExpr:
					id = f.Sel
				}
				if id != nil {
					if fn, ok := info.ObjectOf(id).(*types.Func); ok && fn.Pkg() != nil && fn.Pkg().Path() == ghPkg {
						sites[fn.FullName()] = append(sites[fn.FullName()], site{key, stmtCalls[x]})
					}
				}
			}
			return true
		})
	}
	// uses of a function other than calling it (method values) make it uncoverable
	escaped := map[string]bool{}
	for _, f := range w.pkg.Syntax {
		if strings.HasSuffix(w.pkg.Fset.Position(f.Pos()).Filename, "_test.go") {
			continue
		}
		callFun := map[*ast.Ident]bool{}
		ast.Inspect(f, func(m ast.Node) bool {
			if ce, ok := m.(*ast.CallExpr); ok {
				switch fx := unparen(ce.Fun).(type) {
				case *ast.Ident:
					callFun[fx] = true
				case *ast.SelectorExpr:
					callFun[fx.Sel] = true
				}
			}
			return true
		})
		ast.Inspect(f, func(m ast.Node) bool {
			if id, ok := m.(*ast.Ident); ok && !callFun[id] {
				if fn, ok := info.Uses[id].(*types.Func); ok && fn.Pkg() != nil && fn.Pkg().Path() == ghPkg {
					escaped[fn.FullName()] = true
				}
			}
			return true
		})
	}
	for changed := true; changed; {
		changed = false
		for key, fd := range w.allFuncs {
			if covered[key] || w.specs[key] != nil || fd.Name.IsExported() || escaped[key] || len(w.inlinedIn[key]) == 0 {
				continue
			}
			ok := len(sites[key]) > 0
			for _, st := range sites[key] {
				if !st.stmt || !covered[st.in] {
					ok = false
				}
			}
			if ok {
				covered[key] = true
				changed = true
			}
		}
	}
	// a function of the spec table that was refused keeps its place: its tie then rests on the correspondence
	// groups alone (`<name>_extracted = false`, as everywhere in the regenerated tie) — but helpers called by it are
	// not covered (they were not inlined anywhere)
	for key := range w.specs {
		covered[key] = true
	}
	var out []string
	for key := range covered {
		if fd := w.allFuncs[key]; fd != nil {
			if fn, ok := info.ObjectOf(fd.Name).(*types.Func); ok {
				out = append(out, ghFuncName(fn))
			}
		}
	}
	sort.Strings(out)
	return out
}

func writeGemCode(dir, repo string) (string, error) {
	cfg := &packages.Config{Mode: packages.NeedName | packages.NeedSyntax | packages.NeedTypes |
		packages.NeedTypesInfo | packages.NeedFiles, Dir: repo}
	pkgs, err := packages.Load(cfg, "./internal/gem")
	if err != nil {
		return "", err
	}
	if len(pkgs) != 1 {
		return "", fmt.Errorf("internal/gem: %d packages", len(pkgs))
	}
	p := pkgs[0]
	if len(p.Errors) > 0 {
		return "", fmt.Errorf("package %s has errors: %v", p.PkgPath, p.Errors[0])
	}
	w := &ghWorld{pkg: p, specs: map[string]*ghSpec{}, funcs: map[string]*ast.FuncDecl{}, status: map[string]string{},
		defs: map[string]string{}, resTy: map[string]ghKind{}, active: map[string]bool{},
		allFuncs: map[string]*ast.FuncDecl{}, inlinedIn: map[string]map[string]bool{}}
	for i := range ghSpecs {
		w.specs[ghSpecs[i].key()] = &ghSpecs[i]
	}
	for _, f := range p.Syntax {
		if strings.HasSuffix(p.Fset.Position(f.Pos()).Filename, "_test.go") {
			continue
		}
		for _, d := range f.Decls {
			if fd, ok := d.(*ast.FuncDecl); ok {
				if fn, ok := p.TypesInfo.ObjectOf(fd.Name).(*types.Func); ok {
					if _, want := w.specs[fn.FullName()]; want {
						w.funcs[fn.FullName()] = fd
					}
					w.allFuncs[fn.FullName()] = fd
				}
			}
		}
	}
	w.zeroOK = w.checkZero()
	for i := range ghSpecs {
		w.ensure(&ghSpecs[i])
	}
	var sb strings.Builder
	sb.WriteString("-- GENERATED by harness translate (harness/goheap.go: go/packages, typed pointer-level Go → Lean) from internal/gem. DO NOT EDIT.\n")
	sb.WriteString("import RosedVerif.Heap.GoHeapPrims\nset_option linter.unusedVariables false\nnamespace RosedVerif.Gen.GemCode\nopen RosedVerif\n\n")
	nOK := 0
	var refused []string
	for _, key := range w.order {
		sp := w.specs[key]
		if w.status[key] == "" {
			nOK++
			fmt.Fprintf(&sb, "/-- %s (translated) -/\n%s\ndef %s_extracted : Bool := true\n\n", sp.goName(), w.defs[key], sp.lean)
		} else {
			refused = append(refused, sp.goName())
			fmt.Fprintf(&sb, "-- %s: extraction refused: %s\n", sp.goName(), strings.ReplaceAll(w.status[key], "\n", " "))
			if w.defs[key] != "" {
				sb.WriteString(w.defs[key])
			} else {
				fmt.Fprintf(&sb, "-- (no stub: the signature could not be mapped)\n")
			}
			fmt.Fprintf(&sb, "\ndef %s_extracted : Bool := false\n\n", sp.lean)
		}
	}
	// T5: the functions whose pointer-level behaviour is covered by the definitions above
	tied := w.tiedFunctions()
	sb.WriteString("/-- functions of internal/gem whose pointer-level behaviour is the subject of this file: the functions of the translator's\nspec table (translated: `<name>_extracted = true`; refused: tied by the correspondence alone), and the unexported helpers\nall of whose call sites in the package are call statements that were inlined into translated functions -/\ndef tiedFunctions : List String := [")
	for i, t := range tied {
		if i > 0 {
			sb.WriteString(", ")
		}
		sb.WriteString(leanStrLit(t))
	}
	sb.WriteString("]\n\n")
	sb.WriteString("end RosedVerif.Gen.GemCode\n")
	msg := fmt.Sprintf("gemcode=extracted(%d)/refused(%d:%s)", nOK, len(refused), strings.Join(refused, ","))
	return msg, writeIfChanged(filepath.Join(dir, "GemCode.lean"), sb.String())
}
