package main

// Generators: structured, mostly valid inputs; every random choice comes from
// one PRNG seeded by VERIF_SEED (DESIGN.md section 4b).

import (
	"regexp"
	"unicode/utf8"
	"bufio"
	"fmt"
	"math"
	"math/rand"
	"os"
	"strconv"
	"strings"

	"github.com/dekarrin/rosed"
	vh "github.com/dekarrin/rosed/verifhook"
)

type gen struct {
	r       *rand.Rand
	out     *bufio.Writer
	n       int
	tier    string
	noSib   bool // no sibling cases (groups whose cases are slow or exhaustive)
	pfx     string
	longP   float64 // probability that text() returns a long text
	longMax int     // its size in clusters, at most
	multi   bool    // programs of many steps: no inputs that make the text grow by orders of magnitude per step
}

func (g *gen) emit(kind string, args ...string) {
	g.n++
	fmt.Fprintf(g.out, "%s%d|%s|%s\n", g.pfx, g.n, kind, strings.Join(args, "|"))
	if kind == "prog" && len(args) == 1 && !g.noSib && g.chance(0.07) {
		if sib, ok := g.sibling(args[0]); ok {
			g.n++
			fmt.Fprintf(g.out, "%s%d|%s|%s\n", g.pfx, g.n, kind, sib)
		}
	}
}

var sibSeps = []string{"a", "d.a", "7c", "3c.62.72.3e", "3c.62.72.2f.3e", "2d.2d", "-"}
var reInt = regexp.MustCompile(`^-?[0-9]{1,6}$`)

// sibling: the same program with ONE argument of its last operation changed (a width, gap or position
// by a little, the line separator, one option flag), emitted directly after the original. A result
// cached under a key that leaves that argument out (seeded changes C15g, C14g: memo of wrapped text
// keyed by text and width but not by the separator / shared lines mutated by a later call with
// another gap) is then stale for the sibling and differs from the model. The second, reverse-order
// pass of the runner sees the pair in the other order as well.
func (g *gen) sibling(prog string) (string, bool) {
	steps := strings.Split(prog, ";")
	// last step that is a real operation (not an observer)
	k := len(steps) - 1
	for k > 0 {
		op := strings.SplitN(steps[k], ",", 2)[0]
		if op == "string" || op == "commit" || op == "commitall" || op == "charcount" || op == "linecount" {
			k--
			continue
		}
		break
	}
	if k <= 0 {
		return "", false
	}
	f := strings.Split(steps[k], ",")
	var cand []int
	for i := 2; i < len(f); i++ {
		if i == 2 && (f[0] == "apply" || f[0] == "applypara") {
			continue // the callback's number, not an argument of the library
		}
		if reInt.MatchString(f[i]) || strings.Count(f[i], ":") == 4 {
			cand = append(cand, i)
		}
	}
	if len(cand) == 0 {
		return "", false
	}
	i := cand[g.r.Intn(len(cand))]
	if reInt.MatchString(f[i]) {
		v, _ := strconv.Atoi(f[i])
		d := []int{-2, -1, 1, 2, 3}[g.r.Intn(5)]
		f[i] = strconv.Itoa(v + d)
	} else {
		o := strings.Split(f[i], ":")
		if g.chance(0.6) {
			ns := g.pick(sibSeps)
			if ns == o[1] {
				ns = "a"
			}
			if ns == o[1] {
				ns = "7c"
			}
			o[1] = ns
		} else {
			fl, _ := strconv.Atoi(o[4])
			fl ^= 1 << uint(g.r.Intn(5))
			o[4] = strconv.Itoa(fl)
		}
		f[i] = strings.Join(o, ":")
	}
	steps[k] = strings.Join(f, ",")
	return strings.Join(steps, ";"), true
}

func (g *gen) pick(ss []string) string { return ss[g.r.Intn(len(ss))] }
func (g *gen) chance(p float64) bool  { return g.r.Float64() < p }

var stableClusters = []string{
	"a", "b", "c", "d", "e", "x", "y", "z", "A", "Q", "0", "7", ".", ",", "!", "(", "-", "_",
	"é",                                   // precomposed é
	"é",                                  // decomposed é
	"각",                                   // Hangul LVT syllable
	"각",                       // conjoining jamo L V T
	"कि",                             // Devanagari consonant + spacing mark
	"\U0001F468‍\U0001F469‍\U0001F467", // emoji ZWJ family
	"\U0001F1E9\U0001F1EA",                     // flag
	"1️⃣",                            // keycap
	"中",                                   // CJK
	"\U0001D11E",                               // 4-byte
	"\U0001F44D\U0001F3FD",                     // emoji + modifier
	"ß",                                   // sharp s (ToUpper one-to-one in Go)
	"\U0001F3F4\U000E0067\U000E0062\U000E0065\U000E006E\U000E0067\U000E007F", // England flag: tag characters U+E00xx share their low 16 bits with ASCII g b e n
	"a\U000E0101",                         // variation selector supplement: low 16 bits = U+0101
	"ā",                                    // … and U+0101 itself
	"\uFFFD",                              // a literal, well-formed REPLACEMENT CHARACTER (3 bytes)
	"ǅ", "ⅲ", "ⓐ",                         // Lt / Nl / So code points that ToUpper changes although they are not Ll
}

// clusters of more than 32 code points (UAX #29 puts no bound on the length of a cluster; fixed
// buffers and "stream-safe" look-behind caps do): a base with 33–70 marks, a run of 33–50 leading
// consonants, a ZWJ chain of 17–24 emoji, 33 Prepend characters before a letter
func (g *gen) giantCluster() string {
	var sb strings.Builder
	switch g.r.Intn(5) {
	case 0, 4:
		sb.WriteString([]string{"a", "\U0001F469", "\U0001F469"}[g.r.Intn(3)])
		nm := 33 + g.r.Intn(38)
		if g.chance(0.3) {
			nm = 64 + g.r.Intn(140)
		}
		for i := 0; i < nm; i++ {
			sb.WriteString([]string{"\u0301", "\u0308", "\u0323"}[g.r.Intn(3)])
		}
		if g.chance(0.5) {
			sb.WriteString("\u200d\U0001F467")
		}
	case 1:
		for i := 0; i < 33+g.r.Intn(18); i++ {
			sb.WriteString("\u1100")
		}
		sb.WriteString("\u1161\u11a8")
	case 2:
		sb.WriteString("\U0001F468")
		for i := 0; i < 17+g.r.Intn(8); i++ {
			sb.WriteString("\u200d\U0001F469")
		}
	default:
		for i := 0; i < 33+g.r.Intn(6); i++ {
			sb.WriteString("\u0600")
		}
		sb.WriteString("x")
	}
	return sb.String()
}

// a text of n clusters each of which has five or more code points (ZWJ families, keycaps with
// marks, jamo runs, letters with stacked marks): windows sized "a few code points per character" are
// too small here
func (g *gen) denseText(n int) string {
	var sb strings.Builder
	for i := 0; i < n; i++ {
		switch g.r.Intn(5) {
		case 0:
			sb.WriteString("\U0001F468\u200d\U0001F469\u200d\U0001F467\u200d\U0001F466")
		case 1:
			sb.WriteString("\u1100\u1100\u1161\u1161\u11a8\u11a8")
		case 2:
			sb.WriteString("e\u0301\u0308\u0323\u0301\u0308")
		case 3:
			sb.WriteString("\u0915\u094d\u200d\u093c\u093e\u0903")
		default:
			sb.WriteString("\U0001F469\U0001F3FD\u200d\U0001F4BB\ufe0f\u0301")
		}
		if g.chance(0.08) {
			sb.WriteString(" ")
		}
	}
	return sb.String()
}

// pictograph + 32–90 Extend + ZWJ + pictograph: one cluster by GB11, whatever the distance
func (g *gen) giantZWJ() string {
	var sb strings.Builder
	sb.WriteString([]string{"\U0001F469", "\U0001F468", "\u2764"}[g.r.Intn(3)])
	for i := 0; i < 32+g.r.Intn(59); i++ {
		sb.WriteString([]string{"\u0301", "\ufe0f", "\U0001F3FD"}[g.r.Intn(3)])
	}
	sb.WriteString("\u200d\U0001F467")
	return sb.String()
}

// a run of 34–90 regional indicators (17+ flags, sometimes an odd half at the end)
func (g *gen) flagRun() string {
	var sb strings.Builder
	for i := 0; i < 34+g.r.Intn(57); i++ {
		sb.WriteRune(rune(0x1F1E6 + g.r.Intn(26)))
	}
	return sb.String()
}

var unstableClusters = []string{
	"́", "‍", "ि", "؀", "\U0001F1E9", "\r", "\n", "​", "\u0085", " ",
	" ", "�", "ᄀ", "ᆨ", "\U0001F3FD", "©",
}

var wsStable = []string{" ", " ", " ", " ", "\t", " ", "　"}
var wsAll = []string{" ", " ", " ", "\t", " ", "　", " ", "\r\n", "\v"}

// "--" and "||" overlap themselves: "a---" holds one separator and a stray "-", and
// strings.Count/HasSuffix-style shortcuts disagree with strings.Split there
var lineSeps = []string{"\n", "\n", "\n", "\r\n", "|", "<br>", "·\n", "--", "||", "\uFFFD", " ", "  "}
// line separators made of the letter the library uses internally as a stand-in (paragraph-mode Wrap and
// Justify pad a paragraph with "A"s in place of the paragraph separator's affixes): alone, doubled, and
// next to letters that the texts contain (defect D18: the stand-ins were read as line separators); "BA" makes
// the repaired search for a free stand-in take two steps
var internalSeps = []string{"A", "AA", "xA", "Ay", "BA"}
var paraSeps = []string{"\n\n", "\n\n", "\n\n", "\r\n\r\n", "\n--\n", "<P>\n</P>", "||", "¶", "\n\n> ", " <<\n\n", " <fi\u0301n> ", "\U0001F1E9\U0001F1EA\n\U0001F1EA\U0001F1F8"}

// mode: 0 = stable only, 1 = mostly stable with some unstable, 2 = ascii letters only,
// 3 = ASCII only with CR LF among the whitespace (the one multi-rune ASCII cluster: any
// "all bytes < 0x80, so one cluster per byte" shortcut is wrong exactly there)
func (g *gen) cluster(mode int) string {
	switch mode {
	case 2:
		return string(rune('a' + g.r.Intn(26)))
	case 3:
		return stableClusters[g.r.Intn(18)]
	case 1:
		if g.chance(0.15) {
			return g.pick(unstableClusters)
		}
	}
	if g.chance(0.55) {
		return stableClusters[g.r.Intn(18)] // ASCII part
	}
	return g.pick(stableClusters)
}

func (g *gen) word(mode int, maxLen int) string {
	n := 1 + g.r.Intn(maxLen)
	if g.chance(0.1) {
		n += g.r.Intn(12)
	}
	var sb strings.Builder
	if (mode == 0 || mode == 1) && g.chance(0.025) {
		if g.chance(0.6) {
			return g.giantCluster()
		}
		return g.flagRun()
	}
	if (mode == 0 || mode == 1) && g.chance(0.04) {
		// a run of one multi-code-point cluster (flags, jamo syllables, ZWJ families …): boundaries
		// inside such a run depend on context far to the left (regional-indicator parity)
		c := stableClusters[18+g.r.Intn(len(stableClusters)-18)]
		for i := 0; i < n+2; i++ {
			sb.WriteString(c)
		}
		return sb.String()
	}
	for i := 0; i < n; i++ {
		sb.WriteString(g.cluster(mode))
	}
	return sb.String()
}

func (g *gen) ws(mode int) string {
	n := 1
	if g.chance(0.25) {
		n += g.r.Intn(3)
	}
	var sb strings.Builder
	for i := 0; i < n; i++ {
		if mode == 1 {
			sb.WriteString(g.pick(wsAll))
		} else if mode == 2 {
			sb.WriteString(" ")
		} else if mode == 3 {
			sb.WriteString([]string{" ", " ", " ", "\t", "\r\n", "\r\n"}[g.r.Intn(6)])
		} else {
			sb.WriteString(g.pick(wsStable))
		}
	}
	return sb.String()
}

func (g *gen) line(mode int, maxWords int) string {
	nw := g.r.Intn(maxWords + 1)
	var sb strings.Builder
	if g.chance(0.15) {
		sb.WriteString(g.ws(mode))
	}
	for i := 0; i < nw; i++ {
		if i > 0 {
			sb.WriteString(g.ws(mode))
		}
		sb.WriteString(g.word(mode, 7))
	}
	if g.chance(0.15) {
		sb.WriteString(g.ws(mode))
	}
	return sb.String()
}

func (g *gen) para(mode int, lineSep string, maxLines int) string {
	nl := g.r.Intn(maxLines + 1)
	ls := make([]string, nl)
	for i := range ls {
		ls[i] = g.line(mode, 6)
	}
	s := strings.Join(ls, lineSep)
	if g.chance(0.2) {
		s += lineSep
	}
	return s
}

// longText: several hundred to a few thousand clusters, with at least one line far longer than
// any width and (sometimes) one word longer than a hundred clusters — sizes that fast paths,
// caches and scratch buffers keyed on a length threshold only see here
func (g *gen) longText(mode int, lineSep, paraSep string) string {
	target := 500 + g.r.Intn(g.longMax-499)
	var sb strings.Builder
	n := 0
	for n < target {
		switch g.r.Intn(8) {
		case 0:
			sb.WriteString(paraSep)
		case 1:
			w := g.word(mode, 3)
			for i := 0; i < 20+g.r.Intn(10); i++ {
				w += g.cluster(mode)
			}
			if g.chance(0.3) {
				for i := 0; i < 90; i++ {
					w += g.cluster(mode)
				}
			}
			if g.chance(0.3) {
				// one word of 256–420 clusters: hyphenation fast paths for "long words" start here
				for i := 0; i < 230+g.r.Intn(170); i++ {
					w += string(rune('a' + g.r.Intn(26)))
				}
				n += 300
			}
			sb.WriteString(w)
			n += 30
		case 2:
			// one long line
			for i := 0; i < 40+g.r.Intn(80); i++ {
				sb.WriteString(g.word(mode, 6))
				sb.WriteString(g.ws(mode))
				n += 5
			}
			sb.WriteString(lineSep)
		default:
			sb.WriteString(g.line(mode, 8))
			sb.WriteString(lineSep)
			n += 20
		}
	}
	return sb.String()
}

func (g *gen) text(mode int, lineSep, paraSep string) string {
	if g.longP > 0 && g.chance(g.longP) {
		return g.longText(mode, lineSep, paraSep)
	}
	switch g.r.Intn(12) {
	case 0:
		return ""
	case 1:
		return lineSep
	case 2:
		return paraSep
	case 3:
		return g.line(mode, 8)
	case 4:
		return lineSep + paraSep + g.line(mode, 3) + paraSep + lineSep
	case 5:
		if g.chance(0.3) {
			// a line separator right after a paragraph separator, then a character that attaches to
			// whatever precedes it (mark, ZWJ, spacing mark, or LF after a CR separator)
			att := []string{"\u0301", "\u200d", "\u093e", "\n"}[g.r.Intn(4)]
			return g.line(mode, 2) + paraSep + lineSep + att + g.line(mode, 2) + paraSep + att + "z"
		}
	case 6:
		if g.chance(0.3) {
			// the same multi-line paragraph in first, middle and last position
			p := g.para(mode, lineSep, 3)
			return p + paraSep + p + paraSep + g.line(mode, 2) + paraSep + p
		}
	}
	np := 1 + g.r.Intn(4)
	ps := make([]string, np)
	for i := range ps {
		ps[i] = g.para(mode, lineSep, 4)
	}
	s := strings.Join(ps, paraSep)
	if g.chance(0.3) {
		s += lineSep
	}
	if g.chance(0.1) {
		s += paraSep
	}
	if len(lineSep) > 1 && lineSep[0] == lineSep[1] && g.chance(0.5) {
		// a stray half of a self-overlapping separator right before / after a real one
		half := lineSep[:1]
		switch g.r.Intn(3) {
		case 0:
			s += half
		case 1:
			s = strings.Replace(s, lineSep, half+lineSep, 1)
		default:
			s = strings.Replace(s, lineSep, lineSep+half, 1) + lineSep + half
		}
	}
	return s
}

func (g *gen) pos(n int) int {
	switch g.r.Intn(14) {
	case 0:
		return rosed.End
	case 1:
		return math.MaxInt64
	case 2:
		return math.MinInt64 + 1
	case 3:
		return 0
	case 4:
		return -1
	case 5:
		return math.MaxInt64 - 1
	}
	return g.r.Intn(2*n+7) - n - 3
}

// minimum distance between the two columns: small, and sometimes negative (the unrepaired code
// panicked there with a negative strings.Repeat count, D17)
func (g *gen) gap() int {
	if g.chance(0.15) {
		return -1 - g.r.Intn([]int{2, 8, 60}[g.r.Intn(3)])
	}
	return g.r.Intn(5)
}

func (g *gen) width() int {
	if g.chance(0.08) {
		return g.r.Intn(5) - 3
	}
	if !g.multi && g.chance(0.015) {
		return 130 + g.r.Intn(500) // wider than any fixed padding buffer
	}
	return g.r.Intn(46)
}

// D20: widths at the ends of the int range, each with a small probability.  For the padding
// operations (align, justify, table, twocol, deftable) the bottom of the range: math.MinInt,
// math.MinInt+1 (= -math.MaxInt) and math.MinInt+k for k up to a line length n — there the unrepaired
// `width - len` of AlignLineLeft/Right/Center and MakeTable wrapped around to a huge positive filler
// count and the call did not return — never math.MaxInt (an output that wide cannot be produced);
// for wrap, which pads nothing, both ends.
func (g *gen) xwidth(w int, wrap bool, n int) int {
	if !g.chance(0.01) {
		return w
	}
	if wrap {
		return []int{math.MaxInt, math.MaxInt - 1, math.MinInt}[g.r.Intn(3)]
	}
	if n > 200 {
		n = 200
	}
	switch g.r.Intn(4) {
	case 0:
		return math.MinInt
	case 1:
		return math.MinInt + 1
	case 2:
		return math.MinInt + 1 + g.r.Intn(n+1)
	}
	return -math.MaxInt
}
func (g *gen) widthPad(n int) int { return g.xwidth(g.width(), false, n) }
func (g *gen) widthWrap() int     { return g.xwidth(g.width(), true, 0) }

// D21: InsertDefinitionsTableOpts had the same wrap-around of its own (operations.go
// `rightWidth := width - leftWidth - minBetween`, then Wrap(def, rightWidth-2)): for a width within
// longestTerm+6 of math.MinInt the definition was not wrapped at all, while every other negative
// width wraps it at the minimum width 2; Edit("").InsertDefinitionsTable(0,
// [][2]string{{"a","b c d"}}, math.MinInt) returned "  a  - b c d\n", for -5 "  a  - b\n       c\n       d\n".
// With the flag off no extreme width is drawn for deftable steps.
const deftableExtremeWidths = true

func (g *gen) widthDefTable() int {
	if deftableExtremeWidths {
		return g.widthPad(40)
	}
	return g.width()
}

func (g *gen) charset() string {
	switch g.r.Intn(9) {
	case 8:
		return []string{"a\u0600", "\u0600", "ab\u06dd", "+|\u0600-"}[g.r.Intn(4)]
	case 0, 1, 2:
		return ""
	case 3:
		return rosed.DefaultTableCharSet
	case 4:
		return "#"
	case 5:
		return "*:"
	case 6:
		return "éé\U0001F1E9\U0001F1EA"
	}
	return "#!=+"
}

// opts: field policy unset / explicit default / custom
func (g *gen) opts(mode int) (rosed.Options, string, string) {
	var o rosed.Options
	ls, ps := rosed.DefaultLineSeparator, rosed.DefaultParagraphSeparator
	switch g.r.Intn(4) {
	case 0:
	case 1:
		o.LineSeparator = rosed.DefaultLineSeparator
	default:
		o.LineSeparator = g.pick(lineSeps)
		if g.chance(0.06) {
			o.LineSeparator = g.pick(internalSeps)
		}
		ls = o.LineSeparator
	}
	switch g.r.Intn(4) {
	case 0:
	case 1:
		o.ParagraphSeparator = rosed.DefaultParagraphSeparator
	default:
		o.ParagraphSeparator = g.pick(paraSeps)
		ps = o.ParagraphSeparator
		if ls == "\r\n" && g.chance(0.7) {
			o.ParagraphSeparator = "\r\n\r\n"
			ps = o.ParagraphSeparator
		}
		if (ls == "|" || ls == "<br>" || ls == "\uFFFD") && g.chance(0.5) {
			// a paragraph separator that is a repetition of a VISIBLE line separator (ambiguous overlap)
			o.ParagraphSeparator = ls + ls
			ps = o.ParagraphSeparator
		}
	}
	switch g.r.Intn(4) {
	case 0:
	case 1:
		o.IndentStr = rosed.DefaultIndentString
	case 2:
		o.IndentStr = "  "
	default:
		o.IndentStr = "» "
	}
	o.TableCharSet = g.charset()
	if g.multi && strings.TrimLeft(o.LineSeparator, " ") == "" && o.LineSeparator != "" {
		// with a blank as line separator every word is a line, and Align/Justify multiply the text
		// by the width at every step
		o.LineSeparator = "\n"
		ls = o.LineSeparator
	}
	if mode == 3 { // keep every byte of text and options below 0x80
		if o.LineSeparator == "·\n" {
			o.LineSeparator = "\r\n"
			ls = o.LineSeparator
		}
		if o.ParagraphSeparator == "¶" {
			o.ParagraphSeparator = "\r\n\r\n"
			ps = o.ParagraphSeparator
		}
		if o.IndentStr == "» " {
			o.IndentStr = "> "
		}
		if !isASCII(o.TableCharSet) {
			o.TableCharSet = "#!=+"
		}
	}
	o.NoTrailingLineSeparators = g.chance(0.3)
	o.PreserveParagraphs = g.chance(0.4)
	o.JustifyLastLine = g.chance(0.3)
	o.TableBorders = g.chance(0.5)
	o.TableHeaders = g.chance(0.5)
	return o, ls, ps
}

func isASCII(s string) bool {
	for i := 0; i < len(s); i++ {
		if s[i] >= 0x80 {
			return false
		}
	}
	return true
}

func clusterCount(s string) int { return rosed.Edit(s).CharCount() }

// ---------------------------------------------------------------------------
// groups

var classReps = [][]rune{
	{'a', 0x4e2d},       // other
	{0x0d, 0x0d},        // cr
	{0x0a, 0x0a},        // lf
	{0x200b, 0x01},      // control
	{0x0301, 0x1F3FD},   // extend
	{0x200d, 0x200d},    // zwj
	{0x1F1E9, 0x1F1FA},  // ri
	{0x0600, 0x110BD},   // prepend
	{0x093f, 0x0903},    // spacing
	{0x1100, 0xA960},    // l
	{0x1161, 0xD7B0},    // v
	{0x11a8, 0xD7CB},    // t
	{0xac00, 0xAC1C},    // lv
	{0xac01, 0xD7A3},    // lvt
	{0x1F468, 0x00a9},   // extpict
}

func (g *gen) groupSplit() {
	maxLen := 3
	if g.tier == "thorough" {
		maxLen = 5
	}
	// exhaustive over class strings up to maxLen (first representative), plus
	// the second representative at a random subset
	var rec func(prefix []rune, depth int)
	rec = func(prefix []rune, depth int) {
		g.emit("split", encRunes(prefix))
		if depth == maxLen {
			return
		}
		for _, reps := range classReps {
			rec(append(append([]rune{}, prefix...), reps[0]), depth+1)
		}
	}
	for _, reps := range classReps {
		rec([]rune{reps[0]}, 1)
	}
	g.emit("split", "-")
	// random long strings biased to the unbounded look-behinds
	n := 3000
	if g.tier == "thorough" {
		n = 100000
	}
	hot := []int{4, 4, 5, 6, 6, 6, 14, 14, 7, 0}
	for i := 0; i < n; i++ {
		l := 1 + g.r.Intn(12)
		if g.chance(0.2) {
			l += g.r.Intn(70)
		}
		rs := make([]rune, l)
		for j := range rs {
			var c int
			if g.chance(0.6) {
				c = hot[g.r.Intn(len(hot))]
			} else {
				c = g.r.Intn(len(classReps))
			}
			rs[j] = classReps[c][g.r.Intn(2)]
		}
		g.emit("split", encRunes(rs))
	}
	// clusters beyond any fixed look-behind window, with a little context on both sides
	for i := 0; i < n/30; i++ {
		pre := []string{"", "a", "\U0001F1E9", "\u200d", " "}[g.r.Intn(5)]
		post := []string{"", "b", "\U0001F1EA", "\u0301", "\u200d\U0001F467"}[g.r.Intn(5)]
		body := g.giantCluster()
		if g.chance(0.5) {
			body = g.flagRun()
		}
		g.emit("split", encRunes([]rune(pre+body+post)))
	}
	// strings longer than 4096 runes (piece-wise analysis must not cut where a cluster continues)
	for i := 0; i < 2+n/5000; i++ {
		var sb strings.Builder
		for sb.Len() < 4100 {
			sb.WriteString(g.word(2, 9))
			sb.WriteString(" ")
		}
		body := sb.String()[:4080+g.r.Intn(14)]
		g.emit("split", encRunes([]rune(body+strings.Repeat("b", g.r.Intn(6))+" \u0301x \u200d\U0001F467 \u0903y\n\u0301z "+g.word(2, 5))))
	}
	// LONG inputs (round 7: block-wise / line-wise / "classified" paths of Split above 4096 or 8192 runes):
	// CR LF documents of mixed content, so that some CR LF pair, flag, emoji ZWJ sequence or syllable stands at
	// or across every multiple of 1024; and one long text that contains, after 8300 letters, the class probes of
	// every code point at which a class table has an edge (a class computed differently on the long path)
	for _, target := range []int{4200, 9000, 13000} {
		pieces := []string{"ab", "\U0001F1E9\U0001F1EA", "\U0001F468\u200d\U0001F469\u200d\U0001F467", "\u1100\u1161\u11a8",
			"e\u0301", "\u00a9\u200d\u00ae", "\U0001F600\u200d\u00a9", "\u0600x", "\uac01\u11a8", "z"}
		var rs []rune
		for len(rs) < target {
			ll := 3 + g.r.Intn(20)
			for k := 0; k < ll; k++ {
				rs = append(rs, []rune(pieces[g.r.Intn(len(pieces))])...)
			}
			rs = append(rs, '\r', '\n')
		}
		g.emit("split", encRunes(rs))
	}
	{
		rs := []rune(strings.Repeat("a", 8300))
		edges := classEdges()
		step := 1
		if g.tier != "thorough" {
			step = 1 + len(edges)/600
		}
		off := g.r.Intn(step)
		for i := 0; i < len(edges); i++ {
			c := rune(edges[i])
			if c < 0 || c > 0x10FFFF || (c >= 0xD800 && c <= 0xDFFF) {
				continue
			}
			if c >= 0x3000 && i%step != off { // every edge below U+3000, a sample of the others
				continue
			}
			for _, pr := range [][]rune{{'a', c}, {c, 'a'}, {c, 0x308}, {0x1F600, 0x200d, c}, {0x1F600, c, 0x200d, 0x1F600},
				{0x1F1E9, c}, {0x1100, c}, {c, 0x1161}, {c, 0x11a8}, {0x0d, c}, {c, 0x0a}, {0x1161, c}} {
				rs = append(rs, pr...)
				rs = append(rs, ' ', 'x', ' ')
			}
		}
		g.emit("split", encRunes(rs))
	}
	// arbitrary rune values (also ill-formed / out of range)
	for i := 0; i < n/10; i++ {
		l := 1 + g.r.Intn(6)
		rs := make([]rune, l)
		for j := range rs {
			switch g.r.Intn(4) {
			case 0:
				rs[j] = rune(g.r.Intn(0x110000))
			case 1:
				rs[j] = rune(g.r.Intn(0x3000))
			case 2:
				rs[j] = rune(0xD800 + g.r.Intn(0x800))
			default:
				rs[j] = rune(0x110000 + g.r.Intn(1000))
			}
		}
		g.emit("split", encRunes(rs))
	}
}

func (g *gen) groupClass() {
	n := 20000
	if g.tier == "thorough" {
		for r := -100; r <= 0x10FFFF+100; r++ {
			g.emit("preds", strconv.Itoa(r))
		}
		return
	}
	for i := 0; i < n; i++ {
		g.emit("preds", strconv.Itoa(g.r.Intn(0x110000+200)-100))
	}
	for r := 0; r < 0x3100; r++ {
		g.emit("preds", strconv.Itoa(r))
	}
	for _, r := range classEdges() {
		g.emit("preds", strconv.Itoa(r))
	}
}

// every code point at which the real predicates change value, and every edge of the reference
// tables (data/ucd13/ref_edges.txt, written by tools/ucd/mkref.py), each with its neighbours
func classEdges() []int {
	seen := map[int]bool{}
	var out []int
	add := func(r int) {
		for _, x := range []int{r - 1, r, r + 1} {
			if x >= -1 && x <= 0x110000 && !seen[x] {
				seen[x] = true
				out = append(out, x)
			}
		}
	}
	prev := vh.GemPreds(0)
	for r := 1; r <= 0x10FFFF; r++ {
		m := vh.GemPreds(rune(r))
		if m != prev {
			add(r)
			prev = m
		}
	}
	if b, err := os.ReadFile("/verif/data/ucd13/ref_edges.txt"); err == nil {
		for _, f := range strings.Fields(string(b)) {
			if n, err := strconv.ParseInt(f, 16, 64); err == nil {
				add(int(n))
			}
		}
	}
	return out
}

func (g *gen) groupProbe() {
	if g.tier == "thorough" {
		for r := -300; r <= 0x10FFFF+300; r++ {
			g.emit("probe", strconv.Itoa(r))
		}
		for _, r := range []int{math.MinInt32, math.MaxInt32, -(1 << 20), 1 << 21} {
			g.emit("probe", strconv.Itoa(r))
		}
		for r := 0; r <= 0xFFFF; r++ { // all shadow pairs
			for _, k := range []int{1, 2, 0xE, 0x10} {
				g.emit("probe", strconv.Itoa(r+k*0x10000))
				g.emit("probe", strconv.Itoa(r))
			}
		}
	} else {
		g.probeQuickBase()
	}
	g.probeAliases()
}

func (g *gen) probeQuickBase() {
	for r := 0; r < 0x3200; r++ {
		g.emit("probe", strconv.Itoa(r))
	}
	for i := 0; i < 30000; i++ {
		g.emit("probe", strconv.Itoa(g.r.Intn(0x110000+600)-300))
	}
	for _, r := range classEdges() {
		g.emit("probe", strconv.Itoa(r))
	}
	// shadow pairs, back to back in one process: a supplementary code point and the BMP code point
	// with the same low 16 bits (a class cache keyed on too few bits answers the second with the
	// class of the first), in both orders, for every code point where a class changes
	for _, r := range classEdges() {
		if r < 0 || r > 0xFFFF {
			continue
		}
		for _, k := range []int{1, 2, 0xE, 0x10} {
			s := r + k*0x10000
			g.emit("probe", strconv.Itoa(s))
			g.emit("probe", strconv.Itoa(r))
			g.emit("probe", strconv.Itoa(s))
		}
	}
}

func (g *gen) probeAliases() {
	// out-of-range aliases (seeded change C02g: a class cache whose packed key drops the top bits of
	// the rune): an ill-formed rune value r + 2^j (or r with the sign bit set) probed back to back
	// with the valid code point r it would alias, in both orders; such values must behave as Other
	for _, r := range classEdges() {
		if r < 0 || r > 0x10FFFF {
			continue
		}
		js := []int{21, 22, 23, 24, 25, 26, 27, 28, 29, 30}
		if g.tier != "thorough" {
			js = []int{21 + g.r.Intn(4), 25 + g.r.Intn(3), 28 + g.r.Intn(3)}
		}
		var al []int
		for _, j := range js {
			al = append(al, r+(1<<uint(j)))
		}
		al = append(al, r-(1<<31), r-(1<<uint(js[len(js)-1])))
		for _, s := range al {
			if s > math.MaxInt32 || s < math.MinInt32 {
				continue
			}
			g.emit("probe", strconv.Itoa(s))
			g.emit("probe", strconv.Itoa(r))
			g.emit("probe", strconv.Itoa(s))
		}
	}
	// every range edge of the source tables +-1 is hit by the translator's validation; here: edges of
	// the reference tables are covered by the random sample only statistically
}

func (g *gen) groupRange() {
	special := []int{rosed.End, math.MaxInt64, math.MinInt64 + 1, math.MaxInt64 - 1, math.MinInt64 + 2}
	for size := 0; size <= 6; size++ {
		var ps []int
		for p := -9; p <= 9; p++ {
			ps = append(ps, p)
		}
		ps = append(ps, special...)
		for _, a := range ps {
			for _, b := range ps {
				g.emit("r2i", strconv.Itoa(size), encInt(a), encInt(b))
			}
		}
	}
}

func (g *gen) editStep(text string, o rosed.Options) string {
	return "edit," + encText(text) + "," + encOpts(o)
}

// optsArg: "=" (use the X form) or an explicit Options for XOpts
func (g *gen) optsArg(o rosed.Options) string {
	if g.chance(0.35) {
		return "="
	}
	return encOpts(o)
}

// ill-formed bytes (Go decodes every such byte as a separate U+FFFD of width 1).  Only bytes that
// can never become part of a well-formed sequence whatever is inserted or deleted around them:
// bytes that are invalid everywhere (C0, C1, F5–FF) and lone lead bytes — and NO continuation
// bytes (80–BF), because two ill-formed fragments such as F0 9F 87 + 87 would join into a valid
// code point after an edit, which the model's atoms (one atom per ill-formed byte) cannot follow.
var rawSeqs = []string{"\xff", "\xc0", "\xc1\xfe", "\xf5", "\xc3", "\xe4", "\xf0", "\xe9", "\xed\xf8"}

// dirty inserts one to three ill-formed byte sequences into t at character boundaries.
// Only for groups whose operations move bytes without re-encoding them (selection, commit,
// insert/delete, the text under Overtype, line splitting): an operation that goes through []rune
// and back replaces the bytes by U+FFFD, which the model does not represent.
func (g *gen) dirty(t string) string {
	n := 1 + g.r.Intn(3)
	for i := 0; i < n; i++ {
		pos := g.r.Intn(len(t) + 1)
		for pos > 0 && pos < len(t) && !utf8.RuneStart(t[pos]) {
			pos--
		}
		t = t[:pos] + g.pick(rawSeqs) + t[pos:]
	}
	return t
}

func (g *gen) modeFor() int {
	switch g.r.Intn(10) {
	case 0, 1:
		return 1
	case 2:
		return 2
	case 3:
		return 3
	}
	return 0
}

func (g *gen) groupChars(n int) {
	for i := 0; i < n; i++ {
		mode := g.modeFor()
		o, ls, ps := g.opts(mode)
		t := g.text(mode, ls, ps)
		if g.chance(0.5) {
			t = g.line(mode, 4)
		}
		if g.chance(0.1) {
			t = g.dirty(t)
		}
		special := false
		if g.chance(0.02) {
			g.stalePrefixProg(o)
			continue
		}
		if g.chance(0.03) {
			// long and dense: more than 2048 bytes, more than four code points per character
			t = g.denseText(110 + g.r.Intn(150))
			special = true
		} else if g.chance(0.03) {
			// a character far longer than 32 code points early in a longer text
			t = g.word(2, 3) + g.giantCluster() + g.word(2, 4) + " " + g.giantCluster() + strings.Repeat(g.word(2, 6)+" ", 40+g.r.Intn(40))
			special = true
		}
		cc := clusterCount(t)
		var step string
		if special {
			a, b := g.r.Intn(12), g.r.Intn(12)
			if g.chance(0.5) {
				a, b = g.r.Intn(3), g.r.Intn(2)
			}
			switch g.r.Intn(3) {
			case 0:
				step = fmt.Sprintf("chars,0,%d,%d", a, a+b)
			case 1:
				step = fmt.Sprintf("charsto,0,%d", 1+a)
			default:
				step = fmt.Sprintf("charsfrom,0,%d", a)
			}
			g.emit("prog", strings.Join([]string{g.editStep(t, o), step, "charcount,0", "string,1", "commit,1", "charcount,1",
				fmt.Sprintf("insert,0,%d,%s", 1+a, encText("|")), fmt.Sprintf("delete,0,%d,%d", a, a+1), fmt.Sprintf("overtype,0,%d,%s", a, encText("xy"))}, ";"))
			continue
		}
		switch g.r.Intn(3) {
		case 0:
			step = fmt.Sprintf("chars,0,%s,%s", encInt(g.pos(cc)), encInt(g.pos(cc)))
		case 1:
			step = fmt.Sprintf("charsfrom,0,%s", encInt(g.pos(cc)))
		default:
			step = fmt.Sprintf("charsto,0,%s", encInt(g.pos(cc)))
		}
		ins := g.word(mode, 2)
		g.emit("prog", strings.Join([]string{g.editStep(t, o), step, "charcount,0", "string,1", "commit,1", "charcount,1",
			fmt.Sprintf("insert,1,%s,%s", encInt(g.pos(3)), encText(ins)), "commit,6", "string,6"}, ";"))
	}
	// exhaustive small: all texts of up to 3 clusters from a 4-cluster alphabet x positions
	alpha := []string{"a", "é", "́", "\U0001F1E9"}
	var texts []string
	var rec func(p string, d int)
	rec = func(p string, d int) {
		texts = append(texts, p)
		if d == 3 {
			return
		}
		for _, a := range alpha {
			rec(p+a, d+1)
		}
	}
	rec("", 0)
	ps := []int{-5, -4, -3, -2, -1, 0, 1, 2, 3, 4, 5, rosed.End, math.MaxInt64, math.MinInt64 + 1}
	for _, t := range texts {
		for _, a := range ps {
			for _, b := range ps {
				if g.tier != "thorough" && !g.chance(0.12) {
					continue
				}
				g.emit("prog", strings.Join([]string{g.editStep(t, rosed.Options{}), fmt.Sprintf("chars,0,%s,%s", encInt(a), encInt(b)), "string,1", "commit,1", "insert,1,0,58", "commit,4"}, ";"))
			}
		}
	}
}

// nested selections with edits between selection and commit (C05)
// a selection of 64–300 multi-byte characters, cut down to a prefix of itself (long enough in BYTES
// to pass for the whole selection in a length check), then counted and addressed from the end:
// anything remembered about the big selection is stale now
func (g *gen) stalePrefixProg(o rosed.Options) {
	nsel := 66 + g.r.Intn(240)
	wide := []string{"中", "각", "\U0001D11E", "é", "\U0001F44D\U0001F3FD", "ß"}
	var sb strings.Builder
	for i := 0; i < nsel+12; i++ {
		sb.WriteString(wide[g.r.Intn(len(wide))])
		if g.chance(0.1) {
			sb.WriteString(" ")
		}
	}
	k := nsel/3 + g.r.Intn(nsel-nsel/3-1)
	cut := []string{fmt.Sprintf("delete,1,%d,End", k), fmt.Sprintf("charsto,1,%d", k)}[g.r.Intn(2)]
	// pool: 0 text, 1 selection, 2 = 1 (counted), 3 the prefix, 4 = 3 (counted), 5, 6 edits of 3 addressed from the end
	g.emit("prog", strings.Join([]string{g.editStep(sb.String(), o), fmt.Sprintf("chars,0,%d,%d", g.r.Intn(5), 5+nsel), "charcount,1", cut,
		"charcount,3", "delete,3,-1,End", fmt.Sprintf("overtype,3,-1,%s", encText("Z")), "string,3", "commit,3", "string,5", "commit,5", "charcount,6"}, ";"))
}

func (g *gen) groupCommit(n int) {
	for i := 0; i < n; i++ {
		mode := g.modeFor()
		o, ls, ps := g.opts(mode)
		t := g.text(mode, ls, ps)
		if g.chance(0.02) {
			g.stalePrefixProg(o)
			continue
		}
		if g.chance(0.05) {
			// a selection edited until its text EQUALS the parent's whole text (seeded change C05k:
			// Commit short-cut on `ed.Text == parent.Text`): the prefix and the suffix of the parent are
			// inserted around the selected part; or a repeated line is doubled through Apply
			if g.chance(0.7) {
				cc := clusterCount(t)
				a := g.r.Intn(cc + 1)
				b := a + g.r.Intn(cc-a+1)
				pre := rosed.Edit(t).CharsTo(a).Text
				suf := rosed.Edit(t).CharsFrom(b).Text
				st := []string{g.editStep(t, o), fmt.Sprintf("chars,0,%d,%d", a, b),
					fmt.Sprintf("insert,1,0,%s", encText(pre)), fmt.Sprintf("insert,2,End,%s", encText(suf)),
					"string,3", "commit,3", "commitall,3"}
				g.emit("prog", strings.Join(st, ";"))
			} else {
				l := g.line(mode, 3)
				sep := o.LineSeparator
				if sep == "" {
					sep = "\n"
				}
				t2 := l + sep + l + sep
				st := []string{g.editStep(t2, o), "lines,0,0,1", "apply,1,2,=", "string,2", "commit,2", "commitall,2"}
				g.emit("prog", strings.Join(st, ";"))
			}
			continue
		}
		st := []string{g.editStep(t, o)}
		cur := 0
		depth := 1 + g.r.Intn(4)
		for d := 0; d < depth; d++ {
			// select
			switch g.r.Intn(6) {
			case 0:
				st = append(st, fmt.Sprintf("chars,%d,%s,%s", cur, encInt(g.pos(10)), encInt(g.pos(10))))
			case 1:
				st = append(st, fmt.Sprintf("charsfrom,%d,%s", cur, encInt(g.pos(10))))
			case 2:
				st = append(st, fmt.Sprintf("charsto,%d,%s", cur, encInt(g.pos(10))))
			case 3:
				st = append(st, fmt.Sprintf("lines,%d,%s,%s", cur, encInt(g.pos(3)), encInt(g.pos(3))))
			case 4:
				st = append(st, fmt.Sprintf("linesfrom,%d,%s", cur, encInt(g.pos(3))))
			default:
				st = append(st, fmt.Sprintf("linesto,%d,%s", cur, encInt(g.pos(3))))
			}
			cur = len(st) - 1
			// edit (sometimes)
			if g.chance(0.7) {
				switch g.r.Intn(8) {
				case 0:
					st = append(st, fmt.Sprintf("insert,%d,%s,%s", cur, encInt(g.pos(5)), encText(g.word(mode, 3))))
				case 1:
					st = append(st, fmt.Sprintf("delete,%d,%s,%s", cur, encInt(g.pos(5)), encInt(g.pos(5))))
				case 2:
					st = append(st, fmt.Sprintf("overtype,%d,%s,%s", cur, encInt(g.pos(5)), encText(g.word(mode, 3))))
				case 3:
					st = append(st, fmt.Sprintf("wrap,%d,%d,%s", cur, g.widthWrap(), g.optsArg(o)))
				case 4:
					st = append(st, fmt.Sprintf("collapse,%d,%s", cur, g.optsArg(o)))
				case 5:
					st = append(st, fmt.Sprintf("align,%d,%d,%d,%s", cur, 1+g.r.Intn(3), g.widthPad(40), g.optsArg(o)))
				case 6:
					if g.chance(0.5) {
						st = append(st, fmt.Sprintf("justify,%d,%d,%s", cur, g.widthPad(40), g.optsArg(o)))
					} else {
						st = append(st, fmt.Sprintf("indent,%d,%d,%s", cur, 1+g.r.Intn(2), g.optsArg(o)))
					}
				default:
					st = append(st, fmt.Sprintf("apply,%d,%d,%s", cur, g.r.Intn(8), g.optsArg(o)))
				}
				cur = len(st) - 1
			}
		}
		st = append(st, fmt.Sprintf("string,%d", cur))
		for d := 0; d < depth; d++ {
			st = append(st, fmt.Sprintf("commit,%d", cur))
			cur = len(st) - 1
		}
		st = append(st, fmt.Sprintf("commit,%d", cur)) // committing a root is the identity
		st = append(st, fmt.Sprintf("commitall,%d", 1+g.r.Intn(len(st)-1)))
		g.emit("prog", strings.Join(st, ";"))
	}
}

func (g *gen) groupEdit(n int) {
	for i := 0; i < n; i++ {
		mode := g.modeFor()
		t := g.line(mode, 4)
		if g.chance(0.2) {
			o, ls, ps := g.opts(mode)
			_ = o
			t = g.text(mode, ls, ps)
		}
		if g.chance(0.1) {
			t = g.dirty(t)
		}
		if g.chance(0.04) {
			// one very long cluster (pictograph, 32–90 marks, ZWJ, pictograph) with text after it: the
			// positions behind it are wrong for whoever splits it
			z := g.giantZWJ()
			pre := g.word(2, 2)
			t = pre + z + "xyz " + g.word(mode, 3)
			p := len(pre) + g.r.Intn(4)
			var step string
			switch g.r.Intn(4) {
			case 0:
				step = fmt.Sprintf("delete,0,%d,%d", p+1, p+2)
			case 1:
				step = fmt.Sprintf("insert,0,%d,%s", p+1, encText("|"))
			case 2:
				step = fmt.Sprintf("overtype,0,%d,%s", p, encText(z))
			default:
				step = fmt.Sprintf("delete,0,%d,End", -2-g.r.Intn(3))
			}
			g.emit("prog", g.editStep(t, rosed.Options{})+";"+step)
			continue
		}
		if g.chance(0.25) {
			// the same three operations on a SUB-editor, twice in a row, then committed (seeded change
			// C09g: Insert that merges back with CommitAll instead of Commit returns the root)
			cc := clusterCount(t)
			st := []string{g.editStep(t, rosed.Options{})}
			switch g.r.Intn(4) {
			case 0:
				st = append(st, fmt.Sprintf("chars,0,%s,%s", encInt(g.pos(cc)), encInt(g.pos(cc))))
			case 1:
				st = append(st, fmt.Sprintf("charsfrom,0,%s", encInt(g.pos(cc))))
			case 2:
				st = append(st, fmt.Sprintf("charsto,0,%s", encInt(g.pos(cc))))
			default:
				st = append(st, fmt.Sprintf("lines,0,%s,%s", encInt(g.pos(2)), encInt(g.pos(2))))
			}
			if g.chance(0.3) {
				st = append(st, fmt.Sprintf("chars,1,%s,%s", encInt(g.pos(cc)), encInt(g.pos(cc))))
			}
			for k := 0; k < 2; k++ {
				cur := len(st) - 1
				switch g.r.Intn(3) {
				case 0:
					st = append(st, fmt.Sprintf("insert,%d,%s,%s", cur, encInt(g.pos(cc)), encText(g.word(mode, 3))))
				case 1:
					st = append(st, fmt.Sprintf("delete,%d,%s,%s", cur, encInt(g.pos(cc)), encInt(g.pos(cc))))
				default:
					st = append(st, fmt.Sprintf("overtype,%d,%s,%s", cur, encInt(g.pos(cc)), encText(g.word(mode, 3))))
				}
			}
			st = append(st, fmt.Sprintf("string,%d", len(st)-1))
			st = append(st, fmt.Sprintf("commit,%d", len(st)-2))
			g.emit("prog", strings.Join(st, ";"))
			continue
		}
		if g.chance(0.12) {
			// the argument is derived from the receiver's own text: exactly what stands at the position,
			// a code-point prefix of it that may end inside a cluster, or the whole text (seeded change
			// C09k: "the new text is already there" tested on bytes)
			cc := clusterCount(t)
			p := g.r.Intn(cc + 1)
			tail := []rune(rosed.Edit(t).CharsFrom(p).Text)
			var arg string
			switch g.r.Intn(4) {
			case 0:
				arg = string(tail)
			case 1, 2:
				arg = string(tail[:g.r.Intn(len(tail)+1)])
			default:
				arg = string([]rune(t))
			}
			pos := p
			if g.chance(0.3) && p < cc {
				pos = p - cc
			}
			op := "overtype"
			if g.chance(0.25) {
				op = "insert"
			}
			g.emit("prog", g.editStep(t, rosed.Options{})+";"+fmt.Sprintf("%s,0,%s,%s", op, encInt(pos), encText(arg)))
			continue
		}
		cc := clusterCount(t)
		ins := g.word(mode, 4)
		if g.chance(0.1) {
			ins = ""
		}
		dirtyIns := g.chance(0.05) // Insert copies its argument; Overtype re-encodes it ([]rune and back)
		var step string
		switch g.r.Intn(3) {
		case 0:
			if dirtyIns {
				ins = g.dirty(ins)
			}
			step = fmt.Sprintf("insert,0,%s,%s", encInt(g.pos(cc)), encText(ins))
		case 1:
			step = fmt.Sprintf("delete,0,%s,%s", encInt(g.pos(cc)), encInt(g.pos(cc)))
		default:
			step = fmt.Sprintf("overtype,0,%s,%s", encInt(g.pos(cc)), encText(ins))
		}
		g.emit("prog", g.editStep(t, rosed.Options{})+";"+step)
	}
	// exhaustive small x positions
	texts := []string{"", "a", "ab", "abc", "abcdef", "éé", "a\U0001F1E9\U0001F1EAb", "́a"}
	ps := []int{-8, -7, -6, -4, -3, -2, -1, 0, 1, 2, 3, 4, 6, 7, 8, rosed.End, math.MaxInt64, math.MinInt64 + 1}
	for _, t := range texts {
		for _, a := range ps {
			g.emit("prog", g.editStep(t, rosed.Options{})+";"+fmt.Sprintf("insert,0,%s,%s", encInt(a), encText("XY")))
			g.emit("prog", g.editStep(t, rosed.Options{})+";"+fmt.Sprintf("overtype,0,%s,%s", encInt(a), encText("wxyz")))
			g.emit("prog", g.editStep(t, rosed.Options{})+";"+fmt.Sprintf("overtype,0,%s,%s", encInt(a), encText("é")))
			for _, b := range ps {
				g.emit("prog", g.editStep(t, rosed.Options{})+";"+fmt.Sprintf("delete,0,%s,%s", encInt(a), encInt(b)))
			}
		}
	}
}

func (g *gen) groupLines(n int) {
	for i := 0; i < n; i++ {
		mode := g.modeFor()
		o, ls, ps := g.opts(mode)
		t := g.text(mode, ls, ps)
		if g.chance(0.1) {
			t = g.dirty(t)
		}
		lc := strings.Count(t, ls) + 1
		var step string
		switch g.r.Intn(3) {
		case 0:
			step = fmt.Sprintf("lines,0,%s,%s", encInt(g.pos(lc)), encInt(g.pos(lc)))
		case 1:
			step = fmt.Sprintf("linesfrom,0,%s", encInt(g.pos(lc)))
		default:
			step = fmt.Sprintf("linesto,0,%s", encInt(g.pos(lc)))
		}
		g.emit("prog", strings.Join([]string{g.editStep(t, o), step, "linecount,0", "string,1", "commit,1", "linecount,1"}, ";"))
	}
}

func (g *gen) groupApply(n int) {
	for i := 0; i < n; i++ {
		mode := g.modeFor()
		o, ls, ps := g.opts(mode)
		t := g.text(mode, ls, ps)
		f := g.r.Intn(8)
		if g.chance(0.4) {
			f = 0
		}
		if g.chance(0.1) {
			// Apply splits and joins bytes: ill-formed UTF-8 must come back byte for byte (seeded change
			// C10i: a detour through []rune turns it into U+FFFD)
			t = g.dirty(t)
		}
		g.emit("prog", strings.Join([]string{g.editStep(t, o), fmt.Sprintf("apply,0,%d,%s", f, g.optsArg(o)), "linecount,0"}, ";"))
	}
}

func (g *gen) groupPara(n int) {
	for i := 0; i < n; i++ {
		mode := g.modeFor()
		o, ls, ps := g.opts(mode)
		t := g.text(mode, ls, ps)
		if g.chance(0.2) {
			// the ambiguous sequence at several positions
			t = g.line(mode, 2) + ps + ls + g.line(mode, 2) + ls + ps + ps + g.line(mode, 1)
		}
		f := g.r.Intn(6)
		if g.chance(0.4) {
			f = 0
		}
		g.emit("prog", strings.Join([]string{g.editStep(t, o), fmt.Sprintf("applypara,0,%d,%s", f, g.optsArg(o))}, ";"))
	}
}

func (g *gen) groupLayout(n int, which string) {
	for i := 0; i < n; i++ {
		mode := g.modeFor()
		o, ls, ps := g.opts(mode)
		t := g.text(mode, ls, ps)
		edOpts := o
		if g.chance(0.3) {
			// the Editor carries other Options than the call: XOpts must use the call's
			edOpts, _, _ = g.opts(mode)
		}
		defer1 := func(step string) {
			if edOpts != o && strings.HasSuffix(step, ",=") {
				step = strings.TrimSuffix(step, "=") + encOpts(o)
			}
			g.emit("prog", g.editStep(t, edOpts)+";"+step)
		}
		var step string
		// numeric coincidences: a width equal to the length of a line (under the Editor's or the call's
		// separators), or one that a very long word fills exactly after its hyphenated pieces
		wd := g.width()
		if g.chance(0.06) {
			sep := ls
			if g.chance(0.5) && edOpts.LineSeparator != "" {
				sep = edOpts.LineSeparator
			}
			lines := strings.Split(t, sep)
			wd = clusterCount(lines[g.r.Intn(len(lines))])
		}
		if which == "wrap" && g.chance(0.02) {
			w := 2 + g.r.Intn(40)
			k := (255 + w - 2) / (w - 1) // smallest k with 1 + k(w-1) >= 256
			L := 1 + (k+g.r.Intn(3))*(w-1)
			t = g.line(mode, 2) + " " + strings.Repeat("x", L) + " " + g.line(mode, 2)
			wd = w
		}
		switch which { // D20: extreme widths
		case "wrap":
			wd = g.xwidth(wd, true, 0)
		case "justify", "align":
			wd = g.xwidth(wd, false, clusterCount(t))
		}
		switch which {
		case "collapse":
			step = "collapse,0," + g.optsArg(o)
		case "wrap":
			step = fmt.Sprintf("wrap,0,%d,%s", wd, g.optsArg(o))
		case "justify":
			step = fmt.Sprintf("justify,0,%d,%s", wd, g.optsArg(o))
		case "align":
			al := g.r.Intn(4)
			if g.chance(0.05) {
				al = []int{-1, 4, 17}[g.r.Intn(3)]
			}
			step = fmt.Sprintf("align,0,%d,%d,%s", al, wd, g.optsArg(o))
		case "indent":
			step = fmt.Sprintf("indent,0,%d,%s", g.r.Intn(5)-1, g.optsArg(o))
		}
		defer1(step)
	}
}

func (g *gen) pct() float64 {
	// … and percentages whose product with the width no longer fits an int (seeded change C14i: the
	// clamp to [0,1] removed; float64 -> int conversion of 2^63 and above is MinInt on amd64)
	ps := []float64{-1, 0, math.Ldexp(1, -60), .01, .3, 1.0 / 3, .5, .9, .95, .99, 1 - math.Ldexp(1, -53), 1, 2,
		1e18, 9e18, math.Ldexp(1, 62), math.MaxFloat64, -1e18, -math.MaxFloat64, 1000}
	if g.chance(0.45) {
		return ps[g.r.Intn(len(ps))]
	}
	if g.chance(0.5) {
		// two-decimal percentages and thirds: avail*pct is often a whole number there, which is where
		// different ways of rounding the column widths part company
		if g.chance(0.2) {
			return float64(1+g.r.Intn(2)) / 3
		}
		return float64(g.r.Intn(101)) / 100
	}
	return g.r.Float64()
}

func (g *gen) groupTwoCol(n int) {
	for i := 0; i < n; i++ {
		mode := g.modeFor()
		o, ls, ps := g.opts(mode)
		t := g.line(mode, 3)
		l := g.para(mode, ls, 2)
		r := g.para(mode, ls, 2)
		if g.chance(0.1) {
			l = ""
		}
		if g.chance(0.1) {
			r = ""
		}
		if g.chance(0.05) {
			l = " "
		}
		_ = ps
		gap := g.gap()
		w := g.widthPad(40)
		if g.chance(0.3) {
			w = gap + 2 + g.r.Intn(8)
		}
		edOpts, arg := o, g.optsArg(o)
		if g.chance(0.4) {
			var els string
			edOpts, els, _ = g.opts(mode)
			arg = encOpts(o)
			if g.chance(0.5) {
				l = g.word(mode, 3) + els + l
				r = r + els + g.word(mode, 3)
			}
		}
		g.emit("prog", g.editStep(t, edOpts)+";"+fmt.Sprintf("twocol,0,%s,%s,%s,%d,%d,%s,%s", encInt(g.pos(clusterCount(t))), encText(l), encText(r), gap, w, encPct(g.pct()), arg))
	}
}

func (g *gen) groupDefTable(n int) {
	for i := 0; i < n; i++ {
		mode := g.modeFor()
		o, ls, _ := g.opts(mode)
		t := g.line(mode, 3)
		nd := g.r.Intn(4)
		defs := make([][2]string, nd)
		for j := range defs {
			defs[j][0] = g.word(mode, 5)
			defs[j][1] = g.para(mode, ls, 2)
			if g.chance(0.1) {
				defs[j][1] = ""
			}
			if g.chance(0.05) {
				defs[j][1] = " "
			}
			if g.chance(0.05) {
				defs[j][0] = ""
			}
		}
		if nd > 1 && g.chance(0.03) {
			defs[g.r.Intn(nd)][0] = strings.Repeat(g.word(2, 7), 25+g.r.Intn(12)) // 130+ clusters
		}
		if nd > 0 && g.chance(0.03) {
			defs[g.r.Intn(nd)][1] = " " + ls + " " + ls // a definition made of separators only
		}
		edOpts := o
		arg := g.optsArg(o)
		if g.chance(0.4) {
			// the Editor's own options differ from the call's: only the call's may be used
			var els string
			edOpts, els, _ = g.opts(mode)
			arg = encOpts(o)
			if nd > 0 && g.chance(0.7) {
				j := g.r.Intn(nd)
				defs[j][1] = g.word(mode, 3) + els + g.word(mode, 3) + ls + g.word(mode, 2)
			}
		}
		g.emit("prog", g.editStep(t, edOpts)+";"+fmt.Sprintf("deftable,0,%s,%s,%d,%s", encInt(g.pos(clusterCount(t))), encDefs(defs), g.widthDefTable(), arg))
	}
}

func (g *gen) groupTable(n int) {
	for i := 0; i < n; i++ {
		mode := g.modeFor()
		o, _, _ := g.opts(mode)
		t := g.line(mode, 3)
		nr := g.r.Intn(5)
		data := make([][]string, nr)
		for j := range data {
			nc := g.r.Intn(5)
			data[j] = make([]string, nc)
			for k := range data[j] {
				switch g.r.Intn(6) {
				case 0:
					data[j][k] = ""
				case 1:
					data[j][k] = " " + g.word(mode, 3)
				default:
					data[j][k] = g.word(mode, 5)
				}
			}
		}
		edOpts, arg := o, g.optsArg(o)
		if g.chance(0.4) {
			edOpts, _, _ = g.opts(mode)
			arg = encOpts(o)
		}
		g.emit("prog", g.editStep(t, edOpts)+";"+fmt.Sprintf("table,0,%s,%s,%d,%s", encInt(g.pos(clusterCount(t))), encTable(data), g.widthPad(40), arg))
	}
}

func (g *gen) groupOptions(n int) {
	for i := 0; i < n; i++ {
		o, _, _ := g.opts(1)
		if g.chance(0.3) {
			o.TableCharSet = g.word(1, 4)
		}
		g.emit("withdefaults", encOpts(o))
	}
}

// C17: XOpts(args, o) vs WithOptions(o).X(args) vs X with unset fields replaced by explicit defaults
func (g *gen) groupOptions2(n int) {
	for i := 0; i < n; i++ {
		mode := g.modeFor()
		o0, _, _ := g.opts(mode)
		o, ls, ps := g.opts(mode)
		t := g.text(mode, ls, ps)
		// mixture: every unset string field independently replaced by its explicit default
		m := o
		if m.LineSeparator == "" && g.chance(0.5) {
			m.LineSeparator = rosed.DefaultLineSeparator
		}
		if m.ParagraphSeparator == "" && g.chance(0.5) {
			m.ParagraphSeparator = rosed.DefaultParagraphSeparator
		}
		if m.IndentStr == "" && g.chance(0.5) {
			m.IndentStr = rosed.DefaultIndentString
		}
		if m.TableCharSet == "" && g.chance(0.5) {
			m.TableCharSet = rosed.DefaultTableCharSet
		}
		var op string
		switch g.r.Intn(10) {
		case 0:
			op = fmt.Sprintf("wrap,%%d,%d,%%s", g.widthWrap())
		case 1:
			op = fmt.Sprintf("justify,%%d,%d,%%s", g.widthPad(40))
		case 2:
			op = fmt.Sprintf("align,%%d,%d,%d,%%s", 1+g.r.Intn(3), g.widthPad(40))
		case 3:
			op = "collapse,%d,%s"
		case 4:
			op = fmt.Sprintf("indent,%%d,%d,%%s", g.r.Intn(3))
		case 5:
			op = fmt.Sprintf("apply,%%d,%d,%%s", g.r.Intn(8))
		case 6:
			op = fmt.Sprintf("applypara,%%d,%d,%%s", g.r.Intn(6))
		case 7:
			op = fmt.Sprintf("twocol,%%d,%s,%s,%s,%d,%d,%s,%%s", encInt(g.pos(4)), encText(g.para(mode, ls, 2)), encText(g.para(mode, ls, 2)), g.gap(), g.widthPad(40), encPct(g.pct()))
		case 8:
			defs := [][2]string{{g.word(mode, 4), g.line(mode, 5)}, {g.word(mode, 4), g.line(mode, 5)}}
			op = fmt.Sprintf("deftable,%%d,%s,%s,%d,%%s", encInt(g.pos(4)), encDefs(defs), g.widthDefTable())
		default:
			data := [][]string{{g.word(mode, 3), g.word(mode, 3)}, {g.word(mode, 3), g.word(mode, 3)}}
			op = fmt.Sprintf("table,%%d,%s,%s,%d,%%s", encInt(g.pos(4)), encTable(data), g.widthPad(40))
		}
		st := []string{
			g.editStep(t, o0),
			fmt.Sprintf(op, 0, encOpts(o)),
			fmt.Sprintf("withopts,0,%s", encOpts(o)),
			fmt.Sprintf(op, 2, "="),
			fmt.Sprintf(op, 0, encOpts(m)),
		}
		g.emit("prog", strings.Join(st, ";"))
	}
}

// manip-level direct calls (finer tie of the internals)
func (g *gen) groupManip(n int) {
	for i := 0; i < n; i++ {
		mode := g.modeFor()
		ls := g.pick(lineSeps)
		t := g.para(mode, ls, 3)
		switch g.r.Intn(4) {
		case 0:
			g.emit("collapse", encText(t), encText(ls))
		case 1:
			g.emit("wrapl", encText(t), strconv.Itoa(g.width()), encText(ls))
		case 2:
			g.emit("justl", encText(g.line(mode, 6)), strconv.Itoa(g.width()))
		default:
			g.emit("alignl", []string{"L", "R", "C"}[g.r.Intn(3)], encText(g.line(mode, 4)), strconv.Itoa(g.width()))
		}
	}
}

// pool histories: a growing pool of editors, any op on any member
func (g *gen) groupPool(n int, steps int) {
	for i := 0; i < n; i++ {
		mode := g.modeFor()
		o, ls, ps := g.opts(mode)
		var st []string
		st = append(st, g.editStep(g.text(mode, ls, ps), o))
		for k := 1; k < steps; k++ {
			src := g.r.Intn(len(st))
			if g.chance(0.5) {
				src = len(st) - 1
			}
			var s string
			if k > 2 && g.chance(0.12) {
				// determinism: the same operation with the same arguments on the same Editor, again
				// (a memo keyed on too little, or mutated in place, answers differently the second time)
				st = append(st, st[1+g.r.Intn(len(st)-1)])
				continue
			}
			switch g.r.Intn(17) {
			case 0:
				s = fmt.Sprintf("chars,%d,%s,%s", src, encInt(g.pos(8)), encInt(g.pos(8)))
			case 1:
				s = fmt.Sprintf("lines,%d,%s,%s", src, encInt(g.pos(3)), encInt(g.pos(3)))
			case 2:
				s = fmt.Sprintf("commit,%d", src)
			case 3:
				s = fmt.Sprintf("commitall,%d", src)
			case 4:
				s = fmt.Sprintf("insert,%d,%s,%s", src, encInt(g.pos(6)), encText(g.word(mode, 3)))
			case 5:
				s = fmt.Sprintf("delete,%d,%s,%s", src, encInt(g.pos(6)), encInt(g.pos(6)))
			case 6:
				s = fmt.Sprintf("overtype,%d,%s,%s", src, encInt(g.pos(6)), encText(g.word(mode, 3)))
			case 7:
				s = fmt.Sprintf("wrap,%d,%d,%s", src, g.widthWrap(), g.optsArg(o))
			case 8:
				s = fmt.Sprintf("justify,%d,%d,%s", src, g.widthPad(40), g.optsArg(o))
			case 9:
				s = fmt.Sprintf("align,%d,%d,%d,%s", src, g.r.Intn(4), g.widthPad(40), g.optsArg(o))
			case 10:
				s = fmt.Sprintf("collapse,%d,%s", src, g.optsArg(o))
			case 11:
				s = fmt.Sprintf("indent,%d,%d,%s", src, g.r.Intn(3), g.optsArg(o))
			case 12:
				o2, _, _ := g.opts(mode)
				s = fmt.Sprintf("withopts,%d,%s", src, encOpts(o2))
			case 13:
				s = fmt.Sprintf("apply,%d,%d,%s", src, g.r.Intn(8), g.optsArg(o))
			case 14:
				s = fmt.Sprintf("linesto,%d,%s", src, encInt(g.pos(3)))
			case 15:
				s = fmt.Sprintf("charsfrom,%d,%s", src, encInt(g.pos(8)))
			default:
				s = fmt.Sprintf("edit,%s,%s", encText(g.line(mode, 3)), encOpts(o))
			}
			st = append(st, s)
		}
		g.emit("pool", strings.Join(st, ";"))
	}
}

// C03: the same operation on a text and on its cluster-for-cluster substitution
// Targets include the characters the library uses internally - the continuation hyphen and the
// placeholder letter `A` of paragraph mode (seeded changes C03k, C03l) - but the SOURCES do not: a hyphen
// Wrap adds, or a placeholder it leaks (known finding D4r), is the same literal in both runs.
var relSrc = []string{"a", "b", "c", "x", "y", "\u00e9", "e\u0301", "\uac01", "\u4e2d", "7", "Q", "k", "_", "\u2010"}
var relDst = []string{"e\u0301", "\U0001F468\u200d\U0001F469\u200d\U0001F467", "\U0001F1E9\U0001F1EA", "\u1100\u1161\u11a8",
	"\U0001D11E", "\U0001F44D\U0001F3FD", "z", "\u00e9", "\u0915\u093f", "\u4e2d", "R", "9", "\uac01", "A", "-", "A\u0301"}

type relText struct {
	parts []string // clusters and whitespace/separator pieces
	sub   []bool   // substitutable?
}

func (t relText) str(rho map[string]string) string {
	var sb strings.Builder
	for i, p := range t.parts {
		if t.sub[i] && rho != nil {
			sb.WriteString(rho[p])
		} else {
			sb.WriteString(p)
		}
	}
	return sb.String()
}

func (g *gen) relWord(t *relText, maxLen int) {
	n := 1 + g.r.Intn(maxLen)
	if g.chance(0.1) {
		n += g.r.Intn(10)
	}
	if g.chance(0.02) {
		// one letter 34–70 times: under the substitution a run of that many flags, jamo syllables …
		c := relSrc[g.r.Intn(len(relSrc))]
		for i := 0; i < 34+g.r.Intn(37); i++ {
			t.parts = append(t.parts, c)
			t.sub = append(t.sub, true)
		}
		return
	}
	for i := 0; i < n; i++ {
		t.parts = append(t.parts, relSrc[g.r.Intn(len(relSrc))])
		t.sub = append(t.sub, true)
	}
}

func (g *gen) relLine(t *relText, maxWords int) {
	nw := g.r.Intn(maxWords + 1)
	if g.chance(0.15) {
		t.parts = append(t.parts, g.ws(0))
		t.sub = append(t.sub, false)
	}
	for i := 0; i < nw; i++ {
		if i > 0 {
			t.parts = append(t.parts, g.ws(0))
			t.sub = append(t.sub, false)
		}
		g.relWord(t, 6)
	}
	if g.chance(0.15) {
		t.parts = append(t.parts, g.ws(0))
		t.sub = append(t.sub, false)
	}
}

func (g *gen) relTextGen(lineSep string, maxLines int) relText {
	var t relText
	nl := g.r.Intn(maxLines + 1)
	for i := 0; i < nl; i++ {
		if i > 0 {
			t.parts = append(t.parts, lineSep)
			t.sub = append(t.sub, false)
		}
		g.relLine(&t, 5)
	}
	if g.chance(0.25) {
		t.parts = append(t.parts, lineSep)
		t.sub = append(t.sub, false)
	}
	return t
}

func (g *gen) groupRel(n int) {
	for i := 0; i < n; i++ {
		rho := map[string]string{}
		var rhoEnc []string
		for _, s := range relSrc {
			d := relDst[g.r.Intn(len(relDst))]
			if g.chance(0.2) {
				d = s
			}
			rho[s] = d
			rhoEnc = append(rhoEnc, encText(s)+">"+encText(d))
		}
		var o rosed.Options
		ls := "\n"
		if g.chance(0.3) {
			o.LineSeparator = []string{"\r\n", "|", "<+>"}[g.r.Intn(3)]
			ls = o.LineSeparator
		}
		o.NoTrailingLineSeparators = g.chance(0.3)
		o.JustifyLastLine = g.chance(0.3)
		o.TableBorders = g.chance(0.5)
		o.PreserveParagraphs = g.chance(0.2)
		t := g.relTextGen(ls, 4)
		if o.PreserveParagraphs && g.chance(0.35) {
			// a custom paragraph separator, also one with visible parts on the neighbouring lines
			// (placeholders in Wrap/Justify/Align), between two or three pieces
			// (no character that is a substitution TARGET: rho(_) = - next to "--\n" would spell a separator
			// in the substituted text only - a false alarm of the thorough tier, 12.5)
			o.ParagraphSeparator = []string{"<P>", " ~" + ls + "~ ", ls + "===" + ls, "==" + ls}[g.r.Intn(4)]
			for k := 1 + g.r.Intn(2); k > 0; k-- {
				t.parts = append(t.parts, o.ParagraphSeparator)
				t.sub = append(t.sub, false)
				x := g.relTextGen(ls, 2)
				t.parts = append(t.parts, x.parts...)
				t.sub = append(t.sub, x.sub...)
			}
		}
		opk := g.r.Intn(16)
		if opk >= 14 {
			opk = 0
		}
		longWord := opk == 0 && g.chance(0.3)
		if longWord {
			// a word that has to be cut several times: which cluster stands at a cut must not matter
			t.parts = append(t.parts, " ")
			t.sub = append(t.sub, false)
			for k := 8 + g.r.Intn(33); k > 0; k-- {
				t.parts = append(t.parts, relSrc[g.r.Intn(len(relSrc))])
				t.sub = append(t.sub, true)
			}
		}
		cc := clusterCount(t.str(nil))
		mk := func(f func(r map[string]string) string) (string, string) { return f(nil), f(rho) }
		var s1, s2 string
		switch opk {
		case 0:
			w := g.width()
			if longWord {
				w = 2 + g.r.Intn(8)
			}
			s1, s2 = mk(func(map[string]string) string { return fmt.Sprintf("wrap,%%d,%d,=", w) })
		case 1:
			w := g.width()
			s1, s2 = mk(func(map[string]string) string { return fmt.Sprintf("justify,%%d,%d,=", w) })
		case 2:
			w, al := g.width(), 1+g.r.Intn(3)
			s1, s2 = mk(func(map[string]string) string { return fmt.Sprintf("align,%%d,%d,%d,=", al, w) })
		case 3:
			s1, s2 = "collapse,%d,=", "collapse,%d,="
		case 4:
			var x relText
			g.relWord(&x, 4)
			p := g.pos(cc)
			s1, s2 = mk(func(r map[string]string) string { return fmt.Sprintf("insert,%%d,%s,%s", encInt(p), encText(x.str(r))) })
		case 5:
			a, b := g.pos(cc), g.pos(cc)
			s1, s2 = mk(func(map[string]string) string { return fmt.Sprintf("delete,%%d,%s,%s", encInt(a), encInt(b)) })
		case 6:
			var x relText
			g.relWord(&x, 4)
			p := g.pos(cc)
			s1, s2 = mk(func(r map[string]string) string { return fmt.Sprintf("overtype,%%d,%s,%s", encInt(p), encText(x.str(r))) })
		case 7:
			a, b := g.pos(cc), g.pos(cc)
			s1, s2 = mk(func(map[string]string) string { return fmt.Sprintf("chars,%%d,%s,%s", encInt(a), encInt(b)) })
		case 8, 9:
			l, r := g.relTextGen(ls, 2), g.relTextGen(ls, 2)
			p, gap, w, pc := g.pos(cc), g.gap(), g.width(), encPct(g.pct())
			s1, s2 = mk(func(rr map[string]string) string {
				return fmt.Sprintf("twocol,%%d,%s,%s,%s,%d,%d,%s,=", encInt(p), encText(l.str(rr)), encText(r.str(rr)), gap, w, pc)
			})
		case 10, 11:
			nd := 1 + g.r.Intn(3)
			terms := make([]relText, nd)
			dfs := make([]relText, nd)
			for j := range terms {
				g.relWord(&terms[j], 5)
				dfs[j] = g.relTextGen(ls, 2)
			}
			p, w := g.pos(cc), g.width()
			s1, s2 = mk(func(rr map[string]string) string {
				d := make([][2]string, nd)
				for j := range d {
					d[j] = [2]string{terms[j].str(rr), dfs[j].str(rr)}
				}
				return fmt.Sprintf("deftable,%%d,%s,%s,%d,=", encInt(p), encDefs(d), w)
			})
		default:
			nr := 1 + g.r.Intn(3)
			cells := make([][]relText, nr)
			for j := range cells {
				cells[j] = make([]relText, g.r.Intn(4))
				for q := range cells[j] {
					if !g.chance(0.2) {
						g.relWord(&cells[j][q], 4)
					}
				}
			}
			p, w := g.pos(cc), g.width()
			s1, s2 = mk(func(rr map[string]string) string {
				d := make([][]string, nr)
				for j := range d {
					d[j] = make([]string, len(cells[j]))
					for q := range d[j] {
						d[j][q] = cells[j][q].str(rr)
					}
				}
				return fmt.Sprintf("table,%%d,%s,%s,%d,=", encInt(p), encTable(d), w)
			})
		}
		if g.chance(0.25) {
			// a selection (empty ones included), an edit THROUGH the selection, String and Commit: the
			// byte offsets recorded for the selection must be those of the same clusters in both texts
			// (seeded change C03j: rune index used as byte offset for an empty selection)
			var x relText
			g.relWord(&x, 3)
			a, b := g.pos(cc), g.pos(cc)
			if g.chance(0.4) {
				b = a
			}
			sel := fmt.Sprintf("chars,%%d,%s,%s", encInt(a), encInt(b))
			switch g.r.Intn(4) {
			case 0:
				sel = fmt.Sprintf("charsfrom,%%d,%s", encInt(a))
			case 1:
				sel = fmt.Sprintf("charsto,%%d,%s", encInt(a))
			}
			half := func(base int, r map[string]string) []string {
				var ed string
				switch g.r.Intn(1) {
				default:
					ed = fmt.Sprintf("insert,%d,%s,%s", base+1, encInt(0), encText(x.str(r)))
				}
				return []string{g.editStep(t.str(r), o), fmt.Sprintf(sel, base), ed,
					fmt.Sprintf("string,%d", base+2), fmt.Sprintf("commit,%d", base+2),
					fmt.Sprintf("charcount,%d", base+4), fmt.Sprintf("linecount,%d", base+4)}
			}
			steps := append(half(0, nil), half(7, rho)...)
			g.emit("rel", strings.Join(rhoEnc, "/"), strings.Join(steps, ";"))
			continue
		}
		steps := []string{g.editStep(t.str(nil), o), fmt.Sprintf(s1, 0), "charcount,1", "linecount,1",
			g.editStep(t.str(rho), o), fmt.Sprintf(s2, 4), "charcount,5", "linecount,5"}
		g.emit("rel", strings.Join(rhoEnc, "/"), strings.Join(steps, ";"))
	}
}

// gem.String histories. withReverse=false: exactly the operations C19 quantifies over.
func (g *gen) groupHist(n int, steps int, withReverse bool) {
	seeds := [][]rune{
		{}, {'a'}, {'a', 'b', 'c'}, {'e', 0x301, 'x'}, {0x301, 'a'}, {0x200d}, {0x1F1E9, 0x1F1EA, 0x1F1E9},
		{0x1F468, 0x200D, 0x1F469, 0x200D, 0x1F467, 'z'}, {0x0d, 0x0a, 0x0d}, {' ', 0x301, ' ', 'q', ' '},
		{0x600, 'a', 0x600}, {0x1100, 0x1161, 0x11a8, 0xac01, 0x11a8}, {-5, 0x110000, 0xD800, 'k'}, {0x93f, 0x915, 0x93f},
		{' ', ' ', 'a', ' '}, {'\t', 0xa0, 'b'},
		{'a', 'b', 0x1F469, 0x200D}, {0x1F4BB, 'c', 'd'}, {0x1F469, 0xFE0F, 0x200D}, {0x1F1E9}, {0x1F1EA, 'x'},
		{'q', 0x0d}, {0x0a, 'r'}, {0x1100}, {0x1161, 0x11a8}, {'e'}, {0x301, 0x301},
	}
	pieces := [][]rune{{'X'}, {0x301}, {0x200d, 0x1F467}, {0x1F1E9}, {' '}, {'y', 0x308}, {0x0a}, {0x600}}
	for i := 0; i < n; i++ {
		var st []string
		nseed := 1 + g.r.Intn(3)
		for k := 0; k < nseed; k++ {
			switch g.r.Intn(8) {
			case 0:
				st = append(st, "zero")
			case 1:
				st = append(st, "zv")
			default:
				st = append(st, "new,"+encRunes(seeds[g.r.Intn(len(seeds))]))
			}
		}
		if g.chance(0.04) {
			// a value whose boundaries depend on context far to the left (a long flag run, a giant
			// cluster), or — rarely — one longer than 4096 runes with a blank + mark near the 4096th
			switch g.r.Intn(5) {
			case 0:
				long := []rune(strings.Repeat("a", 4090+g.r.Intn(8)) + " \u0301xyz \u0308q")
				st = append(st, "new,"+encRunes(long))
			case 1, 2:
				st = append(st, "new,"+encRunes([]rune(g.flagRun())))
			default:
				st = append(st, "new,"+encRunes([]rune("ab"+g.giantCluster()+"c")))
			}
			st = append(st, fmt.Sprintf("sub,%d,%d,%d", len(st)-1, 1+g.r.Intn(3), 1000000))
			st = append(st, fmt.Sprintf("len,%d", len(st)-1))
			st = append(st, fmt.Sprintf("gi,%d", len(st)-2))
		}
		if g.chance(0.012) {
			// a value of more than 4096 (sometimes 8192) runes with CR LF line ends, measured, cut and joined
			// (seeded change C19m: Split line by line above 4096 runes separates CR from LF)
			var rs []rune
			for len(rs) < 4100+4200*g.r.Intn(2) {
				rs = append(rs, []rune(strings.Repeat("ab", 4+g.r.Intn(8)))...)
				rs = append(rs, '\r', '\n')
			}
			st = append(st, "new,"+encRunes(rs))
			b := len(st) - 1
			st = append(st, fmt.Sprintf("len,%d", b), fmt.Sprintf("sub,%d,%d,%d", b, 3+g.r.Intn(20), 30+g.r.Intn(40)))
			st = append(st, fmt.Sprintf("gi,%d", len(st)-1), fmt.Sprintf("len,%d", len(st)-2), fmt.Sprintf("add,%d,%d", len(st)-3, 0))
		}
		if g.chance(0.1) {
			// SetCharAt with a replacement of the SAME rune count as the cluster it replaces, differing in one
			// rune that changes how the cluster joins its neighbours (seeded change C01k: cache kept when
			// "nothing at the seam changed"); content and replacement over a pool of joining characters
			pool := []rune{'a', 'b', 0x301, 0x200d, 0x1F469, 0x1F467, 0x1F1E9, 0x1F1EA, 0x600, 0x0d, 0x0a, 0x1100, 0x1161, 0x11a8, 0xFE0F, ' '}
			cont := make([]rune, 3+g.r.Intn(5))
			for k := range cont {
				cont[k] = pool[g.r.Intn(len(pool))]
			}
			ed := rosed.Edit(string(cont))
			cc := ed.CharCount()
			idx := g.r.Intn(cc)
			cl := []rune(ed.Chars(idx, idx+1).Text)
			repl := append([]rune(nil), cl...)
			k := []int{0, len(repl) - 1, g.r.Intn(len(repl))}[g.r.Intn(3)]
			repl[k] = pool[g.r.Intn(len(pool))]
			st = append(st, "new,"+encRunes(cont))
			base := len(st) - 1
			if g.chance(0.7) {
				st = append(st, fmt.Sprintf("len,%d", base))
			}
			st = append(st, fmt.Sprintf("setcharat,%d,%d,%s", base, idx, encRunes(repl)))
			r := len(st) - 1
			st = append(st, fmt.Sprintf("gi,%d", r), fmt.Sprintf("len,%d", r), fmt.Sprintf("charat,%d,%d", r, idx), fmt.Sprintf("gi,%d", base))
		}
		for len(st) < steps {
			src := g.r.Intn(len(st))
			if g.chance(0.4) {
				src = len(st) - 1
			}
			nops := 12
			if withReverse {
				nops = 15
			}
			switch g.r.Intn(nops) {
			case 0, 1:
				st = append(st, fmt.Sprintf("add,%d,%d", src, g.r.Intn(len(st))))
			case 2, 3:
				st = append(st, fmt.Sprintf("sub,%d,%d,%d", src, g.r.Intn(13)-6, g.r.Intn(13)-6))
			case 4:
				st = append(st, fmt.Sprintf("setcharat,%d,%d,%s", src, g.r.Intn(6)-1, encRunes(pieces[g.r.Intn(len(pieces))])))
			case 5:
				st = append(st, fmt.Sprintf("repeat,%d,%d", src, g.r.Intn(4)-1))
			case 6:
				st = append(st, fmt.Sprintf("len,%d", src))
			case 7:
				st = append(st, fmt.Sprintf("charat,%d,%d", src, g.r.Intn(6)-1))
			case 8:
				st = append(st, fmt.Sprintf("gi,%d", src))
			case 9:
				st = append(st, fmt.Sprintf("runes,%d", src))
			case 10:
				st = append(st, "new,"+encRunes(seeds[g.r.Intn(len(seeds))]))
			case 11:
				st = append(st, "zero")
			case 12:
				st = append(st, fmt.Sprintf("reverse,%d", src))
			case 13:
				st = append(st, fmt.Sprintf("indexfunc,%d", src))
			default:
				st = append(st, fmt.Sprintf("lastindexfunc,%d", src))
			}
		}
		g.emit("hist", strings.Join(st, ";"))
	}
	g.histSameLength()
}

// Exhaustive family: SetCharAt whose replacement has the SAME rune count as the cluster it replaces and
// differs from it only in the first rune, over every combination of cluster shape, old and new first rune and
// following character (seeded change C01k: the cache is kept when "nothing at the seam changed", but the
// break after an unchanged last rune depends on what stands before it: GB11, GB12/13, GB6-8, GB9b).
func (g *gen) histSameLength() {
	firsts := []rune{'a', 0x1F469, 0x1F1E9, 0x600, 0x1100, 0x0d, 0x301}
	tmpl := [][]rune{{0x200d}, {0xFE0F, 0x200d}, {0x1F1EA}, {0x1161}, {0x301}, {0x0a}}
	foll := []rune{0x1F467, 0x1F1EA, 0x1161, 0x11a8, 0x301, 'b', 0x0a, 0x200d}
	k := 0
	for _, t := range tmpl {
		for _, f1 := range firsts {
			for _, f2 := range firsts {
				if f1 == f2 {
					continue
				}
				for _, fo := range foll {
					k++
					cont := append(append([]rune{'p', f1}, t...), fo, 'q')
					ed := rosed.Edit(string(cont))
					// the cluster that holds rune position 1
					idx, cl := 0, []rune(nil)
					for i, pos := 0, 0; i < ed.CharCount(); i++ {
						c := []rune(ed.Chars(i, i+1).Text)
						if pos <= 1 && 1 < pos+len(c) {
							idx, cl = i, c
							break
						}
						pos += len(c)
					}
					if cl == nil {
						continue
					}
					repl := append([]rune(nil), cl...)
					if repl[0] == 'p' && len(repl) > 1 {
						repl[1] = f2
					} else {
						repl[0] = f2
					}
					for _, measured := range []bool{true, false} {
						if !measured && k%3 != 0 {
							continue
						}
						st := []string{"new," + encRunes(cont)}
						if measured {
							st = append(st, "len,0")
						}
						st = append(st, fmt.Sprintf("setcharat,0,%d,%s", idx, encRunes(repl)))
						r := len(st) - 1
						st = append(st, fmt.Sprintf("gi,%d", r), fmt.Sprintf("len,%d", r), fmt.Sprintf("charat,%d,%d", r, idx), "gi,0")
						g.emit("hist", strings.Join(st, ";"))
					}
				}
			}
		}
	}
}

// C20 monitor: ordinary editor programs, observed only through the package-level cell
func (g *gen) groupProgZ(n int) {
	for i := 0; i < n; i++ {
		mode := g.modeFor()
		o, ls, ps := g.opts(mode)
		t := g.text(mode, ls, ps)
		if g.chance(0.3) {
			o.PreserveParagraphs = true
		}
		if g.chance(0.25) {
			// whitespace-only and empty paragraphs between separators with visible affixes
			o.PreserveParagraphs = true
			o.ParagraphSeparator = []string{"<P>\n</P>", "\n--\n", "||"}[g.r.Intn(3)]
			ps = o.ParagraphSeparator
			parts := []string{g.line(mode, 2), " ", "", g.line(mode, 3), "  "}
			g.r.Shuffle(len(parts), func(a, b int) { parts[a], parts[b] = parts[b], parts[a] })
			t = strings.Join(parts[:2+g.r.Intn(4)], ps)
		}
		var step string
		switch g.r.Intn(12) {
		case 0:
			step = fmt.Sprintf("wrap,0,%d,%s", g.widthWrap(), g.optsArg(o))
		case 1:
			step = fmt.Sprintf("justify,0,%d,%s", g.widthPad(40), g.optsArg(o))
		case 2, 3, 4:
			step = fmt.Sprintf("align,0,%d,%d,%s", 1+g.r.Intn(3), g.widthPad(40), g.optsArg(o))
		case 5:
			step = "collapse,0," + g.optsArg(o)
		case 6:
			step = fmt.Sprintf("chars,0,%s,%s", encInt(g.pos(8)), encInt(g.pos(8)))
		case 7:
			step = fmt.Sprintf("insert,0,%s,%s", encInt(g.pos(8)), encText(g.word(mode, 3)))
		case 8:
			step = fmt.Sprintf("twocol,0,%s,%s,%s,%d,%d,%s,%s", encInt(g.pos(4)), encText(g.para(mode, ls, 2)), encText(g.para(mode, ls, 2)), g.gap(), g.widthPad(40), encPct(g.pct()), g.optsArg(o))
		case 9:
			data := [][]string{{g.word(mode, 3), ""}, {g.word(mode, 2)}, {"", g.word(mode, 3), g.word(mode, 1)}, {}}
			step = fmt.Sprintf("table,0,%s,%s,%d,%s", encInt(g.pos(4)), encTable(data[:1+g.r.Intn(4)]), g.widthPad(40), g.optsArg(o))
		case 10:
			defs := [][2]string{{g.word(mode, 4), g.line(mode, 5)}, {"", ""}}
			step = fmt.Sprintf("deftable,0,%s,%s,%d,%s", encInt(g.pos(4)), encDefs(defs), g.widthDefTable(), g.optsArg(o))
		default:
			step = fmt.Sprintf("indent,0,%d,%s", g.r.Intn(3), g.optsArg(o))
		}
		g.emit("progz", g.editStep(t, o)+";"+step+";charcount,1;linecount,1")
	}
}


// ---- exhaustive small scope ---------------------------------------------------------------------
// every text over a five-atom alphabet (a letter, a blank, a two-code-point cluster, the line
// separator, a tab) up to a length bound, under every small width: the corners random generation
// reaches only by luck (blank-only lines, lines that end in blanks, separators at both ends, a word
// exactly as long as the width, width 0 and negative) are all in here, and all of them every run.
var smallAtoms = []string{"a", " ", "e\u0301", "\n", "\t"}

func (g *gen) smallTexts(maxLen int) []string {
	out := []string{""}
	prev := []string{""}
	for l := 1; l <= maxLen; l++ {
		var cur []string
		for _, p := range prev {
			for _, a := range smallAtoms {
				cur = append(cur, p+a)
			}
		}
		out = append(out, cur...)
		prev = cur
	}
	return out
}

func (g *gen) groupSmall(which string) {
	g.noSib = true
	maxLen := 4
	if which != "wrap" {
		maxLen = 3
	}
	if g.tier == "thorough" {
		maxLen += 2
	}
	flagSets := []int{0, 2} // default, PreserveParagraphs
	for _, t := range g.smallTexts(maxLen) {
		for _, fl := range flagSets {
			o := fmt.Sprintf("-:-:-:-:%d", fl)
			ed := "edit," + encText(t) + ",-:-:-:-:0"
			switch which {
			case "wrap":
				for w := -1; w <= maxLen+2; w++ {
					g.emit("prog", ed+";"+fmt.Sprintf("wrap,0,%d,%s", w, o))
				}
			case "justify":
				for w := 0; w <= maxLen+4; w++ {
					g.emit("prog", ed+";"+fmt.Sprintf("justify,0,%d,%s", w, o))
					g.emit("prog", ed+";"+fmt.Sprintf("justify,0,%d,-:-:-:-:%d", w, fl|4))
				}
			case "align":
				for al := 1; al <= 3; al++ {
					for w := -1; w <= maxLen+3; w++ {
						g.emit("prog", ed+";"+fmt.Sprintf("align,0,%d,%d,%s", al, w, o))
					}
				}
			case "misc":
				g.emit("prog", ed+";collapse,0,"+o)
				g.emit("prog", ed+";"+fmt.Sprintf("indent,0,1,%s", o))
				g.emit("prog", ed+";"+fmt.Sprintf("apply,0,0,%s", o))
				g.emit("prog", ed+";linecount,0;charcount,0")
				if fl == 0 {
					n := clusterCount(t)
					for a := -1; a <= n+1; a++ {
						g.emit("prog", ed+";"+fmt.Sprintf("insert,0,%d,%s", a, encText("X")))
						for b := a; b <= n+1; b++ {
							g.emit("prog", ed+";"+fmt.Sprintf("chars,0,%d,%d;insert,1,0,%s;string,2", a, b, encText("X")))
							g.emit("prog", ed+";"+fmt.Sprintf("delete,0,%d,%d", a, b))
						}
					}
					for a := 0; a <= 3; a++ {
						for b := a; b <= 4; b++ {
							g.emit("prog", ed+";"+fmt.Sprintf("lines,0,%d,%d;insert,1,0,%s;string,2", a, b, encText("X")))
						}
					}
				}
			}
		}
	}
}

// LARGE inputs (round 7 of seeded changes: block-wise / chunked / "long input" paths with thresholds of 64, 128,
// 2048, 4096 or 8192; seams at multiples of 4096 bytes or clusters).  A handful of deterministic-shape cases per
// group, because one Wrap of 4,300 clusters costs the quadratic Lean model ~15 s and the library itself ~3 s.
// Run in the thorough tier, and in the quick tier when the library source differs from the pinned fingerprint.
func (g *gen) groupBig(which string) {
	g.noSib = true
	o := rosed.Options{}
	ed := func(t string) string { return g.editStep(t, o) }
	switch which {
	case "pos":
		// 3-byte characters across every 4096-byte seam, positions behind 4096 clusters, empty / reversed
		// selections in the back half, insert-then-delete, nesting depth 7
		var sb strings.Builder
		sb.WriteString(strings.Repeat("a", 1+g.r.Intn(3)))
		for sb.Len() < 19000 {
			sb.WriteString("\u4e16\u754c" + string(rune('a'+g.r.Intn(26))))
		}
		t := sb.String()
		g.emit("prog", strings.Join([]string{ed(t), "chars,0,4100,4200", "insert,1,0,58.59", "string,2", "commit,2", "commitall,2"}, ";"))
		g.emit("prog", strings.Join([]string{ed(t), "chars,0,5000,5000", "string,1", "chars,0,5000,10", "string,3", "chars,0,-10,-20", "string,5", "charsfrom,0,-3", "charsto,0,4097", "charcount,0"}, ";"))
		g.emit("prog", strings.Join([]string{ed(t), "insert,0,4097,58.59", "delete,1,4097,4099", "overtype,0,6000,e9", "delete,0,4500,-100", "insert,0,-4097,5a"}, ";"))
		g.emit("prog", strings.Join([]string{ed(t), "chars,0,100,8000", "chars,1,50,7000", "chars,2,40,6000", "chars,3,30,5500", "chars,4,20,5000", "chars,5,10,4500", "chars,6,4097,4200",
			"insert,7,1,58", "string,8", "commit,8", "commitall,8"}, ";"))
	case "wrap":
		var ws []string
		n := 0
		for n < 4300 {
			w := g.word(2, 9)
			ws = append(ws, w)
			n += len(w) + 1
		}
		t := strings.Join(ws, " ")
		g.emit("prog", ed(t)+fmt.Sprintf(";wrap,0,%d,=", 40+g.r.Intn(40)))
		long := "checksum: " + strings.Repeat("x", 4400+g.r.Intn(300)) + " (end of data)"
		g.emit("prog", ed(long)+";collapse,0,=;wrap,0,80,=;wrap,0,6000,=")
		seam := strings.Repeat("ab ", 1365) + "  cd ef " + strings.Repeat("gh ", 30)
		g.emit("prog", ed(seam)+";collapse,0,=")
		g.emit("prog", ed(seam+"\nlast line")+";justify,0,4400,=")
	case "align":
		t := "abc" + strings.Repeat(" ", 5000+g.r.Intn(200)) + "\n   xyz  \n" + strings.Repeat(" ", 4200) + "q"
		for al := 1; al <= 3; al++ {
			g.emit("prog", ed(t)+fmt.Sprintf(";align,0,%d,%d,=", al, 10+g.r.Intn(5)))
		}
	case "lines":
		for _, nl := range []int{4096, 4097, 8193} {
			t := strings.Repeat("x\n", nl-1) + "\n"
			g.emit("prog", ed(t)+";linecount,0;apply,0,0,=;apply,0,2,=;lines,0,4090,4097;string,4;linesfrom,0,-2")
			g.emit("prog", g.editStep(strings.Repeat("x\n", nl), rosed.Options{NoTrailingLineSeparators: true})+";linecount,0;apply,0,0,=;indent,0,1,=")
			// every line aligned (seeded change C13n: one goroutine per line above 2048 lines), and the call's
			// trailing-separator policy different from the receiver's (C17m: a long path that reads the receiver's)
			g.emit("prog", ed(strings.Repeat(" ab\ncd \n", nl/2))+";align,0,1,5,=;align,0,2,5,=;align,0,3,6,=")
			g.emit("prog", g.editStep(strings.Repeat("x\n", nl), rosed.Options{NoTrailingLineSeparators: true})+
				";apply,0,0,"+encOpts(rosed.Options{})+";indent,0,1,"+encOpts(rosed.Options{})+";withopts,0,"+encOpts(rosed.Options{})+";apply,3,0,=;indent,3,1,=")
		}
		// more than 128 (and 256) paragraphs, the one at a multiple of 64 / 128 ending in a line separator
		po := rosed.Options{PreserveParagraphs: true}
		for _, np := range []int{66, 130, 260} {
			var ps []string
			for i := 0; i < np; i++ {
				p := g.word(2, 5) + " " + g.word(2, 5) + "\n" + g.word(2, 4)
				if i%64 == 63 || i%64 == 0 {
					p += "\n"
				}
				ps = append(ps, p)
			}
			t := strings.Join(ps, "\n\n")
			g.emit("prog", g.editStep(t, po)+";applypara,0,0,=;indent,0,1,=;align,0,2,12,=;justify,0,14,=;wrap,0,9,=")
		}
	case "comp":
		var data [][]string
		for i := 0; i < 70; i++ {
			data = append(data, []string{fmt.Sprintf("item%d", i), g.word(2, 6), g.word(2, 3)})
		}
		g.emit("prog", g.editStep("", rosed.Options{TableHeaders: true})+fmt.Sprintf(";table,0,0,%s,40,=", encTable(data)))
		g.emit("prog", g.editStep("", rosed.Options{TableHeaders: true, TableBorders: true})+fmt.Sprintf(";table,0,0,%s,50,=", encTable(data)))
		for _, nd := range []int{66, 130} {
			var defs [][2]string
			for i := 0; i < nd; i++ {
				defs = append(defs, [2]string{g.word(2, 6), g.line(2, 8)})
			}
			g.emit("prog", ed("")+fmt.Sprintf(";deftable,0,0,%s,40,=", encDefs(defs)))
		}
		var ws []string
		n := 0
		for n < 4250 {
			w := g.word(2, 8)
			if g.chance(0.2) {
				w += "-"
			}
			ws = append(ws, w)
			n += len(w) + 1
		}
		g.emit("prog", ed("")+fmt.Sprintf(";twocol,0,0,%s,%s,2,100,%s,=", encText(strings.Join(ws, " ")), encText("right column text"), encPct(0.8)))
	}
}

func cmdGen(group, tier string, seed int64) int {
	g := &gen{r: rand.New(rand.NewSource(seed)), out: bufio.NewWriterSize(os.Stdout, 1<<20), tier: tier, pfx: group + "-"}
	defer g.out.Flush()
	k := 1
	if tier == "thorough" {
		k = 20
	}
	// a few long texts per group: one operation on ~1000 clusters costs the (quadratic) Lean model
	// about half a second, so multi-step groups get shorter ones
	switch group {
	case "A-wrap", "A-justify", "A-align", "A-collapse", "A-indent", "A-lines", "A-apply", "A-para", "A-chars", "A-edit":
		g.longP, g.longMax = 0.002, 2000
	case "A-commit", "A-options2":
		g.longP, g.longMax, g.multi = 0.001, 900, true
	case "POOL", "Z-prog":
		g.longP, g.longMax, g.multi = 0.02, 900, true // few programs, many steps each
	}
	switch group {
	case "A-options", "A-options2", "A-rel":
		// the C17/C03 oracles compare the steps of one program with one another: every step must keep
		// the arguments it was generated with
		g.noSib = true
	}
	switch group {
	case "X-wrap":
		g.groupSmall("wrap")
	case "X-justify":
		g.groupSmall("justify")
	case "X-align":
		g.groupSmall("align")
	case "X-misc":
		g.groupSmall("misc")
	case "L-pos", "L-wrap", "L-align", "L-lines", "L-comp":
		g.groupBig(group[2:])
	case "G-class":
		g.groupClass()
	case "G-split":
		g.groupSplit()
	case "G-probe":
		g.groupProbe()
	case "A-range":
		g.groupRange()
	case "A-chars":
		g.groupChars(1500 * k)
	case "A-commit":
		g.groupCommit(2000 * k)
	case "A-edit":
		g.groupEdit(1500 * k)
	case "A-lines":
		g.groupLines(2000 * k)
	case "A-apply":
		g.groupApply(2000 * k)
	case "A-para":
		g.groupPara(2000 * k)
	case "A-collapse":
		g.groupLayout(1500*k, "collapse")
	case "A-wrap":
		g.groupLayout(2500*k, "wrap")
	case "A-justify":
		g.groupLayout(2000*k, "justify")
	case "A-align":
		g.groupLayout(2000*k, "align")
	case "A-indent":
		g.groupLayout(1000*k, "indent")
	case "A-twocol":
		g.groupTwoCol(1500 * k)
	case "A-deftable":
		g.groupDefTable(1500 * k)
	case "A-table":
		g.groupTable(1500 * k)
	case "A-options":
		g.groupOptions(1000 * k)
	case "A-options2":
		g.groupOptions2(2500 * k)
	case "A-manip":
		g.groupManip(3000 * k)
	case "A-rel":
		g.groupRel(4000 * k)
	case "Z-prog":
		g.groupProgZ(4000 * k)
	case "H-hist":
		g.groupHist(600*k, 20, false)
	case "H-all":
		g.groupHist(600*k, 20, true)
	case "POOL":
		g.groupPool(150*k, 25)
	default:
		fmt.Fprintln(os.Stderr, "unknown group", group)
		return 2
	}
	return 0
}
