package main

// digest: a fingerprint of the library's non-test source as the compiler sees it without the verif
// tag (comments and formatting removed). ./check compares it with the fingerprint pinned in
// data/source_digest.txt: when the tree differs from the one the long sweeps were run on, the check
// spends more search effort (more seeds) — the verdict itself never depends on the fingerprint.

import (
	"bytes"
	"crypto/sha256"
	"fmt"
	"go/parser"
	"go/printer"
	"go/token"
	"os"
	"path/filepath"
	"sort"
	"strings"
)

func cmdDigest(repo string) int {
	var files []string
	filepath.Walk(repo, func(p string, info os.FileInfo, err error) error {
		if err != nil {
			return nil
		}
		if info.IsDir() {
			n := info.Name()
			if n == ".git" || n == "verifhook" || n == "testdata" {
				return filepath.SkipDir
			}
			return nil
		}
		if strings.HasSuffix(p, ".go") && !strings.HasSuffix(p, "_test.go") && !strings.HasSuffix(p, "verif_hook.go") {
			files = append(files, p)
		}
		return nil
	})
	sort.Strings(files)
	h := sha256.New()
	for _, f := range files {
		fset := token.NewFileSet()
		af, err := parser.ParseFile(fset, f, nil, 0) // comments dropped
		rel, _ := filepath.Rel(repo, f)
		fmt.Fprintf(h, "== %s\n", rel)
		if err != nil {
			b, _ := os.ReadFile(f)
			h.Write(b)
			continue
		}
		if strings.HasSuffix(rel, "doc.go") {
			continue
		}
		var buf bytes.Buffer
		for _, d := range af.Decls {
			printer.Fprint(&buf, fset, d)
			buf.WriteByte('\n')
		}
		h.Write(buf.Bytes())
	}
	fmt.Printf("%x\n", h.Sum(nil))
	return 0
}
