//go:build verif

package main

// Translator for small pure integer functions of /repo (go/ast -> Lean):
// parameters and results of type int, statements `if` (with optional else / else-if),
// `=`, `:=`, `+=`, `-=`, `++`, `--`, `return`; expressions over identifiers, integer
// literals, + - *, unary minus, comparisons and && || !.  Everything else is refused
// (the generated file then carries `intFnsExtracted := false` and the regenerated-definition
// theorems hold vacuously, the tie resting on the correspondence check alone).
//
// Arithmetic is emitted over unbounded `Int`: Go's 64-bit wrap-around is NOT modelled
// (recorded in the trusted base; for RangeToIndexes the only additions are
// negative + non-negative size, which cannot overflow).
//
// Shape of the translation: a statement list becomes nested `let`s; an `if` without a
// `return` inside becomes `let (vars) := if c then <block value> else <vars>` over the
// variables its branches assign; an `if` whose branch returns duplicates the continuation.

import (
	"fmt"
	"go/ast"
	"go/parser"
	"go/token"
	"path/filepath"
	"sort"
	"strings"
)

type intFnSpec struct {
	file string // relative to the repo root
	fn   string // function name in the Go source
	lean string // name of the generated Lean definition
}

var intFnSpecs = []intFnSpec{
	{"internal/util/util.go", "RangeToIndexes", "rangeToIndexes"},
}

type ifnErr struct{ msg string }

func (e ifnErr) Error() string { return e.msg }

func ifnFail(format string, a ...any) { panic(ifnErr{fmt.Sprintf(format, a...)}) }

func lv(name string) string { return "v_" + name }

func ifnExpr(e ast.Expr) string {
	switch x := e.(type) {
	case *ast.Ident:
		if x.Name == "true" {
			return "True"
		}
		if x.Name == "false" {
			return "False"
		}
		return lv(x.Name)
	case *ast.BasicLit:
		if x.Kind != token.INT {
			ifnFail("literal %s", x.Value)
		}
		v, ok := intLit(x)
		if !ok {
			ifnFail("literal %s", x.Value)
		}
		return fmt.Sprintf("(%d : Int)", v)
	case *ast.ParenExpr:
		return "(" + ifnExpr(x.X) + ")"
	case *ast.UnaryExpr:
		switch x.Op {
		case token.SUB:
			return "(-" + ifnExpr(x.X) + ")"
		case token.NOT:
			return "(¬" + ifnExpr(x.X) + ")"
		}
		ifnFail("unary %s", x.Op)
	case *ast.BinaryExpr:
		op := ""
		switch x.Op {
		case token.ADD:
			op = "+"
		case token.SUB:
			op = "-"
		case token.MUL:
			op = "*"
		case token.LSS:
			op = "<"
		case token.LEQ:
			op = "≤"
		case token.GTR:
			op = ">"
		case token.GEQ:
			op = "≥"
		case token.EQL:
			op = "="
		case token.NEQ:
			op = "≠"
		case token.LAND:
			op = "∧"
		case token.LOR:
			op = "∨"
		default:
			ifnFail("binary %s", x.Op)
		}
		return "(" + ifnExpr(x.X) + " " + op + " " + ifnExpr(x.Y) + ")"
	case *ast.CallExpr:
		id, ok := x.Fun.(*ast.Ident)
		if !ok || curFile == nil {
			ifnFail("call of %T", x.Fun)
		}
		name := ensureIntFn(id.Name)
		args := make([]string, len(x.Args))
		for i, a := range x.Args {
			args[i] = ifnExpr(a)
		}
		return "(" + name + " " + strings.Join(args, " ") + ")"
	}
	ifnFail("expression %T", e)
	return ""
}

// state of the translation of one file: helper functions reached through calls are
// translated on demand and emitted before their callers
var (
	curFile   *ast.File
	curDone   map[string]string
	curOrder  []string
	curActive map[string]bool
)

func ensureIntFn(goName string) string {
	lean := "aux_" + goName
	for _, sp := range intFnSpecs {
		if sp.fn == goName {
			lean = sp.lean
		}
	}
	if _, ok := curDone[goName]; ok {
		return lean
	}
	if curActive[goName] {
		ifnFail("recursive call of %s", goName)
	}
	curActive[goName] = true
	def := translateDecl(goName, lean)
	curActive[goName] = false
	curDone[goName] = def
	curOrder = append(curOrder, goName)
	return lean
}

func hasReturn(n ast.Node) bool {
	found := false
	ast.Inspect(n, func(m ast.Node) bool {
		if _, ok := m.(*ast.ReturnStmt); ok {
			found = true
		}
		return !found
	})
	return found
}

// variables assigned (not declared) anywhere inside n
func assigned(n ast.Node, into map[string]bool) {
	ast.Inspect(n, func(m ast.Node) bool {
		switch s := m.(type) {
		case *ast.AssignStmt:
			if s.Tok != token.DEFINE {
				for _, l := range s.Lhs {
					if id, ok := l.(*ast.Ident); ok {
						into[id.Name] = true
					}
				}
			}
		case *ast.IncDecStmt:
			if id, ok := s.X.(*ast.Ident); ok {
				into[id.Name] = true
			}
		}
		return true
	})
}

func tuple(vars []string) string {
	if len(vars) == 1 {
		return lv(vars[0])
	}
	vs := make([]string, len(vars))
	for i, v := range vars {
		vs[i] = lv(v)
	}
	return "(" + strings.Join(vs, ", ") + ")"
}

// the statements followed by the continuation `k` (a function producing the final expression)
func ifnStmts(stmts []ast.Stmt, k func() string) string {
	if len(stmts) == 0 {
		return k()
	}
	rest := func() string { return ifnStmts(stmts[1:], k) }
	switch s := stmts[0].(type) {
	case *ast.ReturnStmt:
		rs := make([]string, len(s.Results))
		for i, r := range s.Results {
			rs[i] = ifnExpr(r)
		}
		if len(rs) == 1 {
			return rs[0]
		}
		return "(" + strings.Join(rs, ", ") + ")"
	case *ast.AssignStmt:
		if len(s.Lhs) > 1 && len(s.Rhs) == 1 {
			if _, ok := s.Rhs[0].(*ast.CallExpr); ok && (s.Tok == token.ASSIGN || s.Tok == token.DEFINE) {
				names := make([]string, len(s.Lhs))
				for i := range s.Lhs {
					id, ok := s.Lhs[i].(*ast.Ident)
					if !ok {
						ifnFail("assignment to %T", s.Lhs[i])
					}
					names[i] = id.Name
				}
				return fmt.Sprintf("let %s : %s := %s;\n  %s", tuple(names), strings.Repeat("Int × ", len(names)-1)+"Int", ifnExpr(s.Rhs[0]), rest())
			}
		}
		if len(s.Lhs) != len(s.Rhs) {
			ifnFail("assignment arity")
		}
		// simultaneous assignment: evaluate all right-hand sides first
		names := make([]string, len(s.Lhs))
		vals := make([]string, len(s.Lhs))
		for i := range s.Lhs {
			id, ok := s.Lhs[i].(*ast.Ident)
			if !ok {
				ifnFail("assignment to %T", s.Lhs[i])
			}
			names[i] = id.Name
			r := ifnExpr(s.Rhs[i])
			switch s.Tok {
			case token.ASSIGN, token.DEFINE:
				vals[i] = r
			case token.ADD_ASSIGN:
				vals[i] = "(" + lv(id.Name) + " + " + r + ")"
			case token.SUB_ASSIGN:
				vals[i] = "(" + lv(id.Name) + " - " + r + ")"
			default:
				ifnFail("assignment %s", s.Tok)
			}
		}
		if len(names) == 1 {
			return fmt.Sprintf("let %s : Int := %s;\n  %s", lv(names[0]), vals[0], rest())
		}
		return fmt.Sprintf("let %s : %s := (%s);\n  %s", tuple(names), strings.Repeat("Int × ", len(names)-1)+"Int", strings.Join(vals, ", "), rest())
	case *ast.IncDecStmt:
		id, ok := s.X.(*ast.Ident)
		if !ok {
			ifnFail("incdec of %T", s.X)
		}
		op := "+"
		if s.Tok == token.DEC {
			op = "-"
		}
		return fmt.Sprintf("let %s : Int := (%s %s 1);\n  %s", lv(id.Name), lv(id.Name), op, rest())
	case *ast.BlockStmt:
		return ifnStmts(append(append([]ast.Stmt{}, s.List...), stmts[1:]...), k)
	case *ast.IfStmt:
		if s.Init != nil {
			ifnFail("if with init")
		}
		cond := ifnExpr(s.Cond)
		var elseStmts []ast.Stmt
		if s.Else != nil {
			elseStmts = []ast.Stmt{s.Else}
		}
		if hasReturn(s) {
			// early return: duplicate the continuation into both branches
			thenE := ifnStmts(append(append([]ast.Stmt{}, s.Body.List...), stmts[1:]...), k)
			elseE := ifnStmts(append(append([]ast.Stmt{}, elseStmts...), stmts[1:]...), k)
			return fmt.Sprintf("if %s then\n  (%s)\n  else\n  (%s)", cond, thenE, elseE)
		}
		set := map[string]bool{}
		assigned(s.Body, set)
		if s.Else != nil {
			assigned(s.Else, set)
		}
		if len(set) == 0 {
			return rest()
		}
		vars := make([]string, 0, len(set))
		for v := range set {
			vars = append(vars, v)
		}
		sort.Strings(vars)
		val := func() string { return tuple(vars) }
		thenE := ifnStmts(s.Body.List, val)
		elseE := ifnStmts(elseStmts, val)
		ty := strings.Repeat("Int × ", len(vars)-1) + "Int"
		return fmt.Sprintf("let %s : %s := if %s then (%s) else (%s);\n  %s", tuple(vars), ty, cond, thenE, elseE, rest())
	}
	ifnFail("statement %T", stmts[0])
	return ""
}

func translateDecl(goName, lean string) string {
	for _, d := range curFile.Decls {
		fd, ok := d.(*ast.FuncDecl)
		if !ok || fd.Recv != nil || fd.Name.Name != goName || fd.Body == nil {
			continue
		}
		var params []string
		for _, p := range fd.Type.Params.List {
			if id, ok := p.Type.(*ast.Ident); !ok || id.Name != "int" {
				ifnFail("parameter type")
			}
			for _, n := range p.Names {
				params = append(params, "("+lv(n.Name)+" : Int)")
			}
		}
		nres := 0
		if fd.Type.Results != nil {
			for _, r := range fd.Type.Results.List {
				if id, ok := r.Type.(*ast.Ident); !ok || id.Name != "int" {
					ifnFail("result type")
				}
				if len(r.Names) > 0 {
					ifnFail("named results")
				}
				nres++
			}
		}
		if nres == 0 {
			ifnFail("no result")
		}
		ty := strings.Repeat("Int × ", nres-1) + "Int"
		body := ifnStmts(fd.Body.List, func() string { ifnFail("function end reached without return"); return "" })
		return fmt.Sprintf("def %s %s : %s :=\n  %s\n", lean, strings.Join(params, " "), ty, body)
	}
	ifnFail("function %s not found", goName)
	return ""
}

// all definitions needed for sp (helpers first)
func translateIntFn(repo string, sp intFnSpec) (defs []string, err error) {
	defer func() {
		if r := recover(); r != nil {
			if e, ok := r.(ifnErr); ok {
				err = e
				return
			}
			panic(r)
		}
	}()
	fset := token.NewFileSet()
	f, perr := parser.ParseFile(fset, filepath.Join(repo, sp.file), nil, 0)
	if perr != nil {
		return nil, perr
	}
	curFile, curDone, curOrder, curActive = f, map[string]string{}, nil, map[string]bool{}
	ensureIntFn(sp.fn)
	for _, n := range curOrder {
		defs = append(defs, curDone[n])
	}
	return defs, nil
}

func writeIntFns(dir, repo string) (string, error) {
	var sb strings.Builder
	sb.WriteString("-- GENERATED by harness translate from /repo (integer functions, go/ast -> Lean). DO NOT EDIT.\n")
	sb.WriteString("namespace RosedVerif.Gen\n\n")
	ok := true
	why := ""
	var defs []string
	for _, sp := range intFnSpecs {
		d, err := translateIntFn(repo, sp)
		if err != nil {
			ok = false
			why = sp.fn + ": " + err.Error()
			break
		}
		defs = append(defs, d...)
	}
	if ok {
		sb.WriteString("def intFnsExtracted : Bool := true\n\n")
		var names []string
		for _, d := range defs {
			sb.WriteString(d + "\n")
			names = append(names, "unfold RosedVerif.Gen."+strings.Fields(d)[1])
		}
		// a tactic that unfolds every generated definition (helpers included), for the tie proofs
		sb.WriteString("macro \"unfold_gen_intfns\" : tactic => `(tactic| repeat (first | " + strings.Join(names, " | ") + "))\n")
	} else {
		sb.WriteString("-- extraction refused: " + why + "\n")
		sb.WriteString("def intFnsExtracted : Bool := false\n\n")
		sb.WriteString("def rangeToIndexes (_ _ _ : Int) : Int × Int := (0, 0)\n")
		sb.WriteString("macro \"unfold_gen_intfns\" : tactic => `(tactic| skip)\n")
	}
	sb.WriteString("\nend RosedVerif.Gen\n")
	msg := "intfns=extracted"
	if !ok {
		msg = "intfns=refused(" + strings.ReplaceAll(why, " ", "_") + ")"
	}
	return msg, writeIfChanged(filepath.Join(dir, "IntFns.lean"), sb.String())
}
