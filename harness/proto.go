package main

import (
	"math"
	"unicode/utf8"
	"fmt"
	"strconv"
	"strings"

	"github.com/dekarrin/rosed"
)

// A text is written as its code points in hex joined by '.'; a byte that is not part of a
// well-formed UTF-8 sequence (Go decodes each such byte as one U+FFFD of width 1) is written
// as "-xx", the model's negative atom -0xxx: one atom, one byte long, break class Other.
func encText(s string) string {
	if s == "" {
		return "-"
	}
	var sb strings.Builder
	for i := 0; i < len(s); {
		if i > 0 {
			sb.WriteByte('.')
		}
		r, n := utf8.DecodeRuneInString(s[i:])
		if r == utf8.RuneError && n == 1 {
			sb.WriteString("-" + strconv.FormatInt(int64(s[i]), 16))
		} else {
			sb.WriteString(strconv.FormatInt(int64(r), 16))
		}
		i += n
	}
	return sb.String()
}

// set when a text with raw (ill-formed) bytes was decoded for the current case: outputs are
// then not expected to be valid UTF-8
var sawRaw bool

func encRunes(rs []rune) string {
	if len(rs) == 0 {
		return "-"
	}
	var sb strings.Builder
	for i, r := range rs {
		if i > 0 {
			sb.WriteByte('.')
		}
		sb.WriteString(strconv.FormatInt(int64(r), 16))
	}
	return sb.String()
}

func decRunes(s string) ([]rune, bool) {
	if s == "-" {
		return []rune{}, true
	}
	parts := strings.Split(s, ".")
	out := make([]rune, len(parts))
	for i, p := range parts {
		n, err := strconv.ParseInt(p, 16, 64)
		if err != nil {
			return nil, false
		}
		out[i] = rune(n)
	}
	return out, true
}

func decText(s string) (string, bool) {
	rs, ok := decRunes(s)
	if !ok {
		return "", false
	}
	var sb strings.Builder
	for _, r := range rs {
		if r <= -0x80 && r >= -0xff {
			sb.WriteByte(byte(-r))
			sawRaw = true
		} else {
			sb.WriteRune(r)
		}
	}
	return sb.String(), true
}

func decInt(s string) (int, bool) {
	if s == "End" {
		return rosed.End, true
	}
	n, err := strconv.ParseInt(s, 10, 64)
	return int(n), err == nil
}

func encInt(n int) string {
	if n == rosed.End {
		return "End"
	}
	return strconv.Itoa(n)
}

func encOpts(o rosed.Options) string {
	f := 0
	if o.NoTrailingLineSeparators {
		f |= 1
	}
	if o.PreserveParagraphs {
		f |= 2
	}
	if o.JustifyLastLine {
		f |= 4
	}
	if o.TableBorders {
		f |= 8
	}
	if o.TableHeaders {
		f |= 16
	}
	return fmt.Sprintf("%s:%s:%s:%s:%d", encText(o.IndentStr), encText(o.LineSeparator), encText(o.ParagraphSeparator), encText(o.TableCharSet), f)
}

func decOpts(s string) (rosed.Options, bool) {
	p := strings.Split(s, ":")
	var o rosed.Options
	if len(p) != 5 {
		return o, false
	}
	var ok bool
	if o.IndentStr, ok = decText(p[0]); !ok {
		return o, false
	}
	if o.LineSeparator, ok = decText(p[1]); !ok {
		return o, false
	}
	if o.ParagraphSeparator, ok = decText(p[2]); !ok {
		return o, false
	}
	if o.TableCharSet, ok = decText(p[3]); !ok {
		return o, false
	}
	f, err := strconv.Atoi(p[4])
	if err != nil {
		return o, false
	}
	o.NoTrailingLineSeparators = f&1 != 0
	o.PreserveParagraphs = f&2 != 0
	o.JustifyLastLine = f&4 != 0
	o.TableBorders = f&8 != 0
	o.TableHeaders = f&16 != 0
	return o, true
}

func encTable(d [][]string) string {
	if len(d) == 0 {
		return "!"
	}
	rows := make([]string, len(d))
	for i, r := range d {
		if len(r) == 0 {
			rows[i] = "@"
			continue
		}
		cells := make([]string, len(r))
		for j, c := range r {
			cells[j] = encText(c)
		}
		rows[i] = strings.Join(cells, "_")
	}
	return strings.Join(rows, "/")
}

func decTable(s string) ([][]string, bool) {
	if s == "!" {
		return [][]string{}, true
	}
	rows := strings.Split(s, "/")
	out := make([][]string, len(rows))
	for i, r := range rows {
		if r == "@" {
			out[i] = []string{}
			continue
		}
		cells := strings.Split(r, "_")
		out[i] = make([]string, len(cells))
		for j, c := range cells {
			t, ok := decText(c)
			if !ok {
				return nil, false
			}
			out[i][j] = t
		}
	}
	return out, true
}

func encDefs(d [][2]string) string {
	if len(d) == 0 {
		return "!"
	}
	items := make([]string, len(d))
	for i, x := range d {
		items[i] = encText(x[0]) + "_" + encText(x[1])
	}
	return strings.Join(items, "/")
}

func decDefs(s string) ([][2]string, bool) {
	if s == "!" {
		return [][2]string{}, true
	}
	items := strings.Split(s, "/")
	out := make([][2]string, len(items))
	for i, it := range items {
		p := strings.Split(it, "_")
		if len(p) != 2 {
			return nil, false
		}
		a, ok1 := decText(p[0])
		b, ok2 := decText(p[1])
		if !ok1 || !ok2 {
			return nil, false
		}
		out[i] = [2]string{a, b}
	}
	return out, true
}

// percentage: exact dyadic value of a float64, [-]num/exp = ± num / 2^exp
func encPct(f float64) string {
	if f == 0 {
		return "0/0"
	}
	neg := f < 0
	if neg {
		f = -f
	}
	if f >= 1<<63 {
		if neg {
			return "-huge"
		}
		return "huge"
	}
	// f = m * 2^e with m integer < 2^53
	exp := 0
	for f != float64(uint64(f)) || f >= 1<<63 {
		if f >= 1<<63 {
			// too large: clamp representation (anything > 1 behaves the same)
			f = 2
			break
		}
		f *= 2
		exp++
		if exp > 1100 {
			break
		}
	}
	s := fmt.Sprintf("%d/%d", uint64(f), exp)
	if neg {
		s = "-" + s
	}
	return s
}

func decPct(s string) (float64, bool) {
	neg := strings.HasPrefix(s, "-")
	if neg {
		s = s[1:]
	}
	if s == "huge" {
		if neg {
			return -math.MaxFloat64, true
		}
		return math.MaxFloat64, true
	}
	p := strings.Split(s, "/")
	if len(p) != 2 {
		return 0, false
	}
	num, err1 := strconv.ParseUint(p[0], 10, 64)
	exp, err2 := strconv.Atoi(p[1])
	if err1 != nil || err2 != nil {
		return 0, false
	}
	f := float64(num)
	for i := 0; i < exp; i++ {
		f /= 2
	}
	if neg {
		f = -f
	}
	return f, true
}

func encInts(l []int) string {
	if len(l) == 0 {
		return "-"
	}
	s := make([]string, len(l))
	for i, x := range l {
		s[i] = strconv.Itoa(x)
	}
	return strings.Join(s, ",")
}
