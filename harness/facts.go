package main

// Structural facts about /repo's source, extracted with full type information and
// written as Lean data (lean/RosedVerif/Gen/Facts.lean).  The expectations they are
// compared with are hand-written Lean theorems (Props/C08, C17, C20) checked by `decide`.

import (
	"bytes"
	"fmt"
	"go/ast"
	"go/printer"
	"go/token"
	"go/types"
	"path/filepath"
	"sort"
	"strings"

	"golang.org/x/tools/go/packages"
)

func exprText(fset *token.FileSet, e ast.Expr) string {
	var b bytes.Buffer
	printer.Fprint(&b, fset, e)
	return strings.Join(strings.Fields(b.String()), " ")
}

func cfgPrint(sb *strings.Builder, fset *token.FileSet, n ast.Node) {
	var b bytes.Buffer
	printer.Fprint(&b, fset, n)
	sb.WriteString(b.String())
}

func leanStrLit(s string) string {
	s = strings.ReplaceAll(s, "\\", "\\\\")
	s = strings.ReplaceAll(s, "\"", "\\\"")
	return "\"" + s + "\""
}

type heapWrite struct{ fn, kind, lhs string }

// base identifier object of an lvalue expression (x in x.f[i].g)
func baseIdent(e ast.Expr) *ast.Ident {
	for {
		switch v := e.(type) {
		case *ast.Ident:
			return v
		case *ast.SelectorExpr:
			e = v.X
		case *ast.IndexExpr:
			e = v.X
		case *ast.StarExpr:
			e = v.X
		case *ast.ParenExpr:
			e = v.X
		case *ast.SliceExpr:
			e = v.X
		default:
			return nil
		}
	}
}

// does evaluating the lvalue dereference a pointer or index a slice/map that is not a
// freshly declared local of this function?
func classifyWrite(info *types.Info, fn *ast.FuncDecl, lhs ast.Expr) string {
	throughPtr := false
	elem := false
	var walk func(e ast.Expr)
	walk = func(e ast.Expr) {
		switch v := e.(type) {
		case *ast.StarExpr:
			throughPtr = true
			walk(v.X)
		case *ast.ParenExpr:
			walk(v.X)
		case *ast.SelectorExpr:
			if t := info.TypeOf(v.X); t != nil {
				if _, ok := t.Underlying().(*types.Pointer); ok {
					throughPtr = true
				}
			}
			walk(v.X)
		case *ast.IndexExpr:
			if t := info.TypeOf(v.X); t != nil {
				switch t.Underlying().(type) {
				case *types.Slice, *types.Map, *types.Pointer:
					elem = true
				}
			}
			walk(v.X)
		}
	}
	walk(lhs)
	if throughPtr {
		return "ptr"
	}
	if elem {
		// element write: is the base a parameter / receiver / package-level variable?
		id := baseIdent(lhs)
		if id == nil {
			return "elem"
		}
		obj := info.ObjectOf(id)
		if v, ok := obj.(*types.Var); ok {
			if v.Parent() == v.Pkg().Scope() {
				return "elem-global"
			}
			// parameter or receiver?
			isParam := false
			check := func(fl *ast.FieldList) {
				if fl == nil {
					return
				}
				for _, f := range fl.List {
					for _, n := range f.Names {
						if info.ObjectOf(n) == obj {
							isParam = true
						}
					}
				}
			}
			check(fn.Recv)
			check(fn.Type.Params)
			if isParam {
				return "elem-param"
			}
			return "" // element of a local slice: not recorded
		}
		return "elem"
	}
	return ""
}

func writeFacts(dir, repo string) (string, error) {
	cfg := &packages.Config{Mode: packages.NeedName | packages.NeedSyntax | packages.NeedTypes |
		packages.NeedTypesInfo | packages.NeedFiles, Dir: repo}
	pkgs, err := packages.Load(cfg, "./...")
	if err != nil {
		return "", err
	}
	var pkgVars, ptrRecv []string
	var writes []heapWrite
	type deleg struct {
		name string
		ok   bool
	}
	var delegs []deleg
	var defaultsFirst []deleg
	for _, p := range pkgs {
		if len(p.Errors) > 0 {
			return "", fmt.Errorf("package %s has errors: %v", p.PkgPath, p.Errors[0])
		}
		short := p.Name
		optsFuncs := map[string]*ast.FuncDecl{}
		plain := map[string]*ast.FuncDecl{}
		for _, f := range p.Syntax {
			for _, d := range f.Decls {
				switch v := d.(type) {
				case *ast.GenDecl:
					if v.Tok == token.VAR {
						for _, s := range v.Specs {
							for _, n := range s.(*ast.ValueSpec).Names {
								pkgVars = append(pkgVars, short+"."+n.Name)
							}
						}
					}
				case *ast.FuncDecl:
					fname := v.Name.Name
					recvT := ""
					if v.Recv != nil && len(v.Recv.List) == 1 {
						t := v.Recv.List[0].Type
						if st, ok := t.(*ast.StarExpr); ok {
							recvT = exprText(p.Fset, st.X)
							ptrRecv = append(ptrRecv, short+"|"+recvT+"."+fname)
						} else {
							recvT = exprText(p.Fset, t)
						}
						fname = recvT + "." + fname
					}
					if recvT == "Editor" && short == "rosed" && v.Name.IsExported() {
						if strings.HasSuffix(v.Name.Name, "Opts") {
							optsFuncs[v.Name.Name] = v
						} else {
							plain[v.Name.Name] = v
						}
					}
					if v.Body == nil {
						continue
					}
					ast.Inspect(v.Body, func(n ast.Node) bool {
						switch s := n.(type) {
						case *ast.AssignStmt:
							if s.Tok == token.DEFINE {
								return true
							}
							for _, l := range s.Lhs {
								if k := classifyWrite(p.TypesInfo, v, l); k != "" {
									writes = append(writes, heapWrite{short + "|" + fname, k, exprText(p.Fset, l)})
								}
							}
						case *ast.IncDecStmt:
							if k := classifyWrite(p.TypesInfo, v, s.X); k != "" {
								writes = append(writes, heapWrite{short + "|" + fname, k, exprText(p.Fset, s.X)})
							}
						}
						return true
					})
				}
			}
		}
		// delegation X -> XOpts(params..., ed.Options)
		var names []string
		for n := range optsFuncs {
			names = append(names, n)
		}
		sort.Strings(names)
		for _, on := range names {
			xn := strings.TrimSuffix(on, "Opts")
			x, ok := plain[xn]
			if !ok {
				continue
			}
			good := false
			// accepted shapes:  return ed.XOpts(p1,…,pn, ed.Options)   |   ed = ed.XOpts(…); return ed
			var call *ast.CallExpr
			if len(x.Body.List) == 1 {
				if r, ok := x.Body.List[0].(*ast.ReturnStmt); ok && len(r.Results) == 1 {
					call, _ = r.Results[0].(*ast.CallExpr)
				}
			} else if len(x.Body.List) == 2 {
				if a, ok := x.Body.List[0].(*ast.AssignStmt); ok && len(a.Rhs) == 1 && len(a.Lhs) == 1 {
					if r, ok := x.Body.List[1].(*ast.ReturnStmt); ok && len(r.Results) == 1 &&
						exprText(p.Fset, r.Results[0]) == exprText(p.Fset, a.Lhs[0]) {
						call, _ = a.Rhs[0].(*ast.CallExpr)
					}
				}
			}
			if call != nil {
				recv := x.Recv.List[0].Names[0].Name
				if exprText(p.Fset, call.Fun) == recv+"."+on {
					var params []string
					for _, f := range x.Type.Params.List {
						for _, n := range f.Names {
							params = append(params, n.Name)
						}
					}
					if len(call.Args) == len(params)+1 {
						good = exprText(p.Fset, call.Args[len(params)]) == recv+".Options"
						for i, pn := range params {
							if exprText(p.Fset, call.Args[i]) != pn {
								good = false
							}
						}
					}
				}
			}
			delegs = append(delegs, deleg{xn, good})
		}
		// every XOpts: the first mention of its Options parameter is `opts.WithDefaults()`
		for _, on := range names {
			f := optsFuncs[on]
			// name of the Options parameter = last parameter
			pl := f.Type.Params.List
			if len(pl) == 0 {
				continue
			}
			last := pl[len(pl)-1]
			if exprText(p.Fset, last.Type) != "Options" || len(last.Names) == 0 {
				continue
			}
			pn := last.Names[len(last.Names)-1].Name
			firstOK := false
			seen := false
			ast.Inspect(f.Body, func(n ast.Node) bool {
				if seen {
					return false
				}
				switch v := n.(type) {
				case *ast.AssignStmt:
					if len(v.Rhs) == 1 {
						if c, ok := v.Rhs[0].(*ast.CallExpr); ok && exprText(p.Fset, c.Fun) == pn+".WithDefaults" {
							seen, firstOK = true, true
							return false
						}
					}
				case *ast.CallExpr:
					if exprText(p.Fset, v.Fun) == pn+".WithDefaults" {
						seen, firstOK = true, true
						return false
					}
				case *ast.Ident:
					if v.Name == pn {
						seen = true
						return false
					}
				}
				return true
			})
			defaultsFirst = append(defaultsFirst, deleg{on, firstOK})
		}
	}
	sort.Strings(pkgVars)
	sort.Strings(ptrRecv)
	sort.Slice(writes, func(a, b int) bool {
		if writes[a].fn != writes[b].fn {
			return writes[a].fn < writes[b].fn
		}
		return writes[a].lhs < writes[b].lhs
	})
	var sb strings.Builder
	sb.WriteString("-- GENERATED by harness translate (go/packages, typed) from /repo. DO NOT EDIT.\nnamespace RosedVerif.Gen\n\n")
	sb.WriteString("/-- package-level variables (pkg.name) -/\ndef packageVars : List String := [")
	for i, v := range pkgVars {
		if i > 0 {
			sb.WriteString(", ")
		}
		sb.WriteString(leanStrLit(v))
	}
	sb.WriteString("]\n\n/-- methods declared with a pointer receiver (pkg, Type.Method) -/\ndef pointerReceiverMethods : List (String × String) := [")
	for i, v := range ptrRecv {
		if i > 0 {
			sb.WriteString(", ")
		}
		pp := strings.SplitN(v, "|", 2)
		sb.WriteString("(" + leanStrLit(pp[0]) + ", " + leanStrLit(pp[1]) + ")")
	}
	sb.WriteString("]\n\n/-- assignments whose target is reached through a pointer (kind ptr), or is an element of a slice/map that is a\nparameter, receiver or package-level variable: (package, function, kind, target as written) -/\ndef heapWrites : List (String × String × String × String) := [\n")
	for i, w := range writes {
		if i > 0 {
			sb.WriteString(",\n")
		}
		pf := strings.SplitN(w.fn, "|", 2)
		fmt.Fprintf(&sb, "  (%s, %s, %s, %s)", leanStrLit(pf[0]), leanStrLit(pf[1]), leanStrLit(w.kind), leanStrLit(w.lhs))
	}
	sb.WriteString("]\n\n/-- for every exported Editor method X with a sibling XOpts: is its body exactly `return ed.XOpts(<params in order>, ed.Options)`? -/\ndef delegation : List (String × Bool) := [")
	for i, d := range delegs {
		if i > 0 {
			sb.WriteString(", ")
		}
		fmt.Fprintf(&sb, "(%s, %v)", leanStrLit(d.name), d.ok)
	}
	sb.WriteString("]\n\n/-- for every XOpts: is the first mention of its Options parameter a call of WithDefaults()? -/\ndef defaultsFirst : List (String × Bool) := [")
	for i, d := range defaultsFirst {
		if i > 0 {
			sb.WriteString(", ")
		}
		fmt.Fprintf(&sb, "(%s, %v)", leanStrLit(d.name), d.ok)
	}
	sb.WriteString("]\n\nend RosedVerif.Gen\n")
	if err := writeIfChanged(filepath.Join(dir, "Facts.lean"), sb.String()); err != nil {
		return "", err
	}
	return fmt.Sprintf("facts: vars=%d ptrRecv=%d heapWrites=%d delegation=%d defaultsFirst=%d", len(pkgVars), len(ptrRecv), len(writes), len(delegs), len(defaultsFirst)), nil
}
