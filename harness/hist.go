package main

// gem.String histories against the REAL code, observing the unexported cache
// cells through the tag-guarded hooks.

import (
	"fmt"
	"strconv"
	"strings"
	"unicode"
	"unsafe"

	vh "github.com/dekarrin/rosed/verifhook"
)

func zeroCellID() uintptr { return vh.GemZero().VerifCellID() }

func snapshotH(pool []vh.GString) string {
	seen := map[uintptr]string{}
	vals := make([]string, len(pool))
	zc := zeroCellID()
	for i, v := range pool {
		id := v.VerifCellID()
		var tag string
		switch {
		case id == 0:
			tag = "n"
		case id == zc:
			tag = "Z"
		default:
			t, ok := seen[id]
			if !ok {
				t = "c" + strconv.Itoa(len(seen))
				seen[id] = t
			}
			tag = t
		}
		hasCell, filled, ends := v.VerifCache()
		f, e := "0", "-"
		if hasCell && filled {
			f, e = "1", encInts(ends)
		}
		vals[i] = encRunes(v.VerifRunes()) + "^" + tag + "^" + f + "^" + e
	}
	zf := "0"
	if vh.GemZeroFilled() {
		zf = "1"
	}
	return strings.Join(vals, "+") + "!" + zf
}

var _ = unsafe.Sizeof(0)

func notSpaceHead(gc []rune) bool { return !unicode.IsSpace(gc[0]) }

func histStep(pool []vh.GString, step string) (out []vh.GString, obs string) {
	a := strings.Split(step, ",")
	var src vh.GString
	havesrc := false
	defer func() {
		if r := recover(); r != nil {
			if havesrc {
				out = append(pool, src)
			} else {
				out = append(pool, vh.GString{})
			}
			obs = "X~panic"
		}
	}()
	get := func(s string) (vh.GString, bool) {
		i, err := strconv.Atoi(s)
		if err != nil || i < 0 || i >= len(pool) {
			return vh.GString{}, false
		}
		return pool[i], true
	}
	fail := func() ([]vh.GString, string) { return append(pool, vh.GString{}), "X~parse" }
	atoi := func(s string) (int, bool) { n, err := strconv.Atoi(s); return n, err == nil }
	switch {
	case a[0] == "new" && len(a) == 2:
		rs, ok := decRunes(a[1])
		if !ok {
			return fail()
		}
		return append(pool, vh.GemFromRunes(rs)), "V"
	case a[0] == "zero":
		return append(pool, vh.GemZero()), "V"
	case a[0] == "zv":
		return append(pool, vh.GString{}), "V"
	}
	if len(a) < 2 {
		return fail()
	}
	x, ok := get(a[1])
	if !ok {
		return fail()
	}
	src, havesrc = x, true
	switch {
	case a[0] == "add" && len(a) == 3:
		y, ok := get(a[2])
		if !ok {
			return fail()
		}
		return append(pool, x.Add(y)), "V"
	case a[0] == "sub" && len(a) == 4:
		s, ok1 := atoi(a[2])
		e, ok2 := atoi(a[3])
		if !ok1 || !ok2 {
			return fail()
		}
		return append(pool, x.Sub(s, e)), "V"
	case a[0] == "setcharat" && len(a) == 4:
		k, ok1 := atoi(a[2])
		rs, ok2 := decRunes(a[3])
		if !ok1 || !ok2 {
			return fail()
		}
		return append(pool, x.SetCharAt(k, rs)), "V"
	case a[0] == "repeat" && len(a) == 3:
		n, ok := atoi(a[2])
		if !ok {
			return fail()
		}
		return append(pool, vh.GemRepeat(x, n)), "V"
	case a[0] == "reverse":
		return append(pool, x.Reverse()), "V"
	case a[0] == "len":
		n := x.Len()
		return append(pool, x), fmt.Sprintf("I~%d", n)
	case a[0] == "charat" && len(a) == 3:
		k, ok := atoi(a[2])
		if !ok {
			return fail()
		}
		c := x.CharAt(k)
		return append(pool, x), "R~" + encRunes(c)
	case a[0] == "gi":
		gi := x.GraphemeIndexes()
		ends := make([]int, len(gi))
		for i := range gi {
			ends[i] = gi[i][1]
		}
		return append(pool, x), "L~" + encInts(ends)
	case a[0] == "runes":
		return append(pool, x), "R~" + encRunes(x.Runes())
	case a[0] == "indexfunc":
		return append(pool, x), fmt.Sprintf("I~%d", x.IndexFunc(notSpaceHead))
	case a[0] == "lastindexfunc":
		return append(pool, x), fmt.Sprintf("I~%d", x.LastIndexFunc(notSpaceHead))
	}
	return fail()
}

func evalHist(steps string) string {
	var pool []vh.GString
	var outs []string
	for _, st := range strings.Split(steps, ";") {
		var obs string
		pool, obs = histStep(pool, st)
		outs = append(outs, obs+"#"+snapshotH(pool))
	}
	return strings.Join(outs, ";")
}
